"""Mutants of the context code for C38 (applied by monkey-patching inside the worker processes when the
environment variable VERIF_CTX_MUTANT is set; never touches /repo).

    python ctx_mutations.py            runs every mutant through the C38 structure scan + 20 interleavings
"""
import os, sys, json


def apply(name):
    import mpmath
    from mpmath import ctx_mp, ctx_mp_python, ctx_iv
    if name == "clone_shares_cell":
        # clone() reuses the parent's [prec, rounding] list
        def clone(ctx):
            a = ctx.__class__()
            a._prec_rounding = ctx._prec_rounding
            a.mpf._ctxdata[2] = a.mpc._ctxdata[2] = a.constant._ctxdata[2] = ctx._prec_rounding
            a._prec = ctx._prec
            a._dps = ctx._dps
            return a
        ctx_mp.MPContext.clone = clone
    elif name == "clone_shares_mpf_class":
        def clone(ctx):
            a = ctx.__class__()
            a.mpf = ctx.mpf
            a.types = [a.mpf, a.mpc, a.constant]
            a.prec = ctx.prec
            return a
        ctx_mp.MPContext.clone = clone
    elif name == "iv_prec_writes_mp":
        old = ctx_iv.MPIntervalContext._set_prec
        def _set_prec(ctx, n):
            old(ctx, n)
            mpmath.mp._prec_rounding[0] = max(1, int(n))
        ctx_iv.MPIntervalContext._set_prec = _set_prec
        ctx_iv.MPIntervalContext.prec = property(lambda ctx: ctx._prec[0], _set_prec)
    elif name == "pretty_class_level":
        # `pretty` stored on the class instead of the instance
        def _get(ctx): return ctx_mp.MPContext._pretty
        def _set(ctx, v): ctx_mp.MPContext._pretty = v
        ctx_mp.MPContext._pretty = False
        for c in [mpmath.mp]:
            c.__dict__.pop("pretty", None)
        ctx_mp.MPContext.pretty = property(_get, _set)
    elif name == "gamma_cache_ignores_prec":
        cache = {}     # one module-level cache keyed by the argument only, shared by all contexts
        def wrap(c):
            orig = c.gamma
            def gamma(x, **kw):
                k = str(c.convert(x)._mpf_) if hasattr(c.convert(x), "_mpf_") else None
                if k is None:
                    return orig(x, **kw)
                if k not in cache:
                    cache[k] = orig(x, **kw)
                return cache[k]
            c.gamma = gamma
        oldinit = ctx_mp.MPContext.init_builtins
        def init_builtins(ctx):
            oldinit(ctx)
            wrap(ctx)
        ctx_mp.MPContext.init_builtins = init_builtins
        wrap(mpmath.mp)
    elif name == "clone_copies_dps":
        def clone(ctx):
            a = ctx.__class__()
            a.prec = ctx.prec
            a._dps = ctx._dps
            return a
        ctx_mp.MPContext.clone = clone
    else:
        raise ValueError(name)


MUTANTS = ["clone_shares_cell", "clone_shares_mpf_class", "iv_prec_writes_mp", "pretty_class_level",
           "gamma_cache_ignores_prec", "clone_copies_dps"]

if __name__ == "__main__":
    sys.path.insert(0, os.path.dirname(os.path.abspath(__file__)))
    import ctx_ops
    for m in MUTANTS:
        os.environ["VERIF_CTX_MUTANT"] = m
        st = ctx_ops.call_worker({"mode": "structure"})
        cells = [v for v in st["cells"].values() if v]
        cls = [st["classes"][n].get("mpf") for n in st["contexts"] if st["classes"][n]]
        struct = []
        if len(set(cells)) != len(cells): struct.append("precision cell shared")
        if len(set(cls)) != len(cls): struct.append("mpf class shared")
        if not all(all(w.values()) for w in st["wiring"].values()): struct.append("wiring broken")
        g = ctx_ops.ProgGen(11)
        progs = [g.program(24, risk_p=0.0) for _ in range(20)]
        progs.append("sy:0:1 cl:0 ev:0:repr13 ev:3:repr13 sy:3:0 ev:0:repr13".split())
        progs.append("cl:0 sp:3:200 ev:3:gamma sp:0:30 ev:0:gamma ev:2:gamma".split())
        rs = ctx_ops.run_many(progs)
        leaks = sum(1 for r in rs if r and r["settings_leaks"])
        mm = sum(1 for r in rs if r and r["model_mismatch"])
        vm = sum(1 for r in rs if r and r["value_mismatch"])
        print("%-26s structure=%s settings-leak-programs=%d model-mismatch-programs=%d value-mismatch-programs=%d -> %s"
              % (m, struct or "-", leaks, mm, vm, "CAUGHT" if (struct or leaks or mm or vm) else "missed"))
    os.environ.pop("VERIF_CTX_MUTANT")
