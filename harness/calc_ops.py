"""Shared machinery for the calculus properties C26 C27 C28 C34 C36 (closed-form references proved in Lean).

* family descriptions (JSON) <-> Python callables (evaluated by the real mpmath at whatever precision the routine under
  test has set) <-> driver tokens (`lean/MpModel/DrvCalcRef.lean`: the closed form is built and decided in Lean; Python never
  computes a reference value),
* a pool of worker subprocesses that run the real mpmath routine (quad, nsum, diff, odefun, chebyfit, ...) under a hard
  wall-clock timeout and return every number EXACTLY (integer mantissa, exponent),
* `decide(lines)`: batch query of the compiled Lean checker.

Worker protocol: one JSON task per line on stdin, one JSON result per line on stdout.
  result = {"id":…, "ok": {...}} | {"id":…, "exc": "TypeName", "msg": …};  the parent adds {"id":…, "timeout": true}.
"""
import os, sys, json, time, select, subprocess, threading, queue
from fractions import Fraction

sys.path.insert(0, os.path.dirname(os.path.abspath(__file__)))
from common import Driver, import_repo, InfraError  # noqa

# ----------------------------------------------------------------------------------------------
# rationals / tokens
# ----------------------------------------------------------------------------------------------

def fr(x):
    """Fraction from 'n/d' | 'n' | int | Fraction"""
    if isinstance(x, Fraction):
        return x
    if isinstance(x, int):
        return Fraction(x)
    return Fraction(x)


def rtok(x):
    x = fr(x)
    return "%d" % x.numerator if x.denominator == 1 else "%d/%d" % (x.numerator, x.denominator)


def fam_tokens(d):
    k = d["fam"]
    if k == "poly":
        ts = d["ts"]
        return "poly %d " % len(ts) + " ".join("%s %d" % (rtok(c), n) for c, n in ts)
    if k in ("expL", "sinL", "cosL", "xexp", "recip"):
        return "%s %s" % (k, rtok(d["c"]))
    if k in ("expcos", "expsin"):
        return "%s %s %s" % (k, rtok(d["a"]), rtok(d["b"]))
    if k == "lorentz":
        return "lorentz"
    raise ValueError(k)


def faminf_tokens(d):
    k = d["fam"]
    if k == "gammaN":
        return "gammaN %d" % d["n"]
    if k == "expDecay":
        return "expDecay %s %s" % (rtok(d["c"]), rtok(d["a"]))
    if k in ("gaussFull", "gaussHalf"):
        return "%s %s" % (k, rtok(d["b"]))
    raise ValueError(k)


def dy_tokens(y):
    """y = [man, exp] exact dyadic"""
    return "%d %d" % (int(y[0]), int(y[1]))


def neg_dy(y):
    return [-int(y[0]), int(y[1])]


def dy_fraction(y):
    m, e = int(y[0]), int(y[1])
    return Fraction(m) * (Fraction(2) ** e)


# ----------------------------------------------------------------------------------------------
# worker side: build callables and run the real routines
# ----------------------------------------------------------------------------------------------

def _mp():
    m = import_repo()
    return m.mp


def mk_const(mp, q):
    """callable returning the rational q at the CURRENT working precision"""
    q = fr(q)
    n, d = q.numerator, q.denominator
    if d == 1:
        return lambda: mp.mpf(n)
    if d & (d - 1) == 0:
        return lambda: mp.ldexp(mp.mpf(n), -(d.bit_length() - 1))
    return lambda: mp.mpf(n) / d


def mk_fam(mp, d):
    """Python callable for a family description; every constant is converted at call time, so the function is
    evaluated with the precision the routine under test has set."""
    k = d["fam"]
    if k == "poly":
        ts = [(mk_const(mp, c), int(n)) for c, n in d["ts"]]

        def f(x):
            s = mp.zero
            for c, n in ts:
                s = s + c() * x ** n
            return s
        return f
    if k == "expL":
        c = mk_const(mp, d["c"]); return lambda x: mp.exp(c() * x)
    if k == "sinL":
        c = mk_const(mp, d["c"]); return lambda x: mp.sin(c() * x)
    if k == "cosL":
        c = mk_const(mp, d["c"]); return lambda x: mp.cos(c() * x)
    if k == "xexp":
        c = mk_const(mp, d["c"]); return lambda x: x * mp.exp(c() * x)
    if k == "expcos":
        a = mk_const(mp, d["a"]); b = mk_const(mp, d["b"]); return lambda x: mp.exp(a() * x) * mp.cos(b() * x)
    if k == "expsin":
        a = mk_const(mp, d["a"]); b = mk_const(mp, d["b"]); return lambda x: mp.exp(a() * x) * mp.sin(b() * x)
    if k == "lorentz":
        return lambda x: 1 / (1 + x * x)
    if k == "recip":
        c = mk_const(mp, d["c"]); return lambda x: 1 / (x + c())
    # infinite-range integrands
    if k == "gammaN":
        n = int(d["n"]); return lambda x: x ** n * mp.exp(-x)
    if k == "expDecay":
        c = mk_const(mp, d["c"]); return lambda x: mp.exp(-(c() * x))
    if k in ("gaussFull", "gaussHalf"):
        b = mk_const(mp, d["b"]); return lambda x: mp.exp(-(b() * x * x))
    raise ValueError(k)


def mk_point(mp, s):
    if s == "inf":
        return mp.inf
    if s == "-inf":
        return mp.ninf
    q = fr(s)
    d = q.denominator
    assert d & (d - 1) == 0, "interval end points must be dyadic (exactly representable)"
    return mp.ldexp(mp.mpf(q.numerator), -(d.bit_length() - 1))


def enc_num(mp, v):
    """exact encoding of an mpmath number"""
    if isinstance(v, (int,)):
        return {"re": [int(v), 0]}
    if hasattr(v, "_mpc_"):
        return {"re": enc_mpf_t(v.real._mpf_), "im": enc_mpf_t(v.imag._mpf_)}
    if hasattr(v, "_mpf_"):
        return {"re": enc_mpf_t(v._mpf_)}
    if isinstance(v, float):
        return {"re": enc_mpf_t(mp.mpf(v)._mpf_)}
    if isinstance(v, complex):
        return {"re": enc_mpf_t(mp.mpf(v.real)._mpf_), "im": enc_mpf_t(mp.mpf(v.imag)._mpf_)}
    return {"other": repr(v)[:200]}


def enc_mpf_t(t):
    s, m, e, b = t
    if m == 0 and e != 0:
        return ["special", {-123: "nan", -456: "+inf", -789: "-inf"}.get(int(e), "?")]
    return [-int(m) if s else int(m), int(e)]


def is_dy(x):
    return isinstance(x, list) and len(x) == 2 and x[0] != "special"


WORKER_KINDS = {}


def kind(name):
    def deco(f):
        WORKER_KINDS[name] = f
        return f
    return deco


def _integrand(mp, t):
    fs = [mk_fam(mp, d) for d in t["factors"]]
    c = mk_const(mp, t.get("c", "1"))
    unit = fr(t.get("c", "1")) == 1
    if len(fs) == 1:
        f0 = fs[0]
        return f0 if unit else (lambda x: c() * f0(x))
    if len(fs) == 2:
        return lambda x, y: c() * (fs[0](x) * fs[1](y))
    return lambda x, y, z: c() * (fs[0](x) * fs[1](y) * fs[2](z))


@kind("quad")
def w_quad(mp, t):
    """one integrand, several interval variants (forward / reversed / split) at one precision"""
    mp.prec = int(t["prec"])
    f = _integrand(mp, t)
    meth = getattr(mp, t["method"])
    kw = {}
    if t.get("rule"):
        kw["method"] = t["rule"]
    vs = []
    for var in t["variants"]:
        pts = [[mk_point(mp, s) for s in P] for P in var]
        mp.prec = int(t["prec"])
        v = meth(f, *pts, **kw)
        vs.append(enc_num(mp, v))
    return {"vs": vs, "prec_after": mp.prec}


# ---- C27: series / products / limits -----------------------------------------------------------

def ser_tokens(d):
    k = d["ser"]
    if k == "geom":
        return "geom %s %s %d" % (rtok(d["c"]), rtok(d["r"]), d["k0"])
    if k in ("zeta2", "zeta4", "leibniz"):
        return k
    if k == "tele":
        return "tele %d" % d["a"]
    if k in ("expS", "sinS", "cosS", "logS"):
        return "%s %s" % (k, rtok(d["x"]))
    raise ValueError(k)


def ser_start(d):
    k = d["ser"]
    return d["k0"] if k == "geom" else (1 if k in ("zeta2", "zeta4", "tele", "logS") else 0)


def mk_ser(mp, d):
    """term function k -> term (k an mpf/int with integer value), constants converted at call time"""
    k = d["ser"]
    if k == "geom":
        c = mk_const(mp, d["c"]); r = mk_const(mp, d["r"])
        return lambda n: c() * r() ** n
    if k == "zeta2":
        return lambda n: 1 / n ** 2
    if k == "zeta4":
        return lambda n: 1 / n ** 4
    if k == "tele":
        a = int(d["a"]); return lambda n: 1 / ((n + a) * (n + a + 1))
    if k == "expS":
        x = mk_const(mp, d["x"]); return lambda n: x() ** n / mp.factorial(n)
    if k == "sinS":
        x = mk_const(mp, d["x"]); return lambda n: (-1) ** n * x() ** (2 * n + 1) / mp.factorial(2 * n + 1)
    if k == "cosS":
        x = mk_const(mp, d["x"]); return lambda n: (-1) ** n * x() ** (2 * n) / mp.factorial(2 * n)
    if k == "logS":
        x = mk_const(mp, d["x"]); return lambda n: x() ** n / n
    if k == "leibniz":
        return lambda n: (-1) ** n / (2 * n + 1)
    raise ValueError(k)


def poly_tokens(ts):
    """`<k> c1 n1 ... ck nk` for the driver ops polysum / polysumq / polyddiff (lean/MpModel/DrvCalcSerX.lean)"""
    return "%d " % len(ts) + " ".join("%s %d" % (rtok(c), int(n)) for c, n in ts)


def lin_tokens(lin):
    """`<m> c1 <Ser1> ... cm <Serm>` for the driver ops linterm / lintail"""
    return "%d " % len(lin) + " ".join("%s %s" % (rtok(c), ser_tokens(d)) for c, d in lin)


def mk_shifted_poly(mp, ts, s):
    """k -> P(k - s) for the term list ts of P (the shift keeps the evaluation well conditioned on ranges far from 0);
    constants converted at call time"""
    P = mk_fam(mp, {"fam": "poly", "ts": ts})
    s = int(s)
    if s == 0:
        return P
    return lambda x: P(x - s)


def mk_lin(mp, lin):
    """k -> sum_j c_j * term_j(k) for members of the series families (all with the same start index)"""
    parts = [(mk_const(mp, c), mk_ser(mp, d)) for c, d in lin]

    def f(k):
        s = mp.zero
        for c, g in parts:
            s = s + c() * g(k)
        return s
    return f


def prd_tokens(d):
    k = d["prd"]
    return "ratio %d %d" % (d["a"], d["b"]) if k == "ratio" else k


def prd_start(d):
    return 2 if d["prd"] == "tele1" else 1


def mk_prd(mp, d):
    k = d["prd"]
    if k == "tele1":
        return lambda n: 1 - 1 / n ** 2
    if k == "tele2":
        return lambda n: 1 + 1 / (n * (n + 2))
    if k == "ratio":
        a, b = int(d["a"]), int(d["b"]); return lambda n: (n + a) / (n + b)
    raise ValueError(k)


def lim_tokens(d):
    k = d["lim"]
    if k == "ratSeq":
        return "ratSeq %s %s %s %s" % tuple(rtok(d[x]) for x in "abcd")
    return "%s %s" % (k, rtok(d["t"] if k == "euler" else d["c"]))


def mk_lim(mp, d):
    k = d["lim"]
    if k == "ratSeq":
        a, b, c, dd = (mk_const(mp, d[x]) for x in "abcd")
        return lambda x: (a() * x + b()) / (c() * x + dd())
    if k == "euler":
        t = mk_const(mp, d["t"]); return lambda x: (1 + t() / x) ** x
    if k == "slopeExp":
        c = mk_const(mp, d["c"]); return lambda x: (mp.exp(c() * x) - 1) / x
    if k == "slopeSin":
        c = mk_const(mp, d["c"]); return lambda x: mp.sin(c() * x) / x
    raise ValueError(k)


def _sample_terms(mp, f, start, n=4):
    """values of the Python transcription at prec 300, for the exact cross-check against the Lean term function"""
    old = mp.prec
    mp.prec = 300
    try:
        return [enc_num(mp, +f(mp.mpf(start + i))) for i in range(n)]
    finally:
        mp.prec = old


@kind("nsum")
def w_nsum(mp, t):
    mp.prec = int(t["prec"])
    sers = [mk_ser(mp, d) for d in t.get("sers", [])]
    starts = [ser_start(d) for d in t.get("sers", [])]
    shape = t["shape"]
    kw = {}
    if t.get("method"):
        kw["method"] = t["method"]
    inf = mp.inf
    if shape == "toinf":            # [start+d, inf], f(k) = term(k-d)
        d = int(t.get("shift", 0)); f0 = sers[0]
        v = mp.nsum(lambda k: f0(k - d), [starts[0] + d, inf], **kw)
    elif shape == "fromneginf":     # [-inf, b], f(k) = term(start + b - k)
        b = int(t["b"]); f0 = sers[0]; s0 = starts[0]
        v = mp.nsum(lambda k: f0(s0 + b - k), [-inf, b], **kw)
    elif shape == "all":            # f(k) = t1(s1+k) (k>=0), t2(s2-k-1) (k<0)
        f0, f1 = sers; s0, s1 = starts
        v = mp.nsum(lambda k: f0(s0 + k) if k >= 0 else f1(s1 - k - 1), [-inf, inf], **kw)
    elif shape == "finite":         # [a, b]
        f0 = sers[0]
        v = mp.nsum(f0, [int(t["a"]), int(t["b"])], **kw)
    elif shape == "inf_inf":        # 2-D product of two one-sided series
        f0, f1 = sers
        v = mp.nsum(lambda j, k: f0(j) * f1(k), [starts[0], inf], [starts[1], inf], **kw)
    elif shape == "fin_inf":
        f0, f1 = sers
        if t.get("swap"):
            v = mp.nsum(lambda k, j: f0(j) * f1(k), [starts[1], inf], [int(t["a"]), int(t["b"])], **kw)
        else:
            v = mp.nsum(lambda j, k: f0(j) * f1(k), [int(t["a"]), int(t["b"])], [starts[1], inf], **kw)
    elif shape == "fin_fin":
        f0, f1 = sers
        v = mp.nsum(lambda j, k: f0(j) * f1(k), [int(t["a"]), int(t["b"])], [int(t["a2"]), int(t["b2"])], **kw)
    elif shape == "fin_fin_inf":    # 3-D: finite x finite x infinite, f = t0(i) * t0(j) * t1(k)
        f0, f1 = sers
        v = mp.nsum(lambda i, j, k: f0(i) * f0(j) * f1(k), [int(t["a"]), int(t["b"])], [int(t["a2"]), int(t["b2"])],
                    [starts[1], inf], **kw)
    elif shape == "sumem":
        f0 = sers[0]
        v = mp.sumem(f0, [int(t["a"]), inf])
    elif shape == "sumap":
        f0 = sers[0]
        v = mp.sumap(f0, [starts[0], inf])
    elif shape == "sumem_poly":     # polynomial summand P(k - s) over the finite range [a, b]
        f0 = mk_shifted_poly(mp, t["poly"], t.get("s", 0))
        v = mp.sumem(f0, [int(t["a"]), int(t["b"])])
        return {"v": enc_num(mp, v), "prec_after": mp.prec, "terms": [_sample_terms(mp, f0, int(t["a"]))]}
    elif shape == "sumem_lin":      # tail [a, inf) of a rational linear combination of series with closed forms
        f0 = mk_lin(mp, t["lin"])
        v = mp.sumem(f0, [int(t["a"]), inf])
        return {"v": enc_num(mp, v), "prec_after": mp.prec, "terms": [_sample_terms(mp, f0, int(t["a"]))]}
    else:
        raise ValueError(shape)
    out = {"v": enc_num(mp, v), "prec_after": mp.prec}
    out["terms"] = [_sample_terms(mp, f, s) for f, s in zip(sers, starts)]
    return out


@kind("nprod")
def w_nprod(mp, t):
    mp.prec = int(t["prec"])
    f = mk_prd(mp, t["prd"]); s0 = prd_start(t["prd"])
    kw = {}
    if t.get("method"):
        kw["method"] = t["method"]
    if t.get("nsum"):
        kw["nsum"] = True
    shape = t["shape"]
    if shape == "toinf":
        d = int(t.get("shift", 0))
        v = mp.nprod(lambda k: f(k - d), [s0 + d, mp.inf], **kw)
    elif shape == "fromneginf":
        b = int(t["b"])
        v = mp.nprod(lambda k: f(s0 + b - k), [-mp.inf, b], **kw)
    elif shape == "finite":
        v = mp.nprod(f, [int(t["a"]), int(t["b"])], **kw)
    else:
        raise ValueError(shape)
    return {"v": enc_num(mp, v), "prec_after": mp.prec, "terms": [_sample_terms(mp, f, s0)]}


@kind("limit")
def w_limit(mp, t):
    mp.prec = int(t["prec"])
    f = mk_lim(mp, t["lim"])
    kw = {}
    if t.get("method"):
        kw["method"] = t["method"]
    if t.get("exp"):
        kw["exp"] = True
    if t["lim"]["lim"] in ("ratSeq", "euler"):
        v = mp.limit(f, mp.inf, **kw)
    else:
        v = mp.limit(f, 0, direction=int(t.get("direction", 1)), **kw)
    return {"v": enc_num(mp, v), "prec_after": mp.prec}


@kind("richardson")
def w_richardson(mp, t):
    """mp.richardson / mp.shanks on an exactly representable sequence"""
    mp.prec = int(t["prec"])
    seq = [mk_point(mp, s) for s in t["seq"]]
    v, c = mp.richardson(seq)
    return {"v": enc_num(mp, v), "c": enc_num(mp, c)}


# ---- C28: differentiation / Taylor / Pade --------------------------------------------------------

def _diff_opts(t):
    kw = {}
    o = t.get("opts") or {}
    for k in ("method", "direction", "addprec", "relative", "singular"):
        if k in o:
            kw[k] = o[k]
    return kw, o


@kind("diff")
def w_diff(mp, t):
    mp.prec = int(t["prec"])
    kw, o = _diff_opts(t)
    if "h_exp" in o:
        kw["h"] = mp.ldexp(1, -int(o["h_exp"]))
    if "radius" in o:
        kw["radius"] = mk_point(mp, o["radius"])
    api = t["api"]
    if api == "partial":
        fs = [mk_fam(mp, d) for d in t["fams"]]
        xs = tuple(mk_point(mp, x) for x in t["xs"])
        if len(fs) == 2:
            f = lambda x, y: fs[0](x) * fs[1](y)
        else:
            f = lambda x, y, z: fs[0](x) * fs[1](y) * fs[2](z)
        v = mp.diff(f, xs, tuple(int(n) for n in t["orders"]), **kw)
        return {"vs": [enc_num(mp, v)], "prec_after": mp.prec}
    f = mk_fam(mp, t["fam"])
    x = mk_point(mp, t["x"])
    n = int(t["n"])
    if api == "diff":
        vs = [mp.diff(f, x, n, **kw)]
    elif api == "diffs":
        vs = list(mp.diffs(f, x, n, **kw))
    elif api == "diffun":
        if "make_prec" in t:
            # the derivative function is CREATED at one working precision and CALLED at another (it must honour the precision
            # in force at the call, like diff itself)
            mp.prec = int(t["make_prec"])
            g_ = mp.diffun(f, n, **kw)
            mp.prec = int(t["prec"])
            x = mk_point(mp, t["x"])
            vs = [g_(x)]
        else:
            vs = [mp.diffun(f, n, **kw)(x)]
    elif api == "taylor":
        vs = mp.taylor(f, x, n, **kw)
    else:
        raise ValueError(api)
    return {"vs": [enc_num(mp, v) for v in vs], "prec_after": mp.prec}


@kind("pade")
def w_pade(mp, t):
    mp.prec = int(t["prec"])
    a = [mk_const(mp, q)() for q in t["a"]]
    p, q = mp.pade(a, int(t["L"]), int(t["M"]))
    return {"a": [enc_num(mp, v) for v in a], "p": [enc_num(mp, v) for v in p], "q": [enc_num(mp, v) for v in q],
            "prec_after": mp.prec}


@kind("differint")
def w_differint(mp, t):
    mp.prec = int(t["prec"])
    k = int(t["k"])
    v = mp.differint(lambda u: u ** k, mk_point(mp, t["x"]), int(t["n"]))
    return {"v": enc_num(mp, v), "prec_after": mp.prec}


@kind("difference")
def w_difference(mp, t):
    mp.prec = int(t["prec"])
    s = [mk_point(mp, q) for q in t["s"]]
    return {"v": enc_num(mp, mp.difference(s, int(t["n"])))}


# ---- C34: odefun ---------------------------------------------------------------------------------

def ode_tokens(d):
    k = d["ode"]
    if k == "lin":
        return "lin %s %s %s" % (rtok(d["a"]), rtok(d["x0"]), rtok(d["y0"]))
    if k == "osc":
        return "osc %s %s %s %s" % (rtok(d["w"]), rtok(d["x0"]), rtok(d["c0"]), rtok(d["s0"]))
    if k == "riccati":
        return "riccati %s %s" % (rtok(d["x0"]), rtok(d["y0"]))
    if k == "ricx":      # decided by the driver op `odevalx` (lean/MpModel/DrvCalcOdeX.lean)
        return "ricx %s %s %s" % (rtok(d["c"]), rtok(d["x0"]), rtok(d["y0"]))
    raise ValueError(k)


def mk_ode(mp, d, vector_form=False):
    """(F, x0, y0) for mp.odefun; constants converted at call time"""
    k = d["ode"]
    x0 = mk_point(mp, d["x0"])
    if k == "lin":
        a = mk_const(mp, d["a"]); y0 = mk_const(mp, d["y0"])()
        if vector_form:
            return (lambda x, y: [a() * y[0]]), x0, [y0]
        return (lambda x, y: a() * y), x0, y0
    if k == "osc":
        w = mk_const(mp, d["w"])
        return (lambda x, y: [y[1], -(w() * w()) * y[0]]), x0, [mk_const(mp, d["c0"])(), mk_const(mp, d["s0"])()]
    if k == "riccati":
        y0 = mk_const(mp, d["y0"])()
        if vector_form:
            return (lambda x, y: [-y[0] * y[0]]), x0, [y0]
        return (lambda x, y: -y * y), x0, y0
    if k == "ricx":      # y' = -2 (x - c) y^2, y(x0) = y0 > 0, c <= x0:  y = 1/(1/y0 + (x-c)^2 - (x0-c)^2)
        c = mk_const(mp, d["c"])
        y0 = mk_const(mp, d["y0"])()
        if vector_form:
            return (lambda x, y: [-2 * (x - c()) * y[0] * y[0]]), x0, [y0]
        return (lambda x, y: -2 * (x - c()) * y * y), x0, y0
    if k == "dec":       # DECOUPLED vector system: component i solves the scalar problem parts[i] from the common x0
        subs = []
        for p in d["parts"]:
            assert p["ode"] in ("lin", "riccati", "ricx"), p["ode"]
            subs.append(mk_ode(mp, dict(p, x0=d["x0"]), False))
        fs = [s[0] for s in subs]
        return (lambda x, y: [f(x, y[i]) for i, f in enumerate(fs)]), x0, [s[2] for s in subs]
    raise ValueError(k)


def ode_closure(f):
    d = {}
    for name, cell in zip(f.__code__.co_freevars, f.__closure__ or ()):
        d[name] = cell.cell_contents
    gs = d.get("get_series")
    if gs is not None:
        for name, cell in zip(gs.__code__.co_freevars, gs.__closure__ or ()):
            d.setdefault(name, cell.cell_contents)
    return d


def _dy_to_mpf(mp, y):
    from mpmath.libmp import from_man_exp
    return mp.mpf(from_man_exp(int(y[0]), int(y[1])))


@kind("odefun")
def w_odefun(mp, t):
    """scout run (to learn the segment boundaries), then the same query multiset in several orders on FRESH solution objects.
    A query is [x_spec, prec]; x_spec is a dyadic string, or ["b", k] = the k-th boundary of the scout run (exact)."""
    prec = int(t["prec"])
    kw = {}
    if t.get("tol_exp") is not None:
        kw["tol"] = None  # set below at the right precision
    if t.get("degree"):
        kw["degree"] = int(t["degree"])

    def fresh():
        mp.prec = prec
        F, x0, y0 = mk_ode(mp, t["ode"], t.get("vector_form", False))
        k2 = dict(kw)
        if t.get("tol_exp") is not None:
            k2["tol"] = mp.ldexp(1, -int(t["tol_exp"]))
        return mp.odefun(F, x0, y0, **k2)

    # scout
    f = fresh()
    xmax = mk_point(mp, t["xmax"])
    f(xmax)
    cv = ode_closure(f)
    scout_b = [enc_num(mp, b)["re"] for b in cv["series_boundaries"]]
    workprec = int(cv["workprec"])
    degree_used = int(cv["degree"]) if "degree" in cv else None
    tol_prec_used = int(cv["tol_prec"]) if "tol_prec" in cv else None
    # resolve queries
    qs = []
    for xs, qp in t["queries"]:
        if isinstance(xs, list):
            k = int(xs[1]) % len(scout_b)
            if k == 0:
                k = min(1, len(scout_b) - 1)
            x = scout_b[k]
        else:
            q = fr(xs); d = q.denominator
            x = [q.numerator, -(d.bit_length() - 1)]
        qs.append((x, int(qp) if qp != "full" else workprec + 8))
    hist = []
    for order in t["orders"]:
        f = fresh()
        vals = []
        for idx in order:
            x, qp = qs[idx]
            mp.prec = qp
            v = f(_dy_to_mpf(mp, x))
            comps = v if isinstance(v, list) else [v]
            nb = len(ode_closure(f)["series_boundaries"])
            vals.append({"i": idx, "v": [enc_num(mp, c)["re"] for c in comps], "nb": nb})
        mp.prec = prec
        cv = ode_closure(f)
        hist.append({"vals": vals, "boundaries": [enc_num(mp, b)["re"] for b in cv["series_boundaries"]],
                     "ndata": len(cv["series_data"])})
    return {"scout_boundaries": scout_b, "workprec": workprec, "queries": [[x, qp] for x, qp in qs], "hist": hist,
            "prec_after": mp.prec, "degree_used": degree_used, "tol_prec_used": tol_prec_used}


# ---- C36: chebyfit / fourier / fourierval -----------------------------------------------------------

def mk_trig(mp, cs, ss, a, b):
    """t -> sum cs[n] cos(2 pi n t/L) + ss[n] sin(2 pi n t/L), L = b - a (constants converted at call time)"""
    cs = [mk_const(mp, c) for c in cs]
    ss = [mk_const(mp, c) for c in ss]
    a_ = mk_const(mp, a); b_ = mk_const(mp, b)

    def f(t):
        m = 2 * mp.pi / (b_() - a_())
        s = mp.zero
        for n, c in enumerate(cs):
            s = s + c() * mp.cos(m * n * t)
        for n, c in enumerate(ss):
            s = s + c() * mp.sin(m * n * t)
        return s
    return f


@kind("chebyfit")
def w_chebyfit(mp, t):
    mp.prec = int(t["prec"])
    f = mk_fam(mp, t["fam"])
    iv = [mk_point(mp, t["a"]), mk_point(mp, t["b"])]
    d, err = mp.chebyfit(f, iv, int(t["N"]), error=True)
    return {"d": [enc_num(mp, c) for c in d], "err": enc_num(mp, err), "prec_after": mp.prec}


@kind("fourier")
def w_fourier(mp, t):
    mp.prec = int(t["prec"])
    f = mk_trig(mp, t["cs"], t["ss"], t["a"], t["b"])
    iv = [mk_point(mp, x) for x in t.get("points", [t["a"], t["b"]])]
    c, s = mp.fourier(f, iv, int(t["N"]))
    return {"c": [enc_num(mp, x) for x in c], "s": [enc_num(mp, x) for x in s], "prec_after": mp.prec}


@kind("fourierval")
def w_fourierval(mp, t):
    mp.prec = int(t["prec"])
    cs = [mk_point(mp, c) for c in t["cs"]]
    ss = [mk_point(mp, c) for c in t["ss"]]
    iv = [mk_point(mp, t["a"]), mk_point(mp, t["b"])]
    v = mp.fourierval((cs, ss), iv, mk_point(mp, t["x"]))
    return {"v": enc_num(mp, v), "prec_after": mp.prec}


def worker_main():
    mp = _mp()
    import calc_cplx  # noqa: registers the cx_* worker kinds (C27: complex-valued summand classes, direct extrapolation classes)
    for line in sys.stdin:
        line = line.strip()
        if not line:
            continue
        t = json.loads(line)
        try:
            mp.prec = 53
            res = {"id": t["id"], "ok": WORKER_KINDS[t["kind"]](mp, t)}
        except BaseException as e:  # noqa
            if isinstance(e, (KeyboardInterrupt, SystemExit)):
                raise
            res = {"id": t["id"], "exc": type(e).__name__, "msg": str(e)[:300]}
        sys.stdout.write(json.dumps(res) + "\n")
        sys.stdout.flush()


# ----------------------------------------------------------------------------------------------
# parent side: pool with hard timeouts
# ----------------------------------------------------------------------------------------------

class Worker:
    def __init__(self):
        self.p = None
        self.start()

    def start(self):
        env = dict(os.environ)
        env["MPMATH_NOGMPY"] = "1"
        env["PYTHONPATH"] = os.path.dirname(os.path.abspath(__file__)) + os.pathsep + env.get("PYTHONPATH", "")
        self.p = subprocess.Popen([sys.executable, os.path.abspath(__file__), "--worker"], stdin=subprocess.PIPE,
                                  stdout=subprocess.PIPE, stderr=subprocess.DEVNULL, env=env, text=True, bufsize=1)

    def stop(self):
        try:
            self.p.kill()
            self.p.wait(timeout=5)
        except Exception:
            pass

    def call(self, task, timeout):
        try:
            self.p.stdin.write(json.dumps(task) + "\n")
            self.p.stdin.flush()
        except Exception:
            self.stop(); self.start()
            return {"id": task["id"], "crash": True}
        t0 = time.time()
        while True:
            left = timeout - (time.time() - t0)
            if left <= 0:
                self.stop(); self.start()
                return {"id": task["id"], "timeout": True}
            rl, _, _ = select.select([self.p.stdout], [], [], left)
            if not rl:
                continue
            line = self.p.stdout.readline()
            if not line:
                self.stop(); self.start()
                return {"id": task["id"], "crash": True}
            try:
                r = json.loads(line)
            except ValueError:
                continue
            if r.get("id") == task["id"]:
                r["wall"] = round(time.time() - t0, 3)
                return r


def run_pool(tasks, nworkers=6, default_timeout=10.0, deadline=None):
    """Run tasks (dicts with unique 'id', optional 'timeout') on worker subprocesses. Returns {id: result}.
    Tasks not started before `deadline` (absolute time) get {"skipped": True}."""
    q = queue.Queue()
    for t in tasks:
        q.put(t)
    results = {}
    lock = threading.Lock()

    def loop():
        w = Worker()
        try:
            while True:
                try:
                    t = q.get_nowait()
                except queue.Empty:
                    return
                if deadline is not None and time.time() > deadline:
                    r = {"id": t["id"], "skipped": True}
                else:
                    r = w.call(t, float(t.get("timeout", default_timeout)))
                with lock:
                    results[t["id"]] = r
        finally:
            w.stop()

    th = [threading.Thread(target=loop) for _ in range(max(1, min(nworkers, len(tasks))))]
    for x in th:
        x.start()
    for x in th:
        x.join()
    return results


def decide(lines):
    """ask the compiled Lean checker; returns list of answers"""
    return Driver().ask(lines) if lines else []


class Stats:
    def __init__(self):
        self.hist = {}

    def note(self, key, val):
        d = self.hist.setdefault(key, {})
        d[str(val)] = d.get(str(val), 0) + 1

    def as_dict(self):
        return {k: dict(sorted(v.items())) for k, v in self.hist.items()}


def run_cases(cases, ctx, nworkers=6, default_timeout=10.0, budget_s=None):
    """Generic engine.  A case is a dict:
         task      : worker task (without id)
         site      : stable site string for failing inputs
         lines(res): -> dict name -> driver request line, built from the worker's exact result
         judge(res, answers) -> (verdict, what)  with verdict in ok | violates | undecided
         nontrivial: bool
         in_domain : bool  (a timeout / exception on an in-domain input is reported)
       Returns (summary dict, failing_inputs, disagreements)."""
    t0 = time.time()
    deadline = None if budget_s is None else t0 + budget_s
    for i, c in enumerate(cases):
        c["task"]["id"] = i
    results = run_pool([c["task"] for c in cases], nworkers, default_timeout, deadline)
    # driver batch
    req = []
    owner = []
    for i, c in enumerate(cases):
        r = results.get(i, {})
        c["res"] = r
        if "ok" in r:
            try:
                ls = c["lines"](r["ok"]) or {}
            except Exception as e:  # malformed result
                ls = {}
                c["lines_error"] = repr(e)
            for name, line in ls.items():
                req.append(line)
                owner.append((i, name))
    ans = decide(req)
    per = {}
    for (i, name), a in zip(owner, ans):
        per.setdefault(i, {})[name] = a
    fails, summary = [], {"ok": 0, "violates": 0, "undecided": 0, "timeout": 0, "exception": 0, "skipped": 0, "crash": 0}
    nontrivial = set()
    samples = []
    for i, c in enumerate(cases):
        r = c["res"]
        inp = dict(c["task"]); inp.pop("id", None)
        if r.get("skipped"):
            summary["skipped"] += 1
            continue
        if r.get("timeout"):
            summary["timeout"] += 1
            c["verdict"] = "timeout"
            if c.get("in_domain", True) and c.get("report_timeout", False):
                fails.append({"site": c["site"] + "[no-result]", "what": "no result within %ss on an in-domain input" % c["task"].get("timeout", default_timeout),
                              "input": inp})
            continue
        if r.get("crash"):
            summary["crash"] += 1
            continue
        if "exc" in r:
            summary["exception"] += 1
            c["verdict"] = "exception"
            if c.get("in_domain", True):
                fails.append({"site": c["site"], "what": "raised %s: %s" % (r["exc"], r.get("msg")),
                              "input": dict(inp, outcome="raised %s: %s" % (r["exc"], str(r.get("msg"))[:80]))})
            continue
        jr = c["judge"](r["ok"], per.get(i, {}))
        v, what = jr[0], jr[1]
        site = jr[2] if len(jr) > 2 and jr[2] else c["site"]      # a judge may refine the site (narrow defect families)
        c["verdict"] = v
        summary[v] = summary.get(v, 0) + 1
        if v == "violates":
            fails.append({"site": site, "what": what, "input": dict(inp, result=r["ok"])})
        if v in ("ok", "violates") and c.get("nontrivial", True):
            nontrivial.add(json.dumps(inp, sort_keys=True))
        if len(samples) < 6 and v == "ok":
            samples.append({"input": inp, "result": r["ok"], "answers": per.get(i, {})})
    summary["wall_s"] = round(time.time() - t0, 1)
    return {"summary": summary, "distinct_nontrivial": len(nontrivial), "samples": samples}, fails


def cli():
    """calc_ops.py <PID> [seed] [quick|thorough]: run one property's dynamic part outside the runner and print a summary"""
    import importlib, collections
    pid = sys.argv[1]
    seed = int(sys.argv[2]) if len(sys.argv) > 2 else 0
    tier = sys.argv[3] if len(sys.argv) > 3 else "quick"

    class Ctx:
        pass
    ctx = Ctx(); ctx.seed = seed; ctx.quick = tier == "quick"; ctx.tier = tier; ctx.replay = None; ctx.pid = pid
    m = importlib.import_module("props." + pid)
    res = m.run(ctx)
    cov = res["coverage"]
    print(json.dumps({k: v for k, v in cov.items() if k not in ("samples",)}, indent=1)[:6000])
    print("failing inputs: %d  %s" % (len(res["failing_inputs"]), dict(collections.Counter(f["site"] for f in res["failing_inputs"]))))
    for f in res["failing_inputs"][:10]:
        print(json.dumps(f)[:700])
    print("disagreements: %d" % len(res["disagreements"]))


if __name__ == "__main__":
    if len(sys.argv) > 1 and sys.argv[1] == "--worker":
        import calc_ops
        calc_ops.worker_main()
    elif len(sys.argv) > 1:
        cli()
