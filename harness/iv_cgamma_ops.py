"""C15, gamma family on complex rectangles: iv.gamma / iv.rgamma / iv.loggamma / iv.factorial of an iv.mpc
(libmpi.mpci_gamma, types 0 / 2 / 3 / 1).  Extension module of iv_fun_ops.py (registers itself there on import).

NO verified evaluator of the complex gamma function exists.  What is decided is a NECESSARY condition at the points of the
input rectangle where Gamma is known in closed form:

 (A) real points n and n + 1/2 (y = 0 inside the imaginary range):  Gamma(n) = (n-1)!,
     Gamma(n + 1/2) = (2n)!/(4^n n!) sqrt(pi)  (verified sqrt and pi enclosures; log Gamma through the verified log).
     The exact value must be in the returned rectangle: real part in the re-interval AND 0 in the im-interval.
     1/Gamma = 0 at the poles; log Gamma is used on the positive real axis only (principal branch: real there).
 (B) points of the vertical lines Re z = n and Re z = n + 1/2 with dyadic y != 0:
         |Gamma(iy)|^2       = pi / (y sinh(pi y))            |Gamma(1/2 + iy)|^2 = pi / cosh(pi y)
     and, through Gamma(z+1) = z Gamma(z),
         |Gamma(n + iy)|^2       = |Gamma(iy)|^2 * prod_{j=0}^{n-1} (j^2 + y^2)              (n >= 1)
         |Gamma(-n + iy)|^2      = |Gamma(iy)|^2 / prod_{j=1}^{n} (j^2 + y^2)                (n >= 1)
         |Gamma(n + 1/2 + iy)|^2 = |Gamma(1/2+iy)|^2 * prod_{j=0}^{n-1} ((j+1/2)^2 + y^2)    (n >= 1)
         |Gamma(-n + 1/2 + iy)|^2 = |Gamma(1/2+iy)|^2 / prod_{j=1}^{n} ((j-1/2)^2 + y^2)     (n >= 1)
     enclosed with the verified pi / sinh / cosh enclosures (sinh, cosh increasing on t > 0) and exact rational arithmetic.
     The returned rectangle W must contain a point of that modulus: with min2 / max2 the exact minimum / maximum of
     |w|^2 over W (W is connected, so every modulus in between is attained)
            m2_hi < min2 or max2 < m2_lo  -> failing input;   min2 <= m2_lo and m2_hi <= max2 -> condition satisfied.
     rgamma: reciprocal modulus.  loggamma: Re log Gamma(z) = log |Gamma(z)| (any branch) must be in the re-interval.
 (C) a pole (integer n <= 0) strictly inside the rectangle: gamma / factorial must return the whole plane, loggamma an
     upper real endpoint +inf.

Rectangles are generated around every constant that steers mpci_gamma / mpi_gamma (read from libmpi at run time):
gamma_min_a / gamma_min_b (the minimum of Gamma on x > 0), gamma_min_b - j (number of recurrence steps), 0 and the negative
integers (poles), the strip |Im| <= 1.1 (gamma_mono_imag_a/b) and the three half-plane cases of the corner selection.
"""
import os, sys, random
from fractions import Fraction
sys.path.insert(0, os.path.dirname(os.path.abspath(__file__)))
import iv_fun_ops as IVF
import iv_cgamma_findings  # noqa  (registers the known-finding predicates)
from iv_fun_ops import (ZERO, ONE, PINF, NINF, NAN, fin, dsign, to_q, dcmp, xcmp, dneg, dadd, dsub, dmul, dshift, dmag, dmax,
                        dround_out, parse_P, x_of_mpf, pair, lengthen, Case, xstr, _int_of)
from mpmath import iv
from mpmath.libmp import from_float
import mpmath.libmp.libmpi as LI

RULE = ("cgamma / crgamma / cloggamma / cfactorial: rectangles around every constant that steers mpci_gamma (gamma_min_a/b read from "
        "libmpi, gamma_min_b - j = number of recurrence steps, the poles 0..-6, 1/2, 1, 2; imaginary ranges: point, symmetric, "
        "asymmetric, touching 0, off-axis, straddling / beyond the strip |Im| <= 1.1) as point / few-ulp / wide ranges, extended so "
        "that they contain a line Re z in (1/2)Z, at precisions 2..200; decided ONLY at closed-form points (real (half-)integers: "
        "exact value in the rectangle; n + iy, n + 1/2 + iy: a point of the exact modulus in the rectangle / log-modulus in the real "
        "part; pole strictly inside: whole plane) -- a necessary condition, not containment at every point; input_distribution has "
        "re_kind / im_kind / threshold / guard_class histograms per function; cloggamma also gets steered corners (log|Gamma| at the "
        "corner that fixes a real endpoint lies 2^-21 .. 2^-100 ulp beside a grid number; mp only chooses the input)")
KIND = {"cgamma": "gamma", "crgamma": "rgamma", "cloggamma": "loggamma", "cfactorial": "factorial"}
CG_FUNS = list(KIND)
# steered corners of loggamma: distance 2^-depth ulp to the grid.  21..32: a corner evaluation rounded in the WRONG direction at
# working precision p+20 shows, a correct one does not (mpc_loggamma is accurate to about 2^-34 ulp); 40, 100: beyond that accuracy
DEPTHS = (21, 22, 23, 24, 26, 28, 30, 32, 32, 40, 100)
NMAX = 40            # closed-form lines Re z = k/2 with |k/2| <= NMAX
YMAG = 6             # sample points with |y| < 2^YMAG


def _thr(name, default):
    t = getattr(LI, name, None)
    try:
        v = x_of_mpf(t)
        if fin(v):
            return v
    except Exception:  # noqa
        pass
    return x_of_mpf(from_float(default))


GMIN_A = _thr("gamma_min_a", 1.46163214496)
GMIN_B = _thr("gamma_min_b", 1.46163214497)
IM_A = _thr("gamma_mono_imag_a", -1.1)
IM_B = _thr("gamma_mono_imag_b", 1.1)


def real_thresholds():
    """(label, value) in the variable of Gamma"""
    th = [("gamma_min_a", GMIN_A), ("gamma_min_b", GMIN_B)]
    th += [("gamma_min_b-%d" % j, dsub(GMIN_B, (j, 0))) for j in range(1, 9)]
    th += [("pole%d" % -n, (-n, 0)) for n in range(0, 7)]
    th += [("half", (1, -1)), ("one", ONE), ("two", (2, 0))]
    return th


RTH = real_thresholds()
# the minimum of Gamma is the threshold of the two guards: it gets half of the weight
RTH_W = [t for t in RTH if t[0].startswith("gamma_min_")][:2] * 9 + RTH


# ======================================================================================================
# variants (real code)
# ======================================================================================================
def _register_variants():
    for f, k in KIND.items():
        IVF.VARIANTS[f] = [("iv.%s[mpc]" % k, (lambda a, p, k=k: IVF._cplx_res(getattr(iv, k)(IVF._ivc(a[0]))))),
                           ("libmpi.mpci_" + k, (lambda a, p, k=k: getattr(LI, "mpci_" + k)(a[0], p)))]


# ======================================================================================================
# references
# ======================================================================================================
def mod2_encl(k, y, wp):
    """coroutine: rational enclosure (lo, hi) of |Gamma(k/2 + iy)|^2, y != 0 dyadic"""
    ay = (abs(y[0]), y[1])
    pl, ph = IVF.PI(wp + 16)
    tl, th = dmul(pl, ay), dmul(ph, ay)
    if dmag(th) > 20:
        return None
    fn = "cosh" if (k & 1) else "sinh"
    ans = yield ["encl %s %d %d %d" % (fn, wp, tl[0], tl[1]), "encl %s %d %d %d" % (fn, wp, th[0], th[1])]
    a, b = parse_P(ans[0]), parse_P(ans[1])
    if a is None or b is None:
        return None
    hl, hh = to_q(a[0]), to_q(b[1])          # sinh / cosh increasing on t > 0
    if hl <= 0:
        return None
    Pl, Ph, Y = to_q(pl), to_q(ph), to_q(ay)
    y2 = Y * Y
    if k & 1:
        n = (k - 1) // 2
        lo, hi = Pl / hh, Ph / hl
        if n >= 1:
            terms = [Fraction(2 * j + 1, 2) ** 2 + y2 for j in range(0, n)]
        else:
            terms = [Fraction(2 * j - 1, 2) ** 2 + y2 for j in range(1, -n + 1)]
    else:
        n = k // 2
        lo, hi = Pl / (Y * hh), Ph / (Y * hl)
        if n >= 1:
            terms = [j * j + y2 for j in range(0, n)]
        else:
            terms = [j * j + y2 for j in range(1, -n + 1)]
    prod = Fraction(1)
    for t in terms:
        prod *= t
    if n >= 1:
        lo, hi = lo * prod, hi * prod
    elif n < 0:
        lo, hi = lo / prod, hi / prod
    return lo, hi


def ref_cgamma(f):
    kind = KIND[f]
    real_ref = IVF.ref_gamma(kind)

    def ref(pt, wp):
        x, y = pt
        u = dadd(x, ONE) if kind == "factorial" else x
        if dsign(y) == 0:
            if kind == "loggamma" and dsign(u) <= 0:
                return "undef"               # branch cut of the principal log Gamma
            r = yield from real_ref((x,), wp)
            if r is None or r == "undef":
                return r
            return (r, (ZERO, ZERO))
        k = _int_of(dshift(u, 1))
        if k is None or abs(k) > 2 * NMAX or dmag(y) > YMAG:
            return None
        M = yield from mod2_encl(k, y, wp)
        if M is None:
            return None
        lo, hi = M
        if kind == "rgamma":
            lo, hi = 1 / hi, 1 / lo
        dl, dh = dround_out(lo, wp + 16, False), dround_out(hi, wp + 16, True)
        if kind != "loggamma":
            return ("mod2", (dl, dh))
        ans = yield ["encl log %d %d %d" % (wp, dl[0], dl[1]), "encl log %d %d %d" % (wp, dh[0], dh[1])]
        a = IVF.exact1("log", dl) or parse_P(ans[0])
        b = IVF.exact1("log", dh) or parse_P(ans[1])
        if a is None or b is None:
            return None
        return ("re", (dshift(a[0], -1), dshift(b[1], -1)))      # log increasing; Re log Gamma = (1/2) log |Gamma|^2
    return ref


# ======================================================================================================
# deciders for the tagged enclosures
# ======================================================================================================
def mod2_range(box):
    """exact (min, max) of |w|^2 over the rectangle box = [(L1, U1), (L2, U2)] (extended dyadics)"""
    mn, mx = ZERO, ZERO
    for (L, U) in box:
        if mx != PINF:
            mx = PINF if not (fin(L) and fin(U)) else dadd(mx, dmax([dmul(L, L), dmul(U, U)]))
        if xcmp(L, ZERO) <= 0 and xcmp(ZERO, U) <= 0:
            continue
        near = L if xcmp(L, ZERO) > 0 else U
        if mn != PINF:
            mn = PINF if not fin(near) else dadd(mn, dmul(near, near))
    return mn, mx


def decide_mod2(box, enc):
    lo, hi = enc[1]
    mn, mx = mod2_range(box)
    if xcmp(hi, mn) < 0 or xcmp(mx, lo) < 0:
        return "outside"
    if xcmp(mn, lo) <= 0 and xcmp(hi, mx) <= 0:
        return "inside"
    return "undecided"


def decide_re(box, enc):
    return IVF.decide_box(box[:1], enc[1])


def excess_mod2(box, enc, prec):
    lo, hi = enc[1]
    mn, mx = mod2_range(box)
    return ("modulus", "lower" if xcmp(hi, mn) < 0 else "upper", None)


def excess_re(box, enc, prec):
    return IVF.excess_bits(box[:1], enc[1], prec)


def str_mod2(enc):
    return ["squared modulus |w|^2 of the exact value in", [xstr(enc[1][0]), xstr(enc[1][1])]]


def str_re(enc):
    return ["real part Re w = log|Gamma| of the exact value in", [xstr(enc[1][0]), xstr(enc[1][1])]]


# ======================================================================================================
# requirement (C): pole strictly inside
# ======================================================================================================
def req_pole(c, box):
    f = c.fun
    if f == "crgamma":
        return []
    (a, b), (cc, d) = c.args[0]
    xa, xb, ya, yb = x_of_mpf(a), x_of_mpf(b), x_of_mpf(cc), x_of_mpf(d)
    if not all(fin(t) for t in (xa, xb, ya, yb)):
        return []
    if not (dsign(ya) < 0 < dsign(yb)):
        return []
    if f == "cfactorial":
        xa, xb = dadd(xa, ONE), dadd(xb, ONE)
    if dsign(xa) >= 0:
        return []
    qa = to_q(xa)
    n = qa.numerator // qa.denominator + 1        # smallest integer > xa
    if n > 0 or dcmp((n, 0), xb) >= 0:
        return []
    (L1, U1), (L2, U2) = box
    if f == "cloggamma":
        ok = (U1 == PINF)
        return [("ok" if ok else "fail", "pole of Gamma at %d strictly inside the rectangle: Re loggamma is unbounded above, upper real endpoint must be +inf" % n)]
    ok = (L1 == NINF and U1 == PINF and L2 == NINF and U2 == PINF)
    return [("ok" if ok else "fail", "pole of Gamma at %d strictly inside the rectangle: every large complex value is attained, result must be the whole plane" % n)]


# ======================================================================================================
# generator
# ======================================================================================================
def _half(k):
    return (k, -1) if (k & 1) else (k // 2, 0)


def _ulps(r, t, p, choices=(1, 1, 2, 3, 4)):
    g = dmag(t) if t[0] else 0
    return (r.choice(choices), g - p)


def _width(r, t, p):
    c = r.random()
    if c < 0.10:
        return ZERO
    if c < 0.30:
        return _ulps(r, t, p)
    if c < 0.40:
        return (r.randint(1, 255), -28)
    if c < 0.52:
        return (r.randint(1, 31), -10)
    if c < 0.80:
        return (r.randint(1, 15), -4)             # up to ~1
    return (r.randint(8, 44), -4)                 # up to 2.75


def _cover_line(r, ua, ub, p):
    """extend [ua, ub] so that it contains a closed-form line Re = k/2; returns (ua, ub, extended?)"""
    k0 = -((-2 * to_q(ua)).__floor__())           # ceil(2 ua)
    k1 = (2 * to_q(ub)).__floor__()
    if k0 <= k1:
        return ua, ub, False
    # k1 < k0 = k1 + 1: no line inside; k1/2 < ua <= ub < k0/2
    dl = to_q(ua) - Fraction(k1, 2)
    dr = Fraction(k0, 2) - to_q(ub)
    left = (dl < dr) if r.random() < 0.6 else (dl >= dr)
    extra = r.choice([ZERO, ZERO, (r.randint(1, 7), -5), (r.randint(1, 9), -2)])
    if left:
        ua = dsub(_half(k1), extra)
    else:
        ub = dadd(_half(k0), extra)
    return ua, ub, True


def gen_re(r, p, note):
    """real range [ua, ub] in the variable of Gamma"""
    c = r.random()
    if c < 0.12:
        k = r.choice([r.randint(-12, 8), r.randint(1, 6), r.randint(2, 2 * NMAX), 3, 2, 1])
        ua = ub = _half(k)
        kind = "pt_line"
    elif c < 0.22:
        h = _half(r.choice([r.randint(-12, 8), r.randint(1, 6), r.randint(2, 60), 3]))
        ua, ub = dsub(h, _ulps(r, h, p, (0, 1, 2, 4))), dadd(h, _ulps(r, h, p, (0, 1, 2, 4)))
        kind = "narrow_line"
    elif c < 0.66:
        lab, T = r.choice(RTH_W)
        w1, w2 = _width(r, T, p), _width(r, T, p)
        if not w1[0] and not w2[0]:
            w2 = (r.randint(1, 15), -4)
        ua, ub = dsub(T, w1), dadd(T, w2)
        ext = False
        if r.random() < 0.9:
            ua, ub, ext = _cover_line(r, ua, ub, p)
        kind = "straddle"
        note("threshold", lab)
    elif c < 0.82:
        # one end on / beyond a closed-form line, the other end next to the threshold WITHOUT crossing it
        lab, T = r.choice(RTH_W)
        e = r.choice([_ulps(r, T, p), (r.randint(1, 255), -28), (r.randint(1, 7), -6)])
        q = to_q(T)
        far = r.choice([0, 0, 0, 1, 2, 5])
        if r.random() < 0.5:
            k = (2 * q).__floor__()
            if Fraction(k, 2) == q:
                k -= 1
            ua, ub = _half(k - far), dsub(T, e)
            kind = "left_of"
        else:
            k = -((-2 * q).__floor__())
            if Fraction(k, 2) == q:
                k += 1
            ua, ub = dadd(T, e), _half(k + far)
            kind = "right_of"
        if dcmp(ua, ub) > 0:
            ua, ub = ub, ua
        note("threshold", lab)
    else:
        h = _half(r.randint(-14, 24))
        ua, ub = dsub(h, (r.randint(0, 40), -4)), dadd(h, (r.randint(0, 60), -4))
        kind = "wide_line"
    return ua, ub, kind


def _yscale(r, p):
    c = r.random()
    if c < 0.10:
        return (r.randint(1, 7), -r.choice([20, 30, 60, p + 10]))
    if c < 0.22:
        return (r.randint(1, 255), -16)
    if c < 0.50:
        return (r.randint(1, 31), -5)             # up to ~1
    if c < 0.60:
        return IM_B
    if c < 0.72:
        return dadd(IM_B, (r.choice([-1, 1]) * r.randint(1, 4), dmag(IM_B) - min(p, 52) - 1))    # 1.1 -+ a few ulps
    if c < 0.90:
        return (r.randint(9, 40), -3)             # 1.125 .. 5
    return (r.randint(5, 60), 0)


def gen_im(r, p, note):
    c = r.random()
    if c < 0.05:
        return ZERO, ZERO, "zero"
    if c < 0.17:
        y = _yscale(r, p)
        if r.random() < 0.5:
            y = dneg(y)
        return y, y, "pt"
    if c < 0.33:
        w = _yscale(r, p)
        return dneg(w), w, "sym"
    if c < 0.50:
        w1, w2 = _yscale(r, p), _yscale(r, p)
        return dneg(w1), w2, ("more_lower" if dcmp(w1, w2) > 0 else "more_upper")
    if c < 0.60:
        w = _yscale(r, p)
        return (ZERO, w, "touch0_upper") if r.random() < 0.5 else (dneg(w), ZERO, "touch0_lower")
    if c < 0.72:
        w1, w2 = _yscale(r, p), _yscale(r, p)
        if dcmp(w1, w2) > 0:
            w1, w2 = w2, w1
        return (w1, w2, "upper") if r.random() < 0.5 else (dneg(w2), dneg(w1), "lower")
    if c < 0.88:
        # straddling the edge of the strip |Im| <= 1.1
        w1 = r.choice([ZERO, _ulps(r, IM_B, min(p, 52)), (r.randint(1, 255), -12), (r.randint(1, 8), -3)])
        w2 = r.choice([ZERO, _ulps(r, IM_B, min(p, 52)), (r.randint(1, 255), -12), (r.randint(1, 16), -3)])
        lo, hi = dsub(IM_B, w1), dadd(IM_B, w2)
        return (lo, hi, "straddle_strip_upper") if r.random() < 0.5 else (dneg(hi), dneg(lo), "straddle_strip_lower")
    e = r.choice([_ulps(r, IM_B, min(p, 52)), (r.randint(1, 255), -12), (r.randint(1, 16), -3)])
    w = r.choice([ZERO, (r.randint(1, 255), -12), (r.randint(1, 24), -3)])
    lo = dadd(IM_B, e)
    hi = dadd(lo, w)
    return (lo, hi, "beyond_strip_upper") if r.random() < 0.5 else (dneg(hi), dneg(lo), "beyond_strip_lower")


def gen_case_cgamma(r, f, p, st):
    note = lambda k, v: st.note(f, k, v)   # noqa
    ua, ub, kre = gen_re(r, p, note)
    ya, yb, kim = gen_im(r, p, note)
    if r.random() < 0.08:
        ua = lengthen(r, ua, p)
        if dcmp(ua, ub) > 0:
            ua, ub = ub, ua
        kre += "+long"
    if r.random() < 0.08:
        yb = lengthen(r, yb, p)
        if dcmp(ya, yb) > 0:
            ya, yb = yb, ya
        kim += "+long"
    if KIND[f] == "factorial":
        ua, ub = dsub(ua, ONE), dsub(ub, ONE)
    note("re_kind", kre)
    note("im_kind", kim)
    # position relative to the two guards of mpci_gamma (for the histogram)
    sh = ONE if KIND[f] == "factorial" else ZERO
    a1, a2 = dadd(ua, sh), dadd(ub, sh)
    side = "left" if dcmp(a2, GMIN_B) < 0 else ("right" if dcmp(a1, GMIN_B) >= 0 else "straddles_gamma_min")
    strip = "overlaps_strip" if (dcmp(ya, IM_B) <= 0 and dcmp(yb, IM_A) >= 0) else "outside_strip"
    note("guard_class", side + "/" + strip)
    return Case(f, p, ((pair(ua, ub), pair(ya, yb)),), kre + "/" + kim)


def gen_cases(r, f, n, st):
    cases = [gen_case_cgamma(r, f, IVF.gen_prec(r), st) for _ in range(n)]
    if f == "cloggamma":
        cases += steered_cloggamma(r, max(12, n // 12), st)
    return cases


# ---- steering (mp is used here ONLY to choose inputs, never in a decision) --------------------------------------------------
def steered_cloggamma(r, n, st):
    """iv.loggamma of rectangles OUTSIDE the recurrence region whose corner (x, y) that determines the lower (upper) real
    endpoint lies on a closed-form line x in (1/2)Z, with y chosen (mp root finding, steering only) so that
    Re log Gamma(x+iy) = log|Gamma(x+iy)| is a hair below (above) a number of the precision-p grid: the directed rounding of
    that corner evaluation (working precision p+20) is then visible in the p-bit endpoint.  Decided like every other point:
    verified enclosure of log|Gamma| at the corner against the returned real part."""
    from mpmath import mp, mpf, mpc, findroot
    out = []
    old = mp.prec
    tries = 0
    try:
        while len(out) < n and tries < 4 * n:
            tries += 1
            p = r.choice([8, 10, 24, 24, 53, 53, 64])
            nb = p + 110
            mp.prec = p + 420
            branch = r.choice(["upper", "lower", "crossing", "crossing"])
            target = "min" if branch == "crossing" else r.choice(["min", "max"])
            k1 = r.choice([3, 4, 5, 6, 8, 11, 20])                     # a1 = k1/2 > gamma_min_b: no recurrence step
            k2 = k1 + r.choice([0, 0, 1, 2, 4])
            xk = k1 if target == "min" else k2
            x = _half(xk)
            y0 = mpf(r.randint(3, 200)) / 64                             # |y| of the steered corner
            try:
                v0 = mp.loggamma(mpc(mpf(x[0]) * mpf(2) ** x[1], y0)).real
                s_, man, ex, bc = v0._mpf_
                if not man or bc <= p:
                    continue
                g = mpf((-1) ** s_ * (man >> (bc - p))) * mpf(2) ** (ex + bc - p)
                # depth: the exact value is 2^-depth ulp (of the p-bit grid) below (min) / above (max) the grid number g
                depth = r.choice(DEPTHS)
                g = g + (-1 if target == "min" else 1) * mpf(2) ** (ex + bc - p - depth)
                yr = findroot(lambda t: mp.loggamma(mpc(mpf(x[0]) * mpf(2) ** x[1], t)).real - g, (y0, y0 * mpf(1.01)))
            except Exception:  # noqa
                continue
            if not (yr.imag == 0 if hasattr(yr, "imag") else True):
                continue
            yr = mpf(yr.real) if hasattr(yr, "real") else yr
            if not (mpf(1) / 64 < yr < 8):
                continue
            s_, man, ex, bc = yr._mpf_
            man, ex = int(man) >> (bc - nb), ex + (bc - nb)
            # |Gamma(x+iy)| decreases with |y|: larger |y| -> smaller value (tests a LOWER endpoint)
            ay = (man + 1, ex) if target == "min" else (man, ex)
            other = (r.randint(1, 255), -8 - r.randint(0, 3))           # a positive width
            if branch == "upper":
                # minre at (a1, b2), maxre at (a2, b1)
                ya, yb = (dsub(ay, other), ay) if target == "min" else (ay, dadd(ay, other))
                if dsign(ya) < 0:
                    ya = ZERO
                y = ay
            elif branch == "lower":
                # minre at (a1, b1), maxre at (a2, b2)
                ya, yb = (dneg(ay), dneg(dsub(ay, other))) if target == "min" else (dneg(dadd(ay, other)), dneg(ay))
                if dsign(yb) > 0:
                    yb = ZERO
                y = dneg(ay)
            else:
                # crosses the real axis: minre at (a1, b1) if -b1 > b2 else at (a1, b2)
                small = dshift(ay, -r.randint(1, 4))
                if r.random() < 0.5:
                    ya, yb, y = dneg(ay), small, dneg(ay)
                else:
                    ya, yb, y = dneg(small), ay, ay
            if dcmp(ya, yb) > 0:
                continue
            st.note("cloggamma", "steered_corner", "%s/%s" % (branch, target))
            st.note("cloggamma", "steered_depth", depth)
            rect = (pair(_half(k1), _half(k2)), pair(ya, yb))
            out.append(Case("cloggamma", p, (rect,), "steered_corner:%s/%s/2^-%d" % (branch, target, depth), True, pts=[(x, y)]))
    finally:
        mp.prec = old
    return out


# ======================================================================================================
# sample points: closed-form points of the rectangle (deterministic per case, so that a replay decides the same points)
# ======================================================================================================
def points_cgamma(r_unused, c):
    f, p = c.fun, c.prec
    (a, b), (cc, d) = c.args[0]
    xa, xb, ya, yb = x_of_mpf(a), x_of_mpf(b), x_of_mpf(cc), x_of_mpf(d)
    if NAN in (xa, xb, ya, yb) or not all(fin(t) for t in (xa, xb, ya, yb)):
        return []
    r = random.Random(repr((f, p, xa, xb, ya, yb)))
    sh = ONE if KIND[f] == "factorial" else ZERO
    qa, qb = to_q(dadd(xa, sh)), to_q(dadd(xb, sh))
    k0 = max(-((-2 * qa).__floor__()), -2 * NMAX)
    k1 = min((2 * qb).__floor__(), 2 * NMAX)
    if k0 > k1:
        return []
    ks = list(range(k0, k1 + 1))
    if len(ks) > 5:
        keep = {ks[0], ks[-1], r.choice(ks)}
        keep |= {k for k in (2, 3) if k0 <= k <= k1}           # the lines next to the minimum of Gamma
        keep |= {k for k in (0, 1) if k0 <= k <= k1}           # the two basic reflection lines
        ks = sorted(keep)
    # y values
    ys = []
    if dsign(ya) <= 0 <= dsign(yb):
        ys.append(ZERO)
    ys.append(ya)
    if dcmp(ya, yb) != 0:
        ys.append(yb)
        w = dsub(yb, ya)
        for num, s2 in ((1, 1), (r.getrandbits(8) | 1, 9)):
            t = IVF.trunc_in(dadd(ya, dshift(dmul(w, (num, 0)), -s2)), ya, yb, min(p, 30) + 6)
            if t is not None:
                ys.append(t)
        # a short dyadic inside (few bits)
        for e in (-2, -4, -8):
            q = to_q(ya)
            m = -((-q * (1 << -e)).__floor__())
            t = (m, e)
            if dcmp(ya, t) <= 0 and dcmp(t, yb) <= 0:
                ys.append(t)
                break
    ys = [t for t in dict.fromkeys(ys) if not t[0] or (dmag(t) <= YMAG and abs(t[0]).bit_length() <= 4 * p + 400)]
    if not ys:
        return []
    pts = []
    for k in ks:
        x = dsub(_half(k), sh)
        for y in ys:
            pts.append((x, y))
    if len(pts) > 10:
        # kept first: real points, then the corners of the rectangle that lie on closed-form lines (mpci_gamma evaluates
        # log Gamma exactly there: the rounding direction of each corner evaluation shows at these points)
        first = [t for t in pts if dsign(t[1]) == 0][:3]
        xs = {dsub(xa, ZERO), dsub(xb, ZERO)}
        first += [t for t in pts if t not in first and t[0] in xs and t[1] in (ya, yb)]
        rest = [t for t in pts if t not in first]
        pts = first + r.sample(rest, max(0, min(len(rest), 10 - len(first))))
    return pts


# ======================================================================================================
# registration
# ======================================================================================================
def register():
    _register_variants()
    for f in CG_FUNS:
        if f not in IVF.C15_FUNS:
            IVF.C15_FUNS.append(f)
        IVF.REFS[f] = ref_cgamma(f)
        IVF.EXT_GEN[f] = gen_cases
        IVF.EXT_POINTS[f] = points_cgamma
        IVF.EXT_REQ[f] = req_pole
    IVF.COMPLEX_VALUED = tuple(IVF.COMPLEX_VALUED) + tuple(f for f in CG_FUNS if f not in IVF.COMPLEX_VALUED)
    IVF.EXT_DECIDE["mod2"] = (decide_mod2, excess_mod2, str_mod2)
    IVF.EXT_DECIDE["re"] = (decide_re, excess_re, str_re)


register()


def run_only(seed, n, funs=None, show=8):
    """the gamma-family part alone (development / timing): returns (stats, failing inputs)"""
    import time
    t0 = time.time()
    r = random.Random(seed * 1000003 + 15)
    st = IVF.Stats()
    failing = []
    cases = []
    for f in (funs or CG_FUNS):
        cases += gen_cases(r, f, n, st)
    decided = IVF.evaluate(cases, r, st, failing)
    print("seed %d: %d cases, %d decided, %d failing, wall %.1fs (driver %.1fs, %d lines)" %
          (seed, len(cases), len(decided), len(failing), time.time() - t0, IVF.DRV_STATS["driver_s"], IVF.DRV_STATS["driver_lines"]))
    for f in (funs or CG_FUNS):
        print("  %-11s %s" % (f, " ".join("%s=%s" % kv for kv in sorted(st.per.get(f, {}).items()))))
    return st, failing


if __name__ == "__main__":
    import json
    seed = int(sys.argv[1]) if len(sys.argv) > 1 else 0
    n = int(sys.argv[2]) if len(sys.argv) > 2 else 420
    # when run as a script the registration above went to the imported copy of this module's twin: use IVF's tables directly
    st, failing = run_only(seed, n)
    per = {}
    for f in failing:
        per[f["site"]] = per.get(f["site"], 0) + 1
    print("failing per site:", per)
    for f in failing[:int(os.environ.get("IVFUN_SHOW", "8"))]:
        print("  FAIL", f["site"], "|", f["what"][:600])
        if os.environ.get("IVFUN_JSON"):
            print("       ", json.dumps(f["input"]))
    if os.environ.get("IVFUN_HIST"):
        print(json.dumps({f: st.hist.get(f) for f in CG_FUNS}, indent=None))
