"""C15, powers of complex rectangles:  x ** y  with x an iv.mpc (or a real interval that is not positive: the
ComplexResult fallback of ivmpf.__pow__) and y an integer / dyadic point, a real interval or a complex point / rectangle
(libmpi.mpci_pow: integer point exponents -> mpci_pow_int, everything else -> exp(y * log x)).
Extension module of iv_fun_ops.py (registers the function `cpow` there on import; import it AFTER iv_cgamma_ops so that
the random stream of the earlier families does not change).

Decision.  For sample points z0 = x + iy of the base rectangle and w0 = u + iv of the exponent rectangle (dyadics):

 * w0 an integer n with |n| <= 1024 (v = 0):  z0^n is computed EXACTLY (Gaussian integers after scaling by a power of two,
   binary powering; a dyadic point for n >= 0; for n < 0 the Gaussian rational conj(z0^|n|)/|z0^|n||^2, handed on as a dyadic
   enclosure 2^-(wp+64) wide);
   single valued, so no branch question arises.  0^n = 0 for n > 0; 0^n, n <= 0: skipped.
 * otherwise the principal value z0^w0 = exp(w0 * Log z0), Log z0 = (1/2) log(x^2+y^2) + i atan2(y, x) (mpmath's
   convention atan2(0, x<0) = +pi), is enclosed from the VERIFIED real enclosures (Props/C14fun.lean) the other C15 decisions
   use:  Lr = (1/2) encl log(x^2+y^2),  A = atan2 enclosure (verified atan of a dyadic bracket of |y/x| + quadrant + verified pi),
         Tr = u*Lr - v*A,   Ti = u*A + v*Lr                       (exact dyadic interval arithmetic),
         E  = [lower encl exp(round_down Tr.lo), upper encl exp(round_up Tr.hi)]       (exp increasing),
         C, S = encl cos(m), encl sin(m) widened by max(Ti.hi - m, m - Ti.lo), m a dyadic next to the midpoint of Ti
                (|cos'|, |sin'| <= 1),
         z0^w0 in E*C + i E*S.
   This combination step is Python (unverified), like the one of iv.mpc exp / log.
 * verdicts as everywhere in iv_fun_ops: the returned rectangle disjoint from the enclosure in the real or the imaginary
   part -> failing input (site iv.mpc.pow.contain); enclosure inside -> inside; otherwise undecided (retried at higher
   working precision, then counted).
 * branch cut: points x < 0, y = 0 are decided with arg = +pi (the principal value; mpi_atan2 documents it for rectangles that
   touch the negative real axis from below as well: it returns [-pi, pi] there since /repo c810f7f), exactly as the iv.log /
   iv.arg decisions of iv_fun_ops do.  Bases with imaginary part exactly [0, 0] (negative reals, the real-interval fallback)
   likewise.

Every variant of the call is run: iv.mpc ** iv.mpc, libmpi.mpci_pow, iv.mpc ** iv.mpf (real exponent), iv.mpf ** iv.mpc and
iv.mpf ** iv.mpf (real base: ComplexResult fallback), the reflected __rpow__ forms, and Python int / float / complex exponents.
"""
import os, sys, random
from fractions import Fraction
sys.path.insert(0, os.path.dirname(os.path.abspath(__file__)))
import iv_fun_ops as IVF
from iv_fun_ops import (ZERO, NAN, fin, dsign, to_q, dcmp, dneg, dadd, dsub, dmul, dshift, dmag, dround_out,
                        imul, iadd, isub, x_of_mpf, pair, Case, _int_of, encl1, atan2_encl, rand_man, gen_prec, sample_pts)
from mpmath.libmp import fzero, finf, fninf, from_man_exp
import mpmath.libmp.libmpi as LI

FUN = "cpow"
NEXACT = 1024         # |n| up to which z0^n is computed exactly
RULE = ("cpow: base rectangles = every combination of {negative, [a,0], straddling 0, [0,b], positive, [0,0], negative point, "
        "positive point} for the real and the imaginary part (all half-planes / quadrants, touching and straddling both axes, "
        "containing the origin, real intervals of either sign = ComplexResult fallback of ivmpf.__pow__, imaginary axis, points; "
        "1..p+6 bit endpoints, magnitudes 2^-40..2^30) x exponent rectangles whose real and imaginary parts are: integer point "
        "(0, +-1.., +-64, 3<<k), half-integers, short and p-bit dyadics, [n-eps, n], [n, n+eps], [n-eps, n+eps], [n, n+k], [-a, 0], "
        "[0, a], straddling 0, wide, few-ulp enclosure of 1/3, 2/3, 1/10 ..; imaginary part [0,0] in half of the cases; a fixed "
        "enumeration (every exponent shape x 6 base shapes) plus random combinations, precisions 2..200; every calling form "
        "(mpc**mpc, mpci_pow, mpc**mpf, mpf**mpc, mpf**mpf fallback, __rpow__, Python scalars); sample points: corners, "
        "midpoints, zero, contained integers, random interior dyadics; integer exponents decided exactly with Gaussian "
        "rationals, the others through exp(w0 Log z0) from verified real enclosures")


# ======================================================================================================
# variants (real code)
# ======================================================================================================
class NotApplicable(Exception):
    pass


def _real(rect):
    return rect[1] == (fzero, fzero)


def _need(cond):
    if not cond:
        raise NotApplicable()


def _py_scalar(rect):
    """the Python int / float / complex equal to a POINT rectangle, or NotApplicable"""
    (a, b), (c, d) = rect
    _need(a == b and c == d)

    def one(t):
        s, m, e, bc = t
        _need(m or e == 0)                     # finite
        _need(bc <= 53 and -900 < e < 900)
        v = (-1) ** s * int(m)
        if e >= 0:
            return v << e if e < 64 else float(v) * 2.0 ** e
        return float(v) * 2.0 ** e             # exact: <= 53 bits, exponent in range
    re, im = one(a), one(c)
    if c == fzero:
        return re
    return complex(float(re), float(im))


HUGE = 1 << 26


def _clamp(t, upper):
    """an mpf endpoint whose binary exponent is beyond +-2^26 is moved OUTWARD to +-inf / +-2^(+-2^26) / 0: the exact
    comparisons of the decision align exponents by shifting, and a (wrong) result like 2^(2^40) would exhaust the memory.
    Exact values decided here are below 2^(2^25); widening a returned interval can hide a failure, never create one."""
    s, m, e, bc = t
    if not m:
        return t
    mag = e + bc
    if mag > HUGE:
        if s:
            return fninf if not upper else from_man_exp(-1, HUGE)
        return finf if upper else from_man_exp(1, HUGE)
    if mag < -HUGE:
        if s:
            return fzero if upper else from_man_exp(-1, -HUGE)
        return fzero if not upper else from_man_exp(1, -HUGE)
    return t


def clamp_rect(val):
    if not (isinstance(val, tuple) and len(val) == 2):
        return val
    try:
        (a, b), (c, d) = val
        return ((_clamp(a, False), _clamp(b, True)), (_clamp(c, False), _clamp(d, True)))
    except (TypeError, ValueError):
        return val


def _variants():
    cr, ivm, ivc = IVF._cplx_res, IVF._ivm, IVF._ivc

    def mpf_mpf(a, p):
        _need(_real(a[0]) and _real(a[1]))
        return cr(ivm(a[0][0]) ** ivm(a[1][0]))

    def mpc_mpf(a, p):
        _need(_real(a[1]))
        return cr(ivc(a[0]) ** ivm(a[1][0]))

    def mpf_mpc(a, p):
        _need(_real(a[0]))
        return cr(ivm(a[0][0]) ** ivc(a[1]))

    def rpow_mpf(a, p):
        _need(_real(a[1]))
        base = ivm(a[0][0]) if _real(a[0]) else ivc(a[0])
        return cr(ivm(a[1][0]).__rpow__(base))

    def py_exp(a, p):
        return cr(ivc(a[0]) ** _py_scalar(a[1]))

    def py_exp_real_base(a, p):
        _need(_real(a[0]))
        return cr(ivm(a[0][0]) ** _py_scalar(a[1]))

    def py_base(a, p):
        b = _py_scalar(a[0])
        e = ivm(a[1][0]) if _real(a[1]) else ivc(a[1])
        return cr(b ** e)

    V = [("iv.mpc.__pow__", lambda a, p: cr(ivc(a[0]) ** ivc(a[1]))),
            ("libmpi.mpci_pow", lambda a, p: LI.mpci_pow(a[0], a[1], p)),
            ("iv.mpc.__pow__[mpf exponent]", mpc_mpf),
            ("iv.mpf.__pow__[mpc exponent]", mpf_mpc),
            ("iv.mpf.__pow__", mpf_mpf),
            ("iv.mpc.__rpow__", lambda a, p: cr(ivc(a[1]).__rpow__(ivc(a[0])))),
            ("iv.mpf.__rpow__", rpow_mpf),
            ("iv.mpc.__pow__[python exponent]", py_exp),
            ("iv.mpf.__pow__[python exponent]", py_exp_real_base),
            ("python base ** interval", py_base)]
    return [(label, (lambda a, p, fn=fn: clamp_rect(fn(a, p)))) for label, fn in V]


# ======================================================================================================
# reference
# ======================================================================================================
def gauss_pow_int(X, Y, n):
    """(X + iY)^n for integers X, Y and n >= 0: Gaussian integer (R, S), binary powering"""
    R, S = 1, 0
    while n:
        if n & 1:
            R, S = R * X - S * Y, R * Y + S * X
        n >>= 1
        if n:
            X, Y = X * X - Y * Y, 2 * X * Y
    return R, S


def _quot_encl(num, den, bits):
    """den > 0: dyadics lo <= num/den <= hi with `bits` significant bits (lo == hi when the quotient is dyadic that short)"""
    if num == 0:
        return (ZERO, ZERO)
    k = bits + den.bit_length() - abs(num).bit_length() + 1
    a, d = (abs(num) << k, den) if k >= 0 else (abs(num), den << -k)
    q, rem = divmod(a, d)
    lo, hi = (q, -k), ((q + 1) if rem else q, -k)
    return (lo, hi) if num > 0 else (dneg(hi), dneg(lo))


def exact_power(x, y, n, wp):
    """z0^n for dyadics x, y and an integer n, in integer arithmetic: ((re, re), (im, im)) dyadic POINTS for n >= 0 (powers of
    dyadics are dyadic), dyadic enclosures with wp+64 significant bits for n < 0 ((R - iS)/(R^2 + S^2), one integer division
    each); 'undef' for 0^n with n <= 0.  Dyadic endpoints keep a tiny excess measurable in the report."""
    if dsign(x) == 0 and dsign(y) == 0:
        return ((ZERO, ZERO), (ZERO, ZERO)) if n > 0 else "undef"
    e = min(x[1] if x[0] else y[1], y[1] if y[0] else x[1])
    X = x[0] << (x[1] - e) if x[0] else 0
    Y = y[0] << (y[1] - e) if y[0] else 0
    R, S = gauss_pow_int(X, Y, abs(n))
    sh = e * abs(n)
    if n >= 0:
        re = (R, sh) if R else ZERO
        im = (S, sh) if S else ZERO
        return ((re, re), (im, im))
    N = R * R + S * S
    out = []
    for num in (R, -S):
        lo, hi = _quot_encl(num, N, wp + 64)
        out.append((dshift(lo, -sh), dshift(hi, -sh)))
    return tuple(out)


def exact_int_exponent(u, v):
    """the integer n when w0 = u + iv is an integer decided exactly, else None"""
    if dsign(v) != 0:
        return None
    n = _int_of(u)
    if n is None or abs(n) > NEXACT:
        return None
    return n


def _exp_iv(T, wp):
    """coroutine: enclosure of exp over the dyadic interval T"""
    lo = dround_out(T[0], wp + 8, False)
    hi = dround_out(T[1], wp + 8, True)
    a = yield from encl1("exp", lo, wp)
    b = a if hi == lo else (yield from encl1("exp", hi, wp))
    if a is None or b is None:
        return None
    return (a[0], b[1])


def _trig_iv(T, wp):
    """coroutine: enclosures of cos and sin over the dyadic interval T (Lipschitz constant 1 around a dyadic near the midpoint)"""
    if dcmp(T[0], T[1]) == 0:
        m = T[0]
        if m[0] and abs(m[0]).bit_length() > wp + 16:
            m = dround_out(m, wp + 8, False)
    else:
        m = dround_out(dshift(dadd(T[0], T[1]), -1), wp + 8, False)
    d1, d2 = dsub(T[1], m), dsub(m, T[0])
    delta = d1 if dcmp(d1, d2) >= 0 else d2
    if dsign(delta) < 0:
        delta = ZERO
    if m[0] and dmag(m) > 1100:
        return None
    c = yield from encl1("cos", m, wp)
    s = yield from encl1("sin", m, wp)
    if c is None or s is None:
        return None
    return (dsub(c[0], delta), dadd(c[1], delta)), (dsub(s[0], delta), dadd(s[1], delta))


def ref_cpow(pt, wp):
    x, y, u, v = pt
    n = exact_int_exponent(u, v)
    if n is not None and (dsign(x) == 0 or dsign(y) == 0 or abs(x[1] - y[1]) < 4000):
        return exact_power(x, y, n, wp)
    if dsign(x) == 0 and dsign(y) == 0:
        return "undef"
    n2 = dadd(dmul(x, x), dmul(y, y))
    Lg = yield from encl1("log", n2, wp)
    A = yield from atan2_encl(y, x, wp)
    if Lg is None or A is None or Lg == "undef" or A == "undef":
        return None
    Lr = (dshift(Lg[0], -1), dshift(Lg[1], -1))
    U, V = (u, u), (v, v)
    Tr = isub(imul(U, Lr), imul(V, A))
    Ti = iadd(imul(U, A), imul(V, Lr))
    if max(dmag(t) if t[0] else -10 ** 9 for t in Tr) > 24:
        return None
    E = yield from _exp_iv(Tr, wp)
    CS = yield from _trig_iv(Ti, wp)
    if E is None or CS is None:
        return None
    return (imul(E, CS[0]), imul(E, CS[1]))


# ======================================================================================================
# generators
# ======================================================================================================
BASE_KINDS = ("neg", "neg0", "straddle", "pos0", "pos", "zero", "ptneg", "ptpos")
EXP_KINDS = ("int", "zero", "half", "dyadic", "pbit", "int_lo", "int_hi", "int_mid", "int_int", "lo_0", "0_hi", "straddle0",
             "wide", "third")
INTS = (1, 2, 3, 4, 5, 6, 7, 8, 12, 16, 24, 40, 64, -1, -2, -3, -4, -5, -8, -12, -40, -64, 100, -100, 1000)
SMALL_INTS = (0, 0, 1, 2, 3, -1, -2, -3, 5, -4)
RATS = (Fraction(1, 3), Fraction(2, 3), Fraction(-1, 3), Fraction(1, 10), Fraction(7, 5), Fraction(-5, 3), Fraction(1, 7))


def _pos_dy(r, p, mags=None):
    nb = max(1, r.choice([1, 1, 2, 3, p, p, p + 6]))
    if mags is None:
        mag = r.randint(-3, 4) if r.random() < 0.85 else r.choice([-40, -12, -7, 9, 30])
    else:
        mag = r.choice(mags)
    return (rand_man(r, nb), mag - nb)


def _width(r, a, p):
    g = dmag(a)
    c = r.random()
    if c < 0.4:
        return (r.randint(1, 4), g - p)                       # few ulps
    if c < 0.8:
        return (r.randint(1, 255), g - 8 - r.randint(0, 6))
    return (r.randint(1, 7), g - 2)                            # as wide as the value itself


def gen_bcomp(r, p, kind):
    """one component interval (a, b) of a base rectangle"""
    a = _pos_dy(r, p)
    if kind == "zero":
        return ZERO, ZERO
    if kind == "ptpos":
        return a, a
    if kind == "ptneg":
        return dneg(a), dneg(a)
    if kind == "pos0":
        return ZERO, a
    if kind == "neg0":
        return dneg(a), ZERO
    if kind == "straddle":
        b = _pos_dy(r, p, mags=[dmag(a) - 1, dmag(a), dmag(a) + 1, dmag(a) - 20])
        return dneg(a), b
    b = dadd(a, _width(r, a, p))
    return (a, b) if kind == "pos" else (dneg(b), dneg(a))


def gen_ecomp(r, p, kind, small=False):
    """one component interval (a, b) of an exponent rectangle"""
    n = (r.choice(SMALL_INTS) if (small or r.random() < 0.6) else r.choice(INTS), 0)
    gn = dmag(n) if n[0] else 0

    def eps():
        return r.choice([(r.randint(1, 4), gn - p), (r.randint(1, 4), gn - p), (1, -r.choice([3, 10, 30])), (r.randint(1, 15), -4)])

    def mag():
        return r.choice([-30, -8, -3, -2, -1, 0, 0, 1, 1, 2, 3, 5] if not small else [-30, -8, -3, -2, -1, 0, 0, 1, 2])
    if kind == "int":
        return n, n
    if kind == "zero":
        return ZERO, ZERO
    if kind == "half":
        t = (r.choice([1, 1, -1, 3, -3, 5, -5, 7, 9, -11, 41]), -1)
        return t, t
    if kind == "dyadic":
        t = (r.choice([-1, 1]) * (r.getrandbits(r.randint(1, 6)) | 1), -r.randint(1, 8))
        return t, t
    if kind == "pbit":
        nb = max(2, r.choice([p, p, p + 6, 24, 53]))
        t = (r.choice([-1, 1]) * (rand_man(r, nb) | 1), mag() - nb)
        return t, t
    if kind == "int_lo":
        return dsub(n, eps()), n
    if kind == "int_hi":
        return n, dadd(n, eps())
    if kind == "int_mid":
        return dsub(n, eps()), dadd(n, eps())
    if kind == "int_int":
        return n, dadd(n, (r.choice([1, 1, 2, 3]), 0))
    a = (rand_man(r, max(1, r.choice([1, 2, 3, p, p + 6]))), 0)
    a = (a[0], mag() - a[0].bit_length())
    if kind == "lo_0":
        return dneg(a), ZERO
    if kind == "0_hi":
        return ZERO, a
    if kind == "straddle0":
        b = (rand_man(r, max(1, r.choice([1, 2, p]))), 0)
        b = (b[0], dmag(a) + r.choice([-20, -1, 0, 0, 1]) - b[0].bit_length())
        return dneg(a), b
    if kind == "wide":
        if r.random() < 0.5:
            a = dneg(a)
        w = (r.randint(1, 255), dmag(a) - 8 + r.choice([-4, 0, 4, 8]))
        return a, dadd(a, w)
    # "third": few-ulp enclosure of a non-dyadic rational
    q = r.choice(RATS)
    nb = max(2, min(p, 60))
    lo = dround_out(q, nb, False)
    hi = dround_out(q, nb, True)
    if r.random() < 0.3:
        hi = dadd(hi, (r.randint(1, 3), hi[1]))
    return lo, hi


def _rect(re, im):
    return (pair(re[0], re[1]), pair(im[0], im[1]))


def gen_case(r, p, st, bk=None, ek=None):
    note = lambda k, v: st.note(FUN, k, v)   # noqa
    if bk is not None:
        kx, ky = bk
    else:
        while True:
            kx, ky = r.choice(BASE_KINDS), r.choice(BASE_KINDS + ("zero", "zero"))
            if not (kx == "zero" and ky == "zero") or r.random() < 0.2:       # the origin alone: rarely
                break
    if ek is None:
        ku = r.choice(EXP_KINDS)
        kv = "zero" if r.random() < 0.5 else r.choice(EXP_KINDS)
    else:
        ku, kv = ek
    re, im = gen_bcomp(r, p, kx), gen_bcomp(r, p, ky)
    eu, ev = gen_ecomp(r, p, ku), gen_ecomp(r, p, kv, small=True)
    note("base_kind", "%s/%s" % (kx, ky))
    note("exp_kind", "%s/%s" % (ku, kv))
    return Case(FUN, p, (_rect(re, im), _rect(eu, ev)), "b:%s/%s|e:%s/%s" % (kx, ky, ku, kv))


# fixed base shapes of the enumeration: quadrant-1 rectangle, quadrant-2 point, negative real interval (fallback of
# ivmpf.__pow__), lower half-plane rectangle away from the axis, point on the imaginary axis, rectangle straddling the
# positive real axis
CORE_BASES = (("pos", "pos"), ("ptneg", "ptpos"), ("neg", "zero"), ("straddle", "neg"), ("zero", "ptpos"), ("pos", "straddle"))


def gen_cases(r, f, n, st):
    cases = []
    # every real exponent shape, then every shape as imaginary part beside an integer / dyadic real part, on the fixed bases
    for ku in EXP_KINDS:
        for bk in CORE_BASES:
            cases.append(gen_case(r, r.choice((24, 53, 53, 113, gen_prec(r))), st, bk=bk, ek=(ku, "zero")))
    for kv in EXP_KINDS:
        if kv == "zero":
            continue
        bk = r.choice(CORE_BASES)
        cases.append(gen_case(r, gen_prec(r), st, bk=bk, ek=(r.choice(("int", "int", "zero", "half", "int_lo")), kv)))
    m = max(0, int(n * 1.1) - len(cases) // 4)          # quick tier (n = 420): 97 enumerated + 438 random cases
    for _ in range(m):
        cases.append(gen_case(r, gen_prec(r), st))
    return cases


# ======================================================================================================
# sample points (deterministic per case, so that a replay decides the same points)
# ======================================================================================================
def _ints_in(a, b, lim=NEXACT):
    """a few integers of [a, b] (dyadics) with |n| <= lim: the ones next to the endpoints and to zero"""
    qa, qb = to_q(a), to_q(b)
    lo = max(-lim, -((-qa).__floor__()))
    hi = min(lim, qb.__floor__())
    if lo > hi:
        return []
    c = sorted({lo, hi, min(hi, max(lo, 0)), min(hi, max(lo, -1)), min(hi, max(lo, 1)), min(hi, lo + 1), max(lo, hi - 1)})
    return [(k, 0) for k in c]


def _comp_pts(r, a, b, p, ints=False):
    pts = sample_pts(r, a, b, p, 6000, extra=(ZERO,))
    if ints:
        for t in _ints_in(a, b):
            if t not in pts:
                pts.append(t)
    return pts


def points_cpow(r_unused, c):
    p = c.prec
    (ba, bb), (bc, bd) = c.args[0]
    (ea, eb), (ec, ed) = c.args[1]
    xs8 = [x_of_mpf(t) for t in (ba, bb, bc, bd, ea, eb, ec, ed)]
    if NAN in xs8 or not all(fin(t) for t in xs8):
        return []
    xa, xb, ya, yb, ua, ub, va, vb = xs8
    r = random.Random(repr((FUN, p, xs8)))
    X, Y = _comp_pts(r, xa, xb, p), _comp_pts(r, ya, yb, p)
    U, V = _comp_pts(r, ua, ub, p, ints=True), _comp_pts(r, va, vb, p)
    if not (X and Y and U and V):
        return []
    zero_in_v = dsign(va) <= 0 <= dsign(vb)
    ints = [t for t in _ints_in(ua, ub)] if zero_in_v else []

    def at(L, i):
        return L[min(i, len(L) - 1)]
    bases = [(X[0], Y[0]), (at(X, 1), at(Y, 1)), (at(X, 2), at(Y, 2)), (X[0], at(Y, 1)), (at(X, 1), Y[0]),
             (r.choice(X), r.choice(Y)), (r.choice(X), r.choice(Y))]
    if dsign(ya) <= 0 <= dsign(yb):
        bases.append((r.choice(X), ZERO))
    if dsign(xa) <= 0 <= dsign(xb):
        bases.append((ZERO, r.choice(Y)))
    exps = [(U[0], V[0]), (at(U, 1), at(V, 1)), (at(U, 2), at(V, 2)), (U[0], at(V, 1)), (at(U, 1), V[0]),
            (r.choice(U), r.choice(V)), (r.choice(U), r.choice(V))]
    pts = [bases[0] + exps[0], bases[1] + exps[1], bases[2] + exps[2], bases[3] + exps[4], bases[4] + exps[3],
           bases[5] + exps[5], bases[6] + exps[6]]
    for b in bases[7:]:
        pts.append(b + r.choice(exps))
    for n in ints[:3]:
        pts.append(r.choice(bases) + (n, ZERO))
    out = []
    for t in pts:
        if t not in out:
            out.append(t)
    if len(out) > 6:
        keep = out[:3]
        rest = out[3:]
        # prefer the exactly decided points among the remaining ones, then random
        ex = [t for t in rest if exact_int_exponent(t[2], t[3]) is not None][:1]
        rest = [t for t in rest if t not in ex]
        out = keep + ex + r.sample(rest, min(len(rest), 6 - len(keep) - len(ex)))
    return out


# ======================================================================================================
# registration
# ======================================================================================================
def register():
    IVF.VARIANTS[FUN] = _variants()
    if FUN not in IVF.C15_FUNS:
        IVF.C15_FUNS.append(FUN)
    IVF.REFS[FUN] = ref_cpow
    IVF.EXT_GEN[FUN] = gen_cases
    IVF.EXT_POINTS[FUN] = points_cpow
    if FUN not in IVF.COMPLEX_VALUED:
        IVF.COMPLEX_VALUED = tuple(IVF.COMPLEX_VALUED) + (FUN,)


register()


def run_only(seed, n=420, show=8):
    """the power family alone (development / timing): returns (stats, failing inputs)"""
    import time
    t0 = time.time()
    r = random.Random(seed * 1000003 + 15)
    st = IVF.Stats()
    failing = []
    cases = gen_cases(r, FUN, n, st)
    decided = IVF.evaluate(cases, r, st, failing)
    print("seed %d: %d cases, %d decided, %d failing, wall %.1fs (driver %.1fs, %d lines)" %
          (seed, len(cases), len(decided), len(failing), time.time() - t0, IVF.DRV_STATS["driver_s"], IVF.DRV_STATS["driver_lines"]))
    print("  %-6s %s" % (FUN, " ".join("%s=%s" % kv for kv in sorted(st.per.get(FUN, {}).items()))))
    print("  retries:", st.per.get("_all", {}))
    return st, failing


if __name__ == "__main__":
    import json
    import cplx_iv_pow as _self     # the registered twin (this file run as a script is module __main__)
    import findings as _F
    try:
        import civ_findings4  # noqa
    except ImportError:
        pass
    seed = int(sys.argv[1]) if len(sys.argv) > 1 else 0
    n = int(sys.argv[2]) if len(sys.argv) > 2 else 420
    st, failing = _self.run_only(seed, n)
    per = {}
    for f in failing:
        hit = [k for k, pr in _F.PREDICATES.items() if k.startswith("civ4_") and pr(f["input"])]
        key = f["site"] + " " + (",".join(hit) or "[NEW]")
        per[key] = per.get(key, 0) + 1
        f["_key"] = key
    print("failing per site:", json.dumps(per, indent=1))
    shown = {}
    for f in failing:
        if shown.get(f["_key"], 0) >= int(os.environ.get("IVFUN_SHOW", "3")):
            continue
        shown[f["_key"]] = shown.get(f["_key"], 0) + 1
        print("  FAIL", f["_key"], "|", f["input"].get("kind"), "|", f["what"][:700])
        if os.environ.get("IVFUN_JSON"):
            print("       ", json.dumps(f["input"], default=str))
    if os.environ.get("IVFUN_HIST"):
        print(json.dumps(st.hist.get(FUN), indent=None))
