"""Mutation check for cache_ops.py: copies /repo/mpmath to a scratch dir, applies one textual mutation,
runs the relevant harness parts with MPMATH_REPO pointing at the copy; every line must show disagreements > 0.
usage: python cache_mutations.py [M1 M2 ...]"""
import os, shutil, subprocess, sys
MUTS = [
 ("M1_memo_prec_before_call", "libmp/libelefun.py",
  "        f.memo_val = f(newprec, **kwargs)\n        f.memo_prec = newprec\n",
  "        f.memo_prec = newprec\n        f.memo_val = f(newprec, **kwargs)\n", "memo"),
 ("M2_forget_round_up", "libmp/libelefun.py",
  "        if rnd in (round_up, round_ceiling):\n            v += 1", "        if rnd == round_ceiling:\n            v += 1", "constfinal,const"),
 ("M3_logint_serves_lower_prec", "libmp/libelefun.py",
  "        if vprec >= prec:\n            return value >> (vprec - prec)", "        if vprec >= prec - 4:\n            return value >> max(0, vprec - prec)", "logint"),
 ("M4_bernoulli_state_not_updated", "libmp/gammazeta.py",
  "        state[:] = [m, bin, bin1]\n", "        pass\n", "bern"),
 ("M5_setitem_keeps_LU", "matrices/matrices.py",
  "        if self._LU:\n            self._LU = None\n        return", "        return", "lu"),
 ("M6_memoize_wrong_compare", "ctx_base.py",
  "                if cprec >= prec:", "                if cprec <= prec:", "memoize"),
 ("M7_quad_key_without_prec", "calculus/quadrature.py",
  "        key = (a, b, degree, prec)\n        if key in self.transformed_cache:", "        key = (a, b, degree, 0)\n        if key in self.transformed_cache:", "quad"),
 ("M8_newprec_plus_11", "libmp/libelefun.py",
  "newprec = int(prec*1.05+10)", "newprec = int(prec*1.05+11)", "memo"),
 ("M9_bernoulli_wp_key", "libmp/gammazeta.py",
  "    wp += 32 - (prec & 31)\n", "    wp += 32 - (prec & 15)\n", "bern"),
]
for name, rel, old, new, parts in [m for m in MUTS if (len(sys.argv) < 2 or m[0][:2] in sys.argv[1:])]:
    d = os.path.join(os.environ.get("MUT_DIR", "/tmp/cache_mut"), name)
    if os.path.exists(d):
        shutil.rmtree(d)
    shutil.copytree("/repo/mpmath", d + "/mpmath", ignore=shutil.ignore_patterns("__pycache__", "tests"))
    p = d + "/mpmath/" + rel
    s = open(p).read()
    assert s.count(old) == 1, (name, s.count(old))
    open(p, "w").write(s.replace(old, new))
    env = dict(os.environ, MPMATH_REPO=d, MPMATH_NOGMPY="1")
    r = subprocess.run([sys.executable, os.path.join(os.path.dirname(os.path.abspath(__file__)), "cache_ops.py"), "60", "0", parts], env=env,
                       stdout=subprocess.PIPE, stderr=subprocess.STDOUT, text=True)
    line = [l for l in r.stdout.split("\n") if l.startswith("disagreements")]
    print(name, parts, "->", line[0] if line else "CRASH: " + r.stdout[-300:].replace("\n", " | "))
