"""C17: per-precision DECISIONS about the mpf constants that need no reference value.

 (a) history independence, decided (not sampled) over a bounded history space: for every precision
     p <= pmax, every rounding mode, and EVERY memo precision P that a history of requests of at most
     qmax bits can leave in the constant_memo cache (P = int(q*1.05+10) >= p+20), the value
     def_mpf_constant computes from the cached F(P) >> (P-p-20) is the same;
 (b) directed-rounding consistency at p: d == f, u == c, f < c, c is the p-bit successor of f (the
     constants are irrational), n is f or c;
 (c) refinement across precisions: with lo/hi the floor/ceiling values at p+k bits (adjacent (p+k)-bit
     numbers, (b)), no p-bit number and no rounding tie lies strictly between them, so the value in
     every mode at p bits is determined: it must be the exact rounding of (lo+hi)/2.  For the six
     constants that the property wants correctly rounded a mismatch proves that the value at p or at
     p+k bits is wrong.  For the seven "within one ulp" constants: floor_p <= hi, ceil_p >= lo (correct
     side) and |nearest_p - expected| <= 1 ulp.
 All arithmetic of the decisions is exact Python integer arithmetic.
"""
from common import *  # noqa
import cache_ops

SIX = ["pi", "e", "ln2", "ln10", "phi", "degree"]
SEVEN = ["euler", "catalan", "apery", "khinchin", "glaisher", "twinprime", "mertens"]
SLOW = ["khinchin", "glaisher", "twinprime", "mertens"]
FIXED = {"pi": "pi_fixed", "e": "e_fixed", "ln2": "ln2_fixed", "ln10": "ln10_fixed", "phi": "phi_fixed", "degree": "pi_fixed",
         "euler": "euler_fixed", "catalan": "catalan_fixed", "apery": "apery_fixed", "khinchin": "khinchin_fixed",
         "glaisher": "glaisher_fixed", "twinprime": "twinprime_fixed", "mertens": "mertens_fixed"}


def site(R, c, kind):
    mod = "libelefun" if hasattr(R.le, "mpf_" + c) and ("mpf_" + c) in R.le.__dict__ else "gammazeta"
    return "%s.mpf_%s:%s" % (mod, c, kind)


def mpf_fn(R, c):
    return R.le.__dict__.get("mpf_" + c) or getattr(R.gz, "mpf_" + c)


def round_dyadic(man, exp, p, rnd):
    """exact rounding of the positive dyadic man*2^exp to p bits -> (man', exp') not normalised"""
    bc = man.bit_length()
    if bc <= p:
        return man, exp
    n = bc - p
    q, r = man >> n, man & ((1 << n) - 1)
    if rnd in ("f", "d"):
        pass
    elif rnd in ("c", "u"):
        q += 1 if r else 0
    else:
        half = 1 << (n - 1)
        if r > half or (r == half and (q & 1)):
            q += 1
    return q, exp + n


def norm(L, man, exp):
    return L.from_man_exp(man, exp)


def successor(L, x, p):
    s, m, e, bc = x
    M, E = m << (p - bc), e - (p - bc)
    return norm(L, M + 1, E)


def history_decision(R, consts, pmax, qmax, stats, fails, informational, plo=1, qlo=1):
    """(a).  F is the raw fixed-point function (nested caches reset before each evaluation).
    plo/qlo > 1: the same decision restricted to a WINDOW of precisions plo..pmax and earlier requests qlo..qmax (used to sample
    the high-precision range, where an inaccurate fixed-point value shows only in requests served from the cache within 5%)"""
    L = R.libmp
    np_ = cache_ops.py_newprec
    reach = sorted(set(np_(q) for q in range(qlo + 20, qmax + 21)))
    for c in consts:
        fx = FIXED[c]
        Fv = {}
        for P in reach:
            R.reset_all()
            Fv[P] = int(R.w[fx].f(P))
        R.reset_all()
        unstable = 0
        for p in range(plo, pmax + 1):
            wp = p + 20
            groups = {}
            for P in reach:
                if P < wp:
                    continue
                v = Fv[P] >> (P - wp)
                if c == "degree":
                    v //= 180
                groups.setdefault(v, []).append(P)
            stats["history_cases"] = stats.get("history_cases", 0) + sum(len(g) for g in groups.values()) * 5
            if len(groups) > 1:
                unstable += 1
                informational.setdefault("fixed_point_value_depends_on_memo_precision", []).append(
                    {"const": c, "wp": wp, "values_minus_min": sorted(v - min(groups) for v in groups), "memo_precs": {str(v - min(groups)): g[:3] for v, g in groups.items()}})
                for rnd in "nfcud":
                    outs = {}
                    for v, g in groups.items():
                        outs.setdefault(R.le.def_mpf_constant(lambda w_, v=v: v)(p, rnd), []).append(g[0])
                    if len(outs) > 1:
                        (a, Pa), (b, Pb) = [(k, g[0]) for k, g in outs.items()][:2]
                        qa = min(q for q in range(qlo + 20, qmax + 21) if np_(q) == Pa) - 20
                        qb = min(q for q in range(qlo + 20, qmax + 21) if np_(q) == Pb) - 20
                        fails.append({"site": site(R, c, "history"),
                                      "what": "mpf_%s(%d, %r) depends on the earlier requests (memo precision %d vs %d)" % (c, p, rnd, Pa, Pb),
                                      "input": {"kind": "history", "const": c, "prec": p, "rnd": rnd,
                                                "history_a": [qa], "history_b": [qb], "value_a": repr(a), "value_b": repr(b)}})
        stats.setdefault("history_precisions_with_unstable_fixed_value", {})[c] = unstable
        stats.setdefault("history_reachable_memo_precisions", len(reach))


def replay_history(R, inp):
    """re-evaluate a recorded history failure on the real functions; returns True if it still fails"""
    f = mpf_fn(R, inp["const"])
    R.reset_all()
    for q in inp["history_a"]:
        f(q, "n")
    a = f(inp["prec"], inp["rnd"])
    R.reset_all()
    for q in inp["history_b"]:
        f(q, "n")
    b = f(inp["prec"], inp["rnd"])
    R.reset_all()
    return a != b


def directed_and_refinement(R, g, consts, precs_of, ks, stats, fails):
    """(b) and (c) in fresh cache state per constant"""
    L = R.libmp
    for c in consts:
        f = mpf_fn(R, c)
        R.reset_all()
        strict = c in SIX
        for p in precs_of(c):
            vals = {r: f(p, r) for r in "nfcud"}
            stats["directed_cases"] = stats.get("directed_cases", 0) + 1
            bad = None
            if vals["d"] != vals["f"] or vals["u"] != vals["c"]:
                bad = "round_down/round_up differ from floor/ceiling"
            elif vals["c"] != successor(L, vals["f"], p):
                bad = "ceiling value is not the p-bit successor of the floor value"
            elif vals["n"] not in (vals["f"], vals["c"]):
                bad = "nearest value is neither the floor nor the ceiling value"
            if bad:
                fails.append({"site": site(R, c, "directed"), "what": "mpf_%s at %d bits: %s" % (c, p, bad),
                              "input": {"kind": "directed", "const": c, "prec": p, "values": {k: repr(v) for k, v in vals.items()}}})
                continue
            for k in ks(p):
                lo, hi = f(p + k, "f"), f(p + k, "c")
                if hi != successor(L, lo, p + k):
                    continue        # reported by (b) at precision p+k when that precision is visited
                stats["refinement_cases"] = stats.get("refinement_cases", 0) + 5
                # (lo+hi)/2 exactly: lo = m*2^e with up to p+k bits; hi = lo + ulp
                s_, m, e, bc = lo
                M, E = m << (p + k - bc), e - (p + k - bc)
                mid_m, mid_e = 2 * M + 1, E - 1
                for r in "nfcud":
                    em, ee = round_dyadic(mid_m, mid_e, p, r)
                    exp_v = norm(L, em, ee)
                    if vals[r] == exp_v:
                        continue
                    if strict:
                        fails.append({"site": site(R, c, "refinement"),
                                      "what": "mpf_%s(%d, %r) is not the rounding of its own enclosure at %d bits: one of the two is wrong" % (c, p, r, p + k),
                                      "input": {"kind": "refinement", "const": c, "prec": p, "rnd": r, "k": k, "value": repr(vals[r]),
                                                "expected_from_enclosure": repr(exp_v), "lo": repr(lo), "hi": repr(hi)}})
                    else:
                        stats["seven_not_equal_to_refinement"] = stats.get("seven_not_equal_to_refinement", 0) + 1
                        ulp = (0, 1, vals[r][2] + vals[r][3] - p, 1)
                        wrong_side = (r in "fd" and L.mpf_gt(vals[r], hi)) or (r in "cu" and L.mpf_lt(vals[r], lo))
                        far = L.mpf_gt(L.mpf_abs(L.mpf_sub(vals[r], exp_v)), ulp)
                        if wrong_side or far:
                            fails.append({"site": site(R, c, "refinement"),
                                          "what": "mpf_%s(%d, %r): %s with respect to its own enclosure at %d bits" % (c, p, r, "bound on the wrong side" if wrong_side else "more than one ulp off", p + k),
                                          "input": {"kind": "refinement", "const": c, "prec": p, "rnd": r, "k": k, "value": repr(vals[r]),
                                                    "expected_from_enclosure": repr(exp_v), "lo": repr(lo), "hi": repr(hi)}})
        R.reset_all()
