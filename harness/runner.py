"""Generic check runner:  runner.py <PID> [--tier quick|thorough] [--replay file]

Shape of every check (DESIGN.md §2.3):
 1. regenerate Gen/*.lean from /repo if the property uses the translator (cfg.pregen)
 2. lake build the property's Lean modules + mpdrv          -> proof obligations
 3. audit: forbidden-token grep, `#print axioms` of every theorem of Props/<PID>.lean
 4. corpus first, then the seeded correspondence / validator run against /repo's working tree
 5. decide: disagreement or broken obligation -> failing-input search -> KNOWN-FINDING / VIOLATION
 6. write evidence/<PID>.json
Exit codes: 0 ok, 1 violation (with a VIOLATION line), 2 infrastructure problem (no VIOLATION line).
"""
import sys, os, time, json, importlib, traceback, re, argparse

sys.path.insert(0, os.path.dirname(os.path.abspath(__file__)))
from common import *  # noqa
import findings as findings_mod


def theorems_of(module):
    """names of theorems declared in lean/<module path>.lean, qualified by enclosing namespaces"""
    path = os.path.join(LEAN_DIR, module.replace(".", "/") + ".lean")
    src = strip_lean_comments(open(path).read())
    ns = []
    out = []
    for line in src.split("\n"):
        m = re.match(r"\s*namespace\s+(\S+)", line)
        if m:
            ns.append(m.group(1)); continue
        m = re.match(r"\s*end\s+(\S+)", line)
        if m and ns and ns[-1] == m.group(1):
            ns.pop(); continue
        m = re.match(r"\s*(?:@\[[^\]]*\]\s*)?(?:private\s+|protected\s+)?theorem\s+(\S+)", line)
        if m:
            out.append(".".join(ns + [m.group(1)]))
    return out


def audit_axioms_batch(pid, modules, theorems, timeout=1800):
    """`#print axioms` for every theorem of all `modules` in one Lean session. Returns (dict name -> axioms | None, output)."""
    if len(modules) == 1:
        return audit_axioms(modules[0], theorems, timeout=timeout)
    os.makedirs(os.path.join(LEAN_DIR, ".lake", "audit"), exist_ok=True)
    path = os.path.join(LEAN_DIR, ".lake", "audit", "Audit_%s_all.lean" % pid)
    with open(path, "w") as f:
        for m in modules:
            f.write("import %s\n" % m)
        for t in theorems:
            f.write("#print axioms %s\n" % t)
    rc, out = run(["lake", "env", "lean", path], cwd=LEAN_DIR, timeout=timeout)
    res = {t: None for t in theorems}
    for m in re.finditer(r"'([^']+)' depends on axioms: \[([^\]]*)\]", out):
        res[m.group(1)] = [a.strip() for a in m.group(2).replace("\n", " ").split(",") if a.strip()]
    for m in re.finditer(r"'([^']+)' does not depend on any axioms", out):
        res[m.group(1)] = []
    return res, out


class Ctx:
    def __init__(self, pid, tier, seed, replay=None):
        self.pid, self.tier, self.seed, self.replay = pid, tier, seed, replay
        self.quick = tier == "quick"
        self.obligation_failures = []     # names of theorems / correspondences that no longer check


def main():
    ap = argparse.ArgumentParser()
    ap.add_argument("pid")
    ap.add_argument("--tier", default=None)
    ap.add_argument("--replay", default=None)
    a = ap.parse_args()
    pid = a.pid
    tier = a.tier or tier_from_env()
    seed = seed_from_env()
    t0 = time.time()
    try:
        rc = run_check(pid, tier, seed, a.replay, t0)
    except InfraError as e:
        print("INFRA-ERROR %s: %s" % (pid, e))
        sys.exit(2)
    except Exception:
        traceback.print_exc()
        print("INFRA-ERROR %s: harness exception" % pid)
        sys.exit(2)
    sys.exit(rc)


def run_check(pid, tier, seed, replay, t0):
    cfg = importlib.import_module("props." + pid)
    ctx = Ctx(pid, tier, seed, replay)
    import_repo()
    broken = []     # broken obligations: (name, detail)

    # 1. translator
    if hasattr(cfg, "pregen"):
        cfg.pregen(ctx)

    # 2. build
    modules = list(getattr(cfg, "LEAN_MODULES", []))
    ok, log = lake_build(["mpdrv"])
    if not ok:
        raise InfraError("model/driver does not build:\n" + log[-3000:])
    theorems = []
    built_modules = []
    for m in modules:
        ok, log = lake_build([m])
        if not ok:
            if m in getattr(cfg, "GENERATED_MODULES", []):
                broken.append((m, "generated obligations do not check:\n" + log[-3000:]))
                continue
            raise InfraError("proof module %s does not build:\n%s" % (m, log[-3000:]))
        built_modules.append(m)
    prop_modules = [m for m in built_modules if m.startswith("Props.")]
    for m in prop_modules:
        theorems += theorems_of(m)

    # 3. audit
    hits = grep_forbidden()
    if hits:
        raise InfraError("forbidden tokens in Lean sources: " + "; ".join(hits[:5]))
    axioms = {}
    if theorems:
        # ONE Lean session for all property modules of the check (the import of the Mathlib closure dominates the cost of an
        # audit; a check with k modules paid it k times)
        res, out = audit_axioms_batch(pid, [m for m in prop_modules if theorems_of(m)], theorems)
        for t, ax in res.items():
            if ax is None:
                raise InfraError("theorem %s not found by #print axioms:\n%s" % (t, out[-2000:]))
            bad = [x for x in ax if x not in ALLOWED_AXIOMS]
            if bad:
                raise InfraError("theorem %s depends on non-standard axioms %s" % (t, bad))
            axioms[t] = ax
    if tier == "thorough" and prop_modules and not getattr(cfg, "SKIP_LEANCHECKER", False):
        rc, out = run(["lake", "env", "leanchecker"] + prop_modules, cwd=LEAN_DIR, timeout=3600)
        if rc != 0:
            raise InfraError("leanchecker rejected %s:\n%s" % (prop_modules, out[-2000:]))

    # 4. dynamic part (corpus first is the module's responsibility through ctx helpers)
    try:
        res = cfg.run(ctx)
    except InfraError:
        raise
    except Exception as e:  # noqa
        # an exception escaping from the REAL code (a frame under the repository) that the harness did not anticipate means the
        # implementation no longer behaves like the model on that call: a broken correspondence, not an infrastructure problem
        tb = traceback.extract_tb(e.__traceback__)
        repo_frames = [f for f in tb if os.path.realpath(f.filename).startswith(os.path.realpath(REPO) + os.sep)]
        if not repo_frames:
            raise
        last = repo_frames[-1]
        res = {"coverage": {"evaluations": 0, "aborted_by_exception_in_implementation": True},
               "failing_inputs": [], "disagreements": [],
               "broken": [("correspondence:%s" % pid,
                           "the implementation raised %s: %s at %s:%d (%s) during the correspondence run; harness frames: %s" %
                           (type(e).__name__, str(e)[:300], os.path.relpath(last.filename, REPO), last.lineno, last.name,
                            " <- ".join("%s:%d" % (os.path.basename(f.filename), f.lineno) for f in tb if f not in repo_frames)[-400:]))]}
    fails = list(res.get("failing_inputs", []))        # concrete inputs on which the property fails
    disagreements = list(res.get("disagreements", []))  # correspondence breaks without a decided failing input
    for name, detail in res.get("broken", []):
        broken.append((name, detail))

    # 5. decide
    known = [k for k in load_known_findings() if k.get("property") == pid and k.get("status") == "finding"]
    rc = 0
    known_hit = {}
    violations = []
    for f in fails:
        k = findings_mod.match(known, f)
        if k is not None:
            known_hit.setdefault(k["id"], []).append(f)
        else:
            violations.append(f)
    for kid, fl in known_hit.items():
        k = [x for x in known if x["id"] == kid][0]
        print("KNOWN-FINDING: property=%s %s [%s; %d input(s) this run, e.g. %s]" %
              (pid, k["what"], kid, len(fl), json.dumps(fl[0].get("input"), default=str)[:200]))
    if violations:
        v = violations[0]
        path = write_replay(pid, {"property": pid, "kind": "failing-input", "seed": seed, "tier": tier,
                                  "failing_input": v, "others": violations[1:20]})
        print("VIOLATION property=%s replay=%s" % (pid, os.path.relpath(path, VERIF)))
        print("  what: %s" % v.get("what"))
        print("  input: %s" % json.dumps(v.get("input"), default=str)[:600])
        rc = 1
    elif disagreements or broken:
        # correspondence or proof obligation broke and the search found no failing input
        names = [d.get("name", d.get("op", "?")) for d in disagreements][:20] + [b[0] for b in broken]
        path = write_replay(pid, {"property": pid, "kind": "no-failing-input-found", "seed": seed, "tier": tier,
                                  "no_longer_checks": sorted(set(names)),
                                  "disagreements": disagreements[:20],
                                  "broken_obligations": [{"name": b[0], "detail": b[1][-1500:]} for b in broken]})
        print("VIOLATION property=%s replay=%s no-failing-input-found" % (pid, os.path.relpath(path, VERIF)))
        print("  no longer checks: %s" % ", ".join(sorted(set(names))[:8]))
        rc = 1

    # 6. evidence
    cov = dict(res.get("coverage", {}))
    level = getattr(cfg, "LEVEL", "proof")
    try:
        import registry as _reg
        level = _reg.CHECKS.get(pid, {}).get("category", level)
    except Exception:  # noqa
        pass
    n_obl = len(theorems) + len(res.get("extra_obligations", []))
    n_dis = len(axioms) + len([o for o in res.get("extra_obligations", []) if o.get("ok")])
    if level == "proof":
        cov.setdefault("obligations", n_obl)
        cov.setdefault("discharged", n_dis if not broken else max(0, n_dis - len(broken)))
        cov.setdefault("checker_cmd", "cd lean && lake build %s && lake env lean <#print axioms audit>%s" %
                       (" ".join(modules), " && lake env leanchecker " + " ".join(prop_modules) if tier == "thorough" else ""))
        cov.setdefault("trusted_base", TRUSTED_BASE + list(getattr(cfg, "TRUSTED_EXTRA", [])))
    else:
        cov.setdefault("obligations", n_obl)
        cov.setdefault("discharged", n_dis)
        cov.setdefault("trusted_base", TRUSTED_BASE + list(getattr(cfg, "TRUSTED_EXTRA", [])))
    cov["theorems"] = sorted(axioms.keys())
    cov["axioms_used"] = sorted({a for v in axioms.values() for a in v})
    cov["known_findings_hit"] = {k: len(v) for k, v in known_hit.items()}
    cov["correspondence_disagreements"] = len(disagreements)
    write_evidence(pid, tier, seed, level, cov, time.time() - t0, violations=len(violations) + (1 if (rc and not violations) else 0),
                   assumptions=list(getattr(cfg, "ASSUMPTIONS", [])))
    print("%s %s tier=%s seed=%d theorems=%d evaluations=%s wall=%.1fs" %
          ("OK" if rc == 0 else "FAIL", pid, tier, seed, len(axioms), cov.get("evaluations"), time.time() - t0))
    return rc


TRUSTED_BASE = [
    "Lean 4.33.0 kernel (thorough tier: leanchecker re-check of the Props modules)",
    "axioms: propext, Classical.choice, Quot.sound only (audited with #print axioms on every run); no native_decide/bv_decide/sorry",
    "Mathlib v4.33.0 (proof files only; the executable model imports nothing)",
    "hand-written Lean model of the code, tied to /repo's working tree by the bit-exact correspondence run of this check",
    "the Python harness (generators, differ) and CPython's big-integer arithmetic",
]

if __name__ == "__main__":
    main()
