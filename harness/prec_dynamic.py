#!/usr/bin/env python3
"""
harness/prec_dynamic.py — dynamic confirmation for C11 (DESIGN.md §4 C11, tie T3).

For each public entry point in SPECS the harness records (mp.prec, mp.dps) before and after the
call, starting at precisions {53, 100, 101, 167, 1000}, for
  (a) normal return,
  (b) a user callback (or, for entry points without callbacks, an argument object whose
      `_mpmath_` conversion hook is user code) that raises on its k-th call,
  (c) an exception injected at the k-th call of a libmp primitive: every plain function
      `mpf_* / mpc_* / from_* / to_*` exported by `mpmath.libmp` is wrapped in the globals of every
      loaded `mpmath.*` module that imported it (shared call counter).
k runs over 1..KMAX_DENSE, then a geometric schedule up to the number of calls observed in a
counting run, then the last call.  When a leak shows up at a sampled k the gap to the previous
sample is scanned to report the minimal k.

Every call runs in a worker subprocess with an in-process alarm and a hard parent-side timeout;
a timeout is recorded as "no result", never as pass.

Outputs (JSON): list of leaks with minimal k, per-entry coverage of the functions that the
translator flagged `notBracketed` (measured with sys.setprofile, not assumed), no-result list.

Also:  --conv   exhaustive agreement of the Lean model `precToDps/dpsToPrec` (through `mpdrv`
                if the driver has the ops, else through `lake env lean --run`) with CPython for all
                n ≤ 10^6 plus the round trip identity.
       --replay D8|D9|D10|RS|NZ   concrete replays of the findings.
"""
import os, sys, json, time, argparse, random, signal, traceback, subprocess, multiprocessing as mpc

os.environ.setdefault('MPMATH_NOGMPY', '1')
HERE = os.path.dirname(os.path.abspath(__file__))
PRECS = [53, 100, 101, 167, 1000]
KMAX_DENSE = 12


class Injected(Exception):
    pass


# --------------------------------------------------------------------------------------------
# entry-point specifications:  name -> function(mp, cb, arg) performing the call.
#   cb(f)  wraps a user callback (mode b counts/raises in it)
#   arg(x) wraps a numeric argument into an object converted through the `_mpmath_` hook
# --------------------------------------------------------------------------------------------
def specs():
    S = {}
    def s(name):
        def deco(f):
            S[name] = f
            return f
        return deco
    # --- calculus
    s('quad')(lambda mp, cb, arg: mp.quad(cb(lambda x: mp.exp(-x * x)), [0, 1]))
    s('quad_gl')(lambda mp, cb, arg: mp.quad(cb(mp.sin), [0, 2], method='gauss-legendre'))
    s('quad_2d')(lambda mp, cb, arg: mp.quad(cb(lambda x, y: x * y + 1), [0, 1], [0, 1], maxdegree=3))
    s('quadosc')(lambda mp, cb, arg: mp.quadosc(cb(lambda x: mp.sin(x) / (1 + x * x)), [0, mp.inf], omega=1))
    s('nsum')(lambda mp, cb, arg: mp.nsum(cb(lambda k: 1 / k ** 2), [1, mp.inf]))
    s('nsum_em')(lambda mp, cb, arg: mp.nsum(cb(lambda k: 1 / k ** 2), [1, mp.inf], method='euler-maclaurin'))
    s('nsum_levin')(lambda mp, cb, arg: mp.nsum(cb(lambda k: (-1) ** k / k), [1, mp.inf], method='levin'))
    s('nprod')(lambda mp, cb, arg: mp.nprod(cb(lambda k: 1 - 1 / (4 * k * k)), [1, mp.inf]))
    s('limit')(lambda mp, cb, arg: mp.limit(cb(lambda n: (1 + 1 / n) ** n), mp.inf))
    s('sumem')(lambda mp, cb, arg: mp.sumem(cb(lambda k: 1 / k ** 2), [32, mp.inf]))
    s('sumap')(lambda mp, cb, arg: mp.sumap(cb(lambda k: 1 / k ** 2), [1, mp.inf]))
    s('diff')(lambda mp, cb, arg: mp.diff(cb(mp.sin), arg(1)))
    s('diff_n')(lambda mp, cb, arg: mp.diff(cb(lambda x: mp.exp(x) * x), 1, 3))
    s('diffs')(lambda mp, cb, arg: list(mp.diffs(cb(mp.cos), 1, 4)))
    s('taylor')(lambda mp, cb, arg: mp.taylor(cb(mp.exp), 0, 4))
    s('pade')(lambda mp, cb, arg: mp.pade(mp.taylor(cb(mp.exp), 0, 6), 3, 3))
    s('differint')(lambda mp, cb, arg: mp.differint(cb(lambda t: t * t), 2, 0.5))
    s('findroot')(lambda mp, cb, arg: mp.findroot(cb(lambda x: x * x - 2), 1))
    s('findroot_mnewton')(lambda mp, cb, arg: mp.findroot(cb(lambda x: (x - 1) ** 2 * mp.exp(x)), 0.5, solver='mnewton'))
    s('findroot_anderson')(lambda mp, cb, arg: mp.findroot(cb(lambda x: mp.cos(x) - x), (0, 1), solver='anderson'))
    s('findroot_muller')(lambda mp, cb, arg: mp.findroot(cb(lambda x: x ** 3 - 1), (0, 1, 2), solver='muller'))
    s('findroot_md')(lambda mp, cb, arg: mp.findroot(cb(lambda x, y: [x * x + y * y - 1, x - y]), (1, 1)))
    s('polyroots')(lambda mp, cb, arg: mp.polyroots([arg(1), -3, 2, 5]))
    s('polyroots_hard')(lambda mp, cb, arg: mp.polyroots([1, 0, 0, 0, 0, 1], maxsteps=100, extraprec=60))
    s('polyval')(lambda mp, cb, arg: mp.polyval([1, arg(2), 3], 0.5, derivative=True))
    s('chebyfit')(lambda mp, cb, arg: mp.chebyfit(cb(mp.cos), [1, 2], 5))
    s('fourier')(lambda mp, cb, arg: mp.fourier(cb(lambda x: x), [-1, 1], 3))
    s('odefun')(lambda mp, cb, arg: mp.odefun(cb(lambda x, y: y), 0, 1)(1.5))
    s('odefun_sys')(lambda mp, cb, arg: mp.odefun(cb(lambda x, y: [y[1], -y[0]]), 0, [1, 0])(2))
    # closures / decorators: the callable is CREATED at another precision than the one it is CALLED at (a restore that uses
    # the creation-time precision passes every same-precision test)
    def _closure(mp, make, *xs):
        p = mp.prec
        mp.prec = p + 37
        try:
            f = make()
        finally:
            mp.prec = p
        return f(*xs)
    s('odefun_closure')(lambda mp, cb, arg: _closure(mp, lambda: mp.odefun(cb(lambda x, y: y), 0, 1), 1.5))
    s('odefun_sys_closure')(lambda mp, cb, arg: _closure(mp, lambda: mp.odefun(cb(lambda x, y: [y[1], -y[0]]), 0, [1, 0]), 2))
    s('memoize_closure')(lambda mp, cb, arg: _closure(mp, lambda: mp.memoize(cb(lambda x: mp.exp(x))), 0.75))
    s('maxcalls_closure')(lambda mp, cb, arg: _closure(mp, lambda: mp.maxcalls(cb(lambda x: mp.exp(x)), 5), 0.75))
    s('workprec_deco_closure')(lambda mp, cb, arg: _closure(mp, lambda: mp.workprec(80)(cb(lambda x: mp.exp(x))), 0.75))
    s('extraprec_deco_closure')(lambda mp, cb, arg: _closure(mp, lambda: mp.extraprec(20)(cb(lambda x: mp.exp(x))), 0.75))
    s('workdps_deco_closure')(lambda mp, cb, arg: _closure(mp, lambda: mp.workdps(30)(cb(lambda x: mp.exp(x))), 0.75))
    s('extradps_deco_closure')(lambda mp, cb, arg: _closure(mp, lambda: mp.extradps(5)(cb(lambda x: mp.exp(x))), 0.75))
    s('invertlaplace_talbot')(lambda mp, cb, arg: mp.invertlaplace(cb(lambda p: 1 / (p + 1)), 1.0, method='talbot'))
    s('invertlaplace_stehfest')(lambda mp, cb, arg: mp.invertlaplace(cb(lambda p: 1 / (p + 1)), 1.0, method='stehfest'))
    s('invertlaplace_dehoog')(lambda mp, cb, arg: mp.invertlaplace(cb(lambda p: 1 / (p + 1)), 1.0, method='dehoog'))
    s('invlaptalbot')(lambda mp, cb, arg: mp.invlaptalbot(cb(lambda p: 1 / (p + 1)), 1.0))
    s('invlapstehfest')(lambda mp, cb, arg: mp.invlapstehfest(cb(lambda p: 1 / (p + 1)), 1.0))
    s('invlapdehoog')(lambda mp, cb, arg: mp.invlapdehoog(cb(lambda p: 1 / (p + 1)), 1.0))
    s('identify')(lambda mp, cb, arg: mp.identify(mp.mpf(3) / 7))
    s('pslq')(lambda mp, cb, arg: mp.pslq([1, mp.sqrt(2), mp.sqrt(2) * 3 - 2], maxcoeff=100, maxsteps=1000))
    s('findpoly')(lambda mp, cb, arg: mp.findpoly(mp.sqrt(2) + 1, 2))
    # --- context helpers
    s('fsum')(lambda mp, cb, arg: mp.fsum([arg(1), 2, 3.5]))
    s('fdot')(lambda mp, cb, arg: mp.fdot([1, arg(2)], [3, 4]))
    s('fprod')(lambda mp, cb, arg: mp.fprod([arg(1.5), 2, 3]))
    s('sum_accurately')(lambda mp, cb, arg: mp.sum_accurately(cb(lambda: iter([mp.mpf(1), mp.mpf(-1), mp.mpf(2) ** -80]))))
    s('mul_accurately')(lambda mp, cb, arg: mp.mul_accurately(cb(lambda: iter([mp.mpf(1) + mp.mpf(2) ** -60, mp.mpf(3)]))))
    s('autoprec')(lambda mp, cb, arg: mp.autoprec(cb(lambda x: mp.sin(x) - x + x ** 3 / 6))(mp.mpf(2) ** -10))
    s('workprec_with')(lambda mp, cb, arg: _with(mp.workprec(200), cb(lambda: mp.sqrt(2))))
    s('workdps_with')(lambda mp, cb, arg: _with(mp.workdps(40), cb(lambda: mp.sqrt(2))))
    s('extraprec_with')(lambda mp, cb, arg: _with(mp.extraprec(33), cb(lambda: mp.sqrt(2))))
    s('extradps_with')(lambda mp, cb, arg: _with(mp.extradps(7), cb(lambda: mp.sqrt(2))))
    s('extraprec_reentrant')(lambda mp, cb, arg: _with2(mp.extraprec(17), cb(lambda: mp.sqrt(2))))
    s('workprec_deco')(lambda mp, cb, arg: mp.workprec(200)(cb(lambda: mp.sqrt(2)))())
    s('workdps_deco_norm')(lambda mp, cb, arg: mp.workdps(40, normalize_output=True)(cb(lambda: mp.sqrt(2)))())
    s('extradps_deco')(lambda mp, cb, arg: mp.extradps(5)(cb(lambda: mp.sqrt(2)))())
    s('maxcalls_memoize')(lambda mp, cb, arg: mp.memoize(mp.maxcalls(cb(lambda x: mp.sin(x)), 10))(1))
    # --- matrices
    A = lambda mp, arg: mp.matrix([[arg(4), 1, 0.5], [1, 3, 0.25], [0.5, 0.25, 2]])
    s('expm')(lambda mp, cb, arg: mp.expm(A(mp, arg)))
    s('expm_pade')(lambda mp, cb, arg: mp.expm(A(mp, arg), method='pade'))
    s('sqrtm')(lambda mp, cb, arg: mp.sqrtm(A(mp, arg)))
    s('logm')(lambda mp, cb, arg: mp.logm(A(mp, arg)))
    s('powm')(lambda mp, cb, arg: mp.powm(A(mp, arg), 0.5))
    s('cosm')(lambda mp, cb, arg: mp.cosm(A(mp, arg)))
    s('inverse')(lambda mp, cb, arg: mp.inverse(A(mp, arg)))
    s('det')(lambda mp, cb, arg: mp.det(A(mp, arg)))
    s('lu_solve')(lambda mp, cb, arg: mp.lu_solve(A(mp, arg), [1, 2, 3]))
    s('qr_solve')(lambda mp, cb, arg: mp.qr_solve(A(mp, arg), [1, 2, 3]))
    s('cholesky_solve')(lambda mp, cb, arg: mp.cholesky_solve(A(mp, arg), [1, 2, 3]))
    s('qr')(lambda mp, cb, arg: mp.qr(A(mp, arg)))
    s('residual')(lambda mp, cb, arg: mp.residual(A(mp, arg), [1, 1, 1], [1, 2, 3]))
    s('eig')(lambda mp, cb, arg: mp.eig(A(mp, arg)))
    s('eigh')(lambda mp, cb, arg: mp.eigh(A(mp, arg)))
    s('svd')(lambda mp, cb, arg: mp.svd(A(mp, arg)))
    # --- zeta family
    s('zeta')(lambda mp, cb, arg: mp.zeta(arg(2.5)))
    s('zeta_deriv')(lambda mp, cb, arg: mp.zeta(arg(2.5), 1, 2))
    s('zeta_rs')(lambda mp, cb, arg: mp.zeta(mp.mpc(0.5, 2000)))
    s('zeta_rs_deriv')(lambda mp, cb, arg: mp.zeta(mp.mpc(0.5, 2000), derivative=1))
    s('rs_zeta')(lambda mp, cb, arg: mp.rs_zeta(mp.mpc(0.5, 3000)))
    s('rs_z')(lambda mp, cb, arg: mp.rs_z(mp.mpf(3000)))
    s('siegelz')(lambda mp, cb, arg: mp.siegelz(arg(3000)))
    s('siegelz_small')(lambda mp, cb, arg: mp.siegelz(arg(20)))
    s('altzeta')(lambda mp, cb, arg: mp.altzeta(arg(0.5)))
    s('dirichlet')(lambda mp, cb, arg: mp.dirichlet(2, [0, 1, 0, -1]))
    s('stieltjes')(lambda mp, cb, arg: mp.stieltjes(2))
    s('primezeta')(lambda mp, cb, arg: mp.primezeta(arg(2)))
    s('secondzeta')(lambda mp, cb, arg: mp.secondzeta(arg(2)))
    s('riemannr')(lambda mp, cb, arg: mp.riemannr(arg(1000)))
    s('lerchphi')(lambda mp, cb, arg: mp.lerchphi(arg(0.5), 2, 3))
    s('polylog')(lambda mp, cb, arg: mp.polylog(2, arg(0.5)))
    s('grampoint')(lambda mp, cb, arg: mp.grampoint(10))
    s('zetazero')(lambda mp, cb, arg: mp.zetazero(2))
    s('nzeros')(lambda mp, cb, arg: mp.nzeros(arg(30)))
    s('backlunds')(lambda mp, cb, arg: mp.backlunds(arg(30)))
    # --- hypergeometric
    s('hyp2f1')(lambda mp, cb, arg: mp.hyp2f1(1, arg(2), 3, 0.5))
    s('hyp2f1_z1')(lambda mp, cb, arg: mp.hyp2f1(1, arg(2), 5, 1))
    s('hyp2f1_1mz')(lambda mp, cb, arg: mp.hyp2f1(1, arg(2), 3.5, 0.95))
    s('hyp2f1_big')(lambda mp, cb, arg: mp.hyp2f1(1, arg(2), 3.5, -7))
    s('hyp2f1_gosper')(lambda mp, cb, arg: mp.hyp2f1(2, 3, 4, mp.mpc(0.5, 0.8660254037844386)))
    s('hyp1f1')(lambda mp, cb, arg: mp.hyp1f1(arg(1.5), 2, 3))
    s('hyp1f1_large')(lambda mp, cb, arg: mp.hyp1f1(arg(1.5), 2.25, -3000))
    s('hyp0f1')(lambda mp, cb, arg: mp.hyp0f1(arg(1.5), 300000))
    s('hyp1f2')(lambda mp, cb, arg: mp.hyp1f2(1, 2, arg(3.5), 100000))
    s('hyp2f0')(lambda mp, cb, arg: mp.hyp2f0(1, arg(2.5), -0.01))
    s('hyp2f2')(lambda mp, cb, arg: mp.hyp2f2(1, 2, arg(3.5), 4, -2000))
    s('hyp2f3')(lambda mp, cb, arg: mp.hyp2f3(1, 2, arg(3.5), 4, 5, 100000))
    s('hyp3f2')(lambda mp, cb, arg: mp.hyp3f2(1, 2, arg(3.5), 4, 5.25, 1))
    s('hyper')(lambda mp, cb, arg: mp.hyper([1, 2, arg(3)], [4, 5.5], 0.25))
    s('hyper_q1fq')(lambda mp, cb, arg: mp.hyper([1, 2, arg(3), 4], [5.5, 6, 7.25], -1))
    s('hyper_borel')(lambda mp, cb, arg: mp.hyper([1, arg(2), 3], [4], 0.01))
    s('hypercomb')(lambda mp, cb, arg: mp.hypercomb(cb(lambda a: [([a], [1], [], [], [a], [a + 1], 0.5)]), [2]))
    s('hyper2d')(lambda mp, cb, arg: mp.hyper2d({'m+n': [1, 2]}, {'m+n': [3.5]}, arg(0.25), 0.125))
    s('hyperu')(lambda mp, cb, arg: mp.hyperu(arg(2), 3.5, 4))
    s('meijerg')(lambda mp, cb, arg: mp.meijerg([[1], []], [[0.5], [0]], arg(2)))
    s('appellf1')(lambda mp, cb, arg: mp.appellf1(1, 2, 3, 4.5, arg(0.25), 0.125))
    # --- bessel & co
    s('besselj')(lambda mp, cb, arg: mp.besselj(arg(2), 10.5))
    s('besselj_deriv')(lambda mp, cb, arg: mp.besselj(arg(2), 10.5, derivative=2))
    s('bessely')(lambda mp, cb, arg: mp.bessely(arg(2), 10.5))
    s('bessely_int')(lambda mp, cb, arg: mp.bessely(2, arg(0.5)))
    s('besseli')(lambda mp, cb, arg: mp.besseli(arg(2.5), 3))
    s('besselk')(lambda mp, cb, arg: mp.besselk(arg(2.5), 30))
    s('besselk_small')(lambda mp, cb, arg: mp.besselk(arg(2), 0.25))
    s('hankel1')(lambda mp, cb, arg: mp.hankel1(arg(2), 3.5))
    s('struveh')(lambda mp, cb, arg: mp.struveh(arg(1), 3.5))
    s('whitm')(lambda mp, cb, arg: mp.whitm(arg(1), 0.5, 2))
    s('whitw')(lambda mp, cb, arg: mp.whitw(arg(1), 0.5, 2))
    s('coulombf')(lambda mp, cb, arg: mp.coulombf(arg(2), 0.5, 3))
    s('airyai')(lambda mp, cb, arg: mp.airyai(arg(50)))
    s('airyai_neg')(lambda mp, cb, arg: mp.airyai(arg(-50)))
    s('airyai_deriv')(lambda mp, cb, arg: mp.airyai(arg(3), derivative=2))
    s('airyai_int')(lambda mp, cb, arg: mp.airyai(arg(3), derivative=-1))
    s('airybi')(lambda mp, cb, arg: mp.airybi(arg(50)))
    s('airybi_deriv')(lambda mp, cb, arg: mp.airybi(arg(-3), derivative=2))
    s('airybi_int')(lambda mp, cb, arg: mp.airybi(arg(-30), derivative=-1))
    s('airyaizero')(lambda mp, cb, arg: mp.airyaizero(3))
    s('airybizero')(lambda mp, cb, arg: mp.airybizero(3))
    s('scorergi')(lambda mp, cb, arg: mp.scorergi(arg(40)))
    s('scorerhi')(lambda mp, cb, arg: mp.scorerhi(arg(-40)))
    s('besseljzero')(lambda mp, cb, arg: mp.besseljzero(arg(1), 3))
    # --- elliptic / theta
    s('ellipk')(lambda mp, cb, arg: mp.ellipk(arg(0.5)))
    s('ellipf')(lambda mp, cb, arg: mp.ellipf(arg(10), 0.5))
    s('ellipe')(lambda mp, cb, arg: mp.ellipe(arg(10), 0.5))
    s('ellippi')(lambda mp, cb, arg: mp.ellippi(0.25, arg(10), 0.5))
    s('elliprc')(lambda mp, cb, arg: mp.elliprc(arg(1), 2))
    s('elliprc_neg')(lambda mp, cb, arg: mp.elliprc(arg(1), -2))
    s('elliprf')(lambda mp, cb, arg: mp.elliprf(arg(1), 2, 3))
    s('elliprj')(lambda mp, cb, arg: mp.elliprj(arg(1), 2, 3, 4))
    s('elliprd')(lambda mp, cb, arg: mp.elliprd(arg(1), 2, 3))
    s('elliprg')(lambda mp, cb, arg: mp.elliprg(arg(1), 2, 3))
    s('ellipfun')(lambda mp, cb, arg: mp.ellipfun('sn', arg(2), 0.5))
    s('jtheta2')(lambda mp, cb, arg: mp.jtheta(2, arg(0.5), 0.25))
    s('jtheta3')(lambda mp, cb, arg: mp.jtheta(3, arg(0.5), 0.25))
    s('jtheta2_c')(lambda mp, cb, arg: mp.jtheta(2, mp.mpc(0.5, 20), mp.mpc(0.25, 0.5)))
    s('jtheta1_d')(lambda mp, cb, arg: mp.jtheta(1, arg(0.5), 0.25, 2))
    s('jtheta3_d')(lambda mp, cb, arg: mp.jtheta(3, mp.mpc(0.5, 10), mp.mpc(0.25, 0.5), 1))
    s('agm')(lambda mp, cb, arg: mp.agm(arg(1), 2))
    s('kleinj')(lambda mp, cb, arg: mp.kleinj(mp.mpc(0.25, 1)))
    # --- gamma / erf / expint
    s('gamma')(lambda mp, cb, arg: mp.gamma(arg(3.5)))
    s('gammaprod')(lambda mp, cb, arg: mp.gammaprod([arg(-1), 3], [-2, 4]))
    s('gammainc')(lambda mp, cb, arg: mp.gammainc(arg(2.5), 3))
    s('gammainc_ab')(lambda mp, cb, arg: mp.gammainc(arg(2.5), 3, 7))
    s('gammainc_pole')(lambda mp, cb, arg: mp.gammainc(arg(-2), 3, 7))
    s('gammainc_lower')(lambda mp, cb, arg: mp.gammainc(arg(2.5), 0, 3, regularized=True))
    s('betainc')(lambda mp, cb, arg: mp.betainc(arg(2), 3.5, 0.25, 0.75))
    s('betainc_reg')(lambda mp, cb, arg: mp.betainc(arg(2), 3.5, 0, 0.75, regularized=True))
    s('erf')(lambda mp, cb, arg: mp.erf(mp.mpc(1, 2)))
    s('erfi')(lambda mp, cb, arg: mp.erfi(arg(2)))
    s('erfinv')(lambda mp, cb, arg: mp.erfinv(arg(0.75)))
    s('ei')(lambda mp, cb, arg: mp.ei(mp.mpc(1, 2)))
    s('e1')(lambda mp, cb, arg: mp.e1(arg(2.5)))
    s('expint')(lambda mp, cb, arg: mp.expint(arg(2.5), 3))
    s('si')(lambda mp, cb, arg: mp.si(mp.mpc(1, 2)))
    s('shi')(lambda mp, cb, arg: mp.shi(arg(2)))
    s('fresnels')(lambda mp, cb, arg: mp.fresnels(arg(2)))
    s('fresnelc')(lambda mp, cb, arg: mp.fresnelc(arg(2)))
    s('barnesg')(lambda mp, cb, arg: mp.barnesg(arg(3.5)))
    s('barnesg_c')(lambda mp, cb, arg: mp.barnesg(mp.mpc(3.5, 40)))
    s('hyperfac')(lambda mp, cb, arg: mp.hyperfac(arg(3.5)))
    s('hyperfac_neg')(lambda mp, cb, arg: mp.hyperfac(arg(-3.5)))
    s('superfac')(lambda mp, cb, arg: mp.superfac(arg(3.5)))
    s('psi')(lambda mp, cb, arg: mp.psi(2, arg(3.5)))
    s('harmonic')(lambda mp, cb, arg: mp.harmonic(arg(3.5)))
    s('bernoulli')(lambda mp, cb, arg: mp.bernoulli(20))
    s('bell')(lambda mp, cb, arg: mp.bell(5, arg(2)))
    s('stirling1')(lambda mp, cb, arg: mp.stirling1(8, 3))
    # --- orthogonal / misc functions
    s('legendre')(lambda mp, cb, arg: mp.legendre(arg(3.5), 0.25))
    s('legendre_m1')(lambda mp, cb, arg: mp.legendre(arg(3), -0.9999))
    s('legenp')(lambda mp, cb, arg: mp.legenp(arg(3.5), 1, 0.25))
    s('chebyt')(lambda mp, cb, arg: mp.chebyt(arg(3.5), 0.25))
    s('chebyu')(lambda mp, cb, arg: mp.chebyu(arg(3.5), 0.25))
    s('jacobi')(lambda mp, cb, arg: mp.jacobi(arg(3.5), 1, 2, 0.25))
    s('gegenbauer')(lambda mp, cb, arg: mp.gegenbauer(arg(3.5), 1, 0.25))
    s('hermite')(lambda mp, cb, arg: mp.hermite(arg(3.5), 0.25))
    s('laguerre')(lambda mp, cb, arg: mp.laguerre(arg(3.5), 1, 0.25))
    s('spherharm')(lambda mp, cb, arg: mp.spherharm(3, 2, arg(0.5), 1))
    s('lambertw')(lambda mp, cb, arg: mp.lambertw(arg(2.5)))
    s('lambertw_k')(lambda mp, cb, arg: mp.lambertw(arg(2.5), 3))
    s('lambertw_branchpt')(lambda mp, cb, arg: mp.lambertw(arg(-0.36787944117144233), 0))
    s('lambertw_big')(lambda mp, cb, arg: mp.lambertw(arg(1e300)))
    s('root')(lambda mp, cb, arg: mp.root(arg(2), 7))
    s('unitroots')(lambda mp, cb, arg: mp.unitroots(7))
    s('cbrt')(lambda mp, cb, arg: mp.cbrt(arg(2)))
    s('exp')(lambda mp, cb, arg: mp.exp(arg(2)))
    s('power')(lambda mp, cb, arg: mp.power(arg(2), 0.5))
    s('atan2')(lambda mp, cb, arg: mp.atan2(arg(1), 2))
    s('cot')(lambda mp, cb, arg: mp.cot(arg(1)))
    s('sinc')(lambda mp, cb, arg: mp.sinc(arg(1)))
    s('qp')(lambda mp, cb, arg: mp.qp(arg(0.5), 0.25))
    s('qgamma')(lambda mp, cb, arg: mp.qgamma(arg(3.5), 0.25))
    s('nstr')(lambda mp, cb, arg: mp.nstr(mp.pi, 30))
    s('mpf_str')(lambda mp, cb, arg: mp.mpf('1.25e-3') + mp.mpf(arg(2)))
    # --- cross-context: the call is made in the fp or iv context (mp._fp / mp._iv are the global fp / iv); what is recorded
    #     is still (mp.prec, mp.dps) — plus (iv.prec, iv.dps) for the iv specs.  First the functions whose implementation
    #     reaches from the calling context for another one (ctx._mp / ctx._fp / ctx._iv: rszeta.coef builds the Riemann-Siegel
    #     coefficients in ctx._mp and changes ITS precision; zetazeros.* call ctx._fp.siegelz; primepi2 uses ctx._iv), with
    #     arguments that reach those lines (|t| > 500*53 for the Riemann-Siegel code in fp; every spec starts in a fresh
    #     worker, so the per-context coefficient cache is empty), then a sample of ordinary fp / iv calls.
    s('fp_siegelz_rs')(lambda mp, cb, arg: mp._fp.siegelz(1.0e6))
    s('fp_siegelz_rs_deriv')(lambda mp, cb, arg: mp._fp.siegelz(2.0e6, derivative=1))
    s('fp_zeta_rs')(lambda mp, cb, arg: mp._fp.zeta(0.5 + 1.0e6j))
    s('fp_zeta_rs_deriv')(lambda mp, cb, arg: mp._fp.zeta(0.5 + 3.0e6j, derivative=1))
    s('fp_zeta_rs_twice')(lambda mp, cb, arg: (mp._fp.zeta(0.5 + 1.0e5j), mp._fp.zeta(0.25 + 4.0e7j)))
    s('fp_nzeros')(lambda mp, cb, arg: mp._fp.nzeros(10 ** 6))
    s('fp_zetazero')(lambda mp, cb, arg: mp._fp.zetazero(10 ** 6))
    s('fp_primepi2')(lambda mp, cb, arg: mp._fp.primepi2(100))
    s('nzeros_rs')(lambda mp, cb, arg: mp.nzeros(arg(10 ** 6)))
    s('primepi2')(lambda mp, cb, arg: mp.primepi2(arg(3000)))
    s('clone_nzeros_rs')(lambda mp, cb, arg: mp.clone().nzeros(10 ** 6))
    s('fp_quad')(lambda mp, cb, arg: mp._fp.quad(cb(lambda x: mp._fp.exp(-x * x)), [0, 1]))
    s('fp_findroot')(lambda mp, cb, arg: mp._fp.findroot(cb(lambda x: x * x - 2), 1.0))
    s('fp_diff')(lambda mp, cb, arg: mp._fp.diff(cb(mp._fp.sin), 1.0))
    s('fp_nsum')(lambda mp, cb, arg: mp._fp.nsum(cb(lambda k: 1.0 / k ** 2), [1, mp._fp.inf]))
    s('fp_gamma')(lambda mp, cb, arg: mp._fp.gamma(3.5 + 2j))
    s('fp_hyp2f1')(lambda mp, cb, arg: mp._fp.hyp2f1(1, 2, 3.5, 0.95))
    s('fp_besselj')(lambda mp, cb, arg: mp._fp.besselj(2, 10.5))
    s('fp_airyai')(lambda mp, cb, arg: mp._fp.airyai(-50.0))
    s('fp_erf')(lambda mp, cb, arg: mp._fp.erf(1 + 2j))
    s('fp_bernoulli')(lambda mp, cb, arg: mp._fp.bernoulli(20))
    s('fp_lu_solve')(lambda mp, cb, arg: mp._fp.lu_solve(mp._fp.matrix([[4, 1], [1, 3]]), [1, 2]))
    s('iv_exp')(lambda mp, cb, arg: mp._iv.exp(mp._iv.mpf([1, 2])))
    s('iv_sin')(lambda mp, cb, arg: mp._iv.sin(mp._iv.mpf([1, 2])))
    s('iv_gamma')(lambda mp, cb, arg: mp._iv.gamma(mp._iv.mpf('1.3')))
    s('iv_pi')(lambda mp, cb, arg: +mp._iv.pi)
    s('iv_det')(lambda mp, cb, arg: mp._iv.det(mp._iv.matrix([[4, 1], [1, 3]])))
    s('iv_mpf_str')(lambda mp, cb, arg: mp._iv.mpf('0.1') + mp._iv.mpf(2))
    return S


def is_cross(name):
    """specs whose call is made in (or goes through) another context than mp"""
    return name.startswith(('fp_', 'iv_', 'clone_')) or name in ('nzeros_rs', 'primepi2')


def _with(mgr, body):
    with mgr:
        return body()


def _with2(mgr, body):
    """D8: the SAME PrecisionManager object entered twice"""
    with mgr:
        with mgr:
            return body()


def spec_entry(name):
    """the public mpmath function a spec exercises: longest '_'-prefix of the spec name that is an
    attribute of mp (`hyp2f1_z1` -> hyp2f1, `lu_solve` -> lu_solve, `jtheta2_c` -> jtheta)"""
    from mpmath import mp
    parts = name.split('_')
    if len(parts) > 1 and parts[0] in ('fp', 'iv', 'clone'):      # the context the call is made in
        parts = parts[1:]
    for i in range(len(parts), 0, -1):
        cand = '_'.join(parts[:i])
        if hasattr(mp, cand): return cand
        c2 = cand.rstrip('0123456789')
        if c2 and hasattr(mp, c2): return c2
    return parts[0]


# --------------------------------------------------------------------------------------------
# worker
# --------------------------------------------------------------------------------------------
class Fault:
    """shared counter; raises `exc` at the k-th counted call (k = 0: count only)"""
    def __init__(self, k, exc):
        self.k, self.exc, self.n, self.fired = k, exc, 0, False
    def tick(self):
        self.n += 1
        if self.k and self.n == self.k:
            self.fired = True
            raise self.exc('injected at call %d' % self.k)


def patch_primitives(fault):
    import types, mpmath.libmp as L
    prims = {n: f for n, f in vars(L).items()
             if isinstance(f, types.FunctionType) and n.startswith(('mpf_', 'mpc_', 'from_', 'to_'))}
    undo = []
    wrapped = {}
    for n, f in prims.items():
        def mk(f):
            def w(*a, **kw):
                fault.tick()
                return f(*a, **kw)
            w.__name__ = f.__name__
            return w
        wrapped[n] = mk(f)
    for mname, mod in list(sys.modules.items()):
        if not (mname == 'mpmath' or mname.startswith('mpmath.')) or mod is None: continue
        d = vars(mod)
        for n, f in prims.items():
            if d.get(n) is f:
                d[n] = wrapped[n]
                undo.append((d, n, f))
    return undo


def run_case(task, nb_sites=None):
    """executed inside the worker"""
    import mpmath
    from mpmath import mp
    name, prec, mode, k, exc_name = task['name'], task['prec'], task['mode'], task['k'], task.get('exc', 'X')
    exc = {'X': Injected, 'Z': ZeroDivisionError, 'V': ValueError, 'N': mp.NoConvergence}[exc_name]
    fn = SPECS[name]
    mp.prec = prec
    mp.trap_complex = False
    iv = mpmath.iv
    if name.startswith('iv_'):
        iv.prec = prec + 11          # not mp's precision, not the default
        cells = lambda: (mp.prec, mp.dps, iv.prec, iv.dps)
    else:
        cells = lambda: (mp.prec, mp.dps)
    before = cells()
    fault = Fault(k if mode in ('b', 'c') else 0, exc)
    counting = {'b': 0}
    def cb(f):
        if mode not in ('b', 'countb'): return f
        def g(*a, **kw):
            fault.tick()
            return f(*a, **kw)
        return g
    def arg(x):
        if mode not in ('b', 'countb'): return x
        class Arg(object):
            def _mpmath_(self, prec, rnd):
                fault.tick()
                return mp.mpf(x)
        return Arg()
    undo = []
    hit = set()
    out = dict(task)
    try:
        if mode in ('c', 'countc'): undo = patch_primitives(fault)
        if mode == 'cover':
            sites = nb_sites
            rp = {}
            def prof(frame, ev, a):
                if ev == 'call':
                    c = frame.f_code
                    fnm = rp.get(c.co_filename)
                    if fnm is None: fnm = rp[c.co_filename] = os.path.realpath(c.co_filename)
                    key = (fnm, c.co_firstlineno)
                    if key in sites: hit.add(sites[key])
            sys.setprofile(prof)
        try:
            fn(mp, cb, arg)
            out['outcome'] = 'ok'
        except Injected:
            out['outcome'] = 'injected'
        except TimeoutError:
            raise
        except BaseException as e:
            out['outcome'] = 'injected:' + type(e).__name__ if fault.fired else 'exc:' + type(e).__name__
            out['msg'] = str(e)[:100]
    finally:
        sys.setprofile(None)
        for d, n, f in undo: d[n] = f
    after = cells()
    out.update(before=before, after=after, calls=fault.n, fired=fault.fired, leak=(before != after))
    if mode == 'cover': out['hit'] = sorted(hit)
    return out


def worker_main(conn, timeout, nb_sites):
    def on_alarm(sig, frm):
        raise TimeoutError()
    signal.signal(signal.SIGALRM, on_alarm)
    while True:
        task = conn.recv()
        if task is None: break
        signal.setitimer(signal.ITIMER_REAL, timeout)
        try:
            r = run_case(task, nb_sites)
        except TimeoutError:
            r = dict(task, outcome='timeout', leak=None)
        except BaseException as e:
            r = dict(task, outcome='harness-error:' + type(e).__name__, msg=traceback.format_exc()[-300:], leak=None)
        finally:
            signal.setitimer(signal.ITIMER_REAL, 0)
        conn.send(r)


class Worker:
    def __init__(self, timeout, nb_sites):
        self.timeout, self.nb_sites = timeout, nb_sites
        self.spawn()
    def spawn(self):
        self.parent, child = mpc.Pipe()
        self.proc = mpc.Process(target=worker_main, args=(child, self.timeout, self.nb_sites), daemon=True)
        self.proc.start()
    def run(self, task):
        self.parent.send(task)
        if self.parent.poll(self.timeout + 5):
            try:
                return self.parent.recv()
            except EOFError:
                pass
        # hard timeout / crash: kill and respawn
        self.proc.kill(); self.proc.join()
        self.spawn()
        return dict(task, outcome='hard-timeout', leak=None)
    def close(self):
        try:
            self.parent.send(None)
            self.proc.join(2)
        finally:
            if self.proc.is_alive(): self.proc.kill()


SPECS = specs()


# --------------------------------------------------------------------------------------------
# schedule for one entry point (runs in a thread of the parent, owning one worker)
# --------------------------------------------------------------------------------------------
def kschedule(n):
    ks = list(range(1, min(n, KMAX_DENSE) + 1))
    x = float(KMAX_DENSE)
    while x * 1.5 < n:
        x *= 1.5
        ks.append(int(x))
    if n > KMAX_DENSE: ks += [n - 1, n]
    return sorted(set(k for k in ks if 1 <= k <= n))


def entry_job(args):
    name, precs, timeout, nb_sites, modes, excs = args[:6]
    deadline = args[6] if len(args) > 6 else None
    res = dict(name=name, leaks=[], noresult=[], runs=0, swallowed=0, cover=[], outcomes={}, nontrivial=0,
               fired=0, skipped=False, precs=list(precs))
    if deadline is not None and time.time() > deadline:
        res['skipped'] = True
        return res
    w = Worker(timeout, nb_sites)
    fresh = is_cross(name)      # the code under test runs on a miss of a per-context cache only: every run in a new process
    def run(task):
        if deadline is not None and time.time() > deadline + 30:
            res['skipped'] = True
            return dict(task, outcome='budget', leak=None, calls=0)
        if fresh and res['runs']:
            w.close()
            w.spawn()
        r = w.run(task)
        res['runs'] += 1
        if r.get('fired'): res['fired'] += 1
        if r.get('leak') is not None and (r.get('fired') or (task['mode'] == 'a' and res['cover'])):
            res['nontrivial'] += 1
        o = r['outcome'].split(':')[0]
        res['outcomes'][o] = res['outcomes'].get(o, 0) + 1
        if r.get('leak') is None:
            res['noresult'].append({k: r.get(k) for k in ('name', 'prec', 'mode', 'k', 'exc', 'outcome', 'msg')})
        return r
    try:
        r = run(dict(name=name, prec=53, mode='cover', k=0))
        res['cover'] = r.get('hit', [])
        res['normal_outcome'] = r['outcome'] + ((' ' + r.get('msg', '')) if r.get('msg') else '')
        for prec in precs:
            r = run(dict(name=name, prec=prec, mode='a', k=0))
            if r.get('leak'):
                res['leaks'].append(dict(name=name, prec=prec, mode='a', k=0, before=r['before'], after=r['after'], outcome=r['outcome']))
            for mode in modes:
                cnt = run(dict(name=name, prec=prec, mode='count' + mode, k=0))
                n = cnt.get('calls', 0)
                if cnt.get('leak') is None or n == 0: continue
                for exc in excs:
                    prev, found = 0, None
                    for k in kschedule(n):
                        r = run(dict(name=name, prec=prec, mode=mode, k=k, exc=exc))
                        if r.get('fired') and not r['outcome'].startswith('injected'): res['swallowed'] += 1
                        if r.get('leak'):
                            found = (k, r)
                            break
                        prev = k
                    if found:
                        k, r = found
                        if k - prev - 1 <= 300:        # minimal k inside the unsampled gap
                            for kk in range(prev + 1, k):
                                r2 = run(dict(name=name, prec=prec, mode=mode, k=kk, exc=exc))
                                if r2.get('leak'):
                                    k, r = kk, r2
                                    break
                        res['leaks'].append(dict(name=name, prec=prec, mode=mode, exc=exc, k=k, calls=n,
                                                 before=r['before'], after=r['after'], outcome=r['outcome']))
    finally:
        w.close()
    return res


def load_nb(path, all_effect=False):
    """(sidecar, {(file, first code line) -> function key}) for the not-bracketed functions, or
    (all_effect) for every function with a precision effect"""
    d = json.load(open(path))
    sites = {}
    for key, v in d['functions'].items():
        if all_effect or not v['bracketed']:
            sites[(os.path.realpath(os.path.join(d['summary']['repo'], v['file'])), v.get('codeline', v['line']))] = key
    return d, sites


def search(names, precs, sites, timeout=20.0, jobs=6, modes=('b', 'c'), excs=('X',), deadline=None):
    """run the schedule for the given specs; `precs` is a list or a dict spec -> list"""
    from concurrent.futures import ThreadPoolExecutor
    js = [(n, (precs[n] if isinstance(precs, dict) else precs), timeout, sites, list(modes), list(excs), deadline)
          for n in names]
    with ThreadPoolExecutor(jobs) as ex:
        return list(ex.map(entry_job, js))


def main():
    ap = argparse.ArgumentParser()
    ap.add_argument('--json', default=os.path.join(HERE, '..', 'lean', 'Gen', 'prec_skel.json'))
    ap.add_argument('--out', default=os.path.join(HERE, 'prec_dynamic_result.json'))
    ap.add_argument('--timeout', type=float, default=20.0)
    ap.add_argument('--jobs', type=int, default=6)
    ap.add_argument('--precs', default=','.join(map(str, PRECS)))
    ap.add_argument('--modes', default='b,c')
    ap.add_argument('--excs', default='X')
    ap.add_argument('--only', default='')
    ap.add_argument('--conv', action='store_true')
    ap.add_argument('--replay', default='')
    a = ap.parse_args()
    if a.conv: return conv_check()
    if a.replay: return replay(a.replay)
    d, sites = load_nb(a.json)
    names = [n for n in SPECS if not a.only or any(n.startswith(p) for p in a.only.split(','))]
    precs = [int(x) for x in a.precs.split(',')]
    jobs = [(n, precs, a.timeout, sites, a.modes.split(','), a.excs.split(',')) for n in names]
    t0 = time.time()
    from concurrent.futures import ThreadPoolExecutor
    with ThreadPoolExecutor(a.jobs) as ex:
        results = list(ex.map(entry_job, jobs))
    leaks = [l for r in results for l in r['leaks']]
    nores = [l for r in results for l in r['noresult']]
    covered = {}
    for r in results:
        for k in r['cover']: covered.setdefault(k, []).append(r['name'])
    nb = sorted(k for k, v in d['functions'].items() if not v['bracketed'])
    leaking_entries = sorted(set(l['name'] for l in leaks))
    # which flagged functions were executed by a leaking entry point
    confirmed = sorted(k for k in nb if any(e in leaking_entries for e in covered.get(k, [])))
    out = dict(entries=len(names), runs=sum(r['runs'] for r in results), seconds=round(time.time() - t0, 1),
               leaks=leaks, leaking_entries=leaking_entries, noresult=nores,
               swallowed_faults=sum(r['swallowed'] for r in results),
               normal_outcomes={r['name']: r.get('normal_outcome') for r in results},
               notBracketed_covered_by={k: covered.get(k, []) for k in nb},
               notBracketed_never_executed=[k for k in nb if k not in covered],
               notBracketed_executed_by_leaking_entry=confirmed)
    json.dump(out, open(a.out, 'w'), indent=1)
    print('entries %d  runs %d  %.0fs  leaks %d (entries: %s)  no-result %d' % (
        len(names), out['runs'], out['seconds'], len(leaks), ', '.join(leaking_entries), len(nores)))
    for l in leaks: print('  LEAK', json.dumps(l))
    print('notBracketed never executed by any spec:', out['notBracketed_never_executed'])
    bad = [n for n, o in out['normal_outcomes'].items() if o and not o.startswith('ok')]
    print('specs not returning normally in mode (a):', {n: out['normal_outcomes'][n] for n in bad})


# --------------------------------------------------------------------------------------------
# conversion-formula correspondence and replays
# --------------------------------------------------------------------------------------------
def conv_check(limit=10 ** 6, seed=1):
    """model (Lean, compiled) vs CPython for prec_to_dps / dps_to_prec, exhaustive n ≤ limit, plus
    boundary-shaped large n; and the round-trip identity on CPython."""
    from mpmath.libmp import prec_to_dps, dps_to_prec
    rnd = random.Random(seed)
    ns = list(range(-3, limit + 1))
    for e in range(20, 1000, 7):
        for _ in range(40):
            ns.append(rnd.getrandbits(e) | (1 << (e - 1)))
        ns += [2 ** e - 1, 2 ** e, 2 ** e + 1]
    from mpmath import mp
    drv = os.path.join(HERE, '..', 'lean', '.lake', 'build', 'bin', 'mpdrv')
    lines = []
    for n in ns: lines += ['prec_to_dps %d' % n, 'dps_to_prec %d' % n]
    small = list(range(-3, 3000)) + [rnd.randrange(1, 10 ** 7) for _ in range(2000)]
    for n in small: lines += ['set_prec %d' % n, 'set_dps %d' % n]
    outp = subprocess.run([drv], input='\n'.join(lines) + '\n', capture_output=True, text=True,
                          check=True).stdout.split('\n')
    bad = 0
    for i, n in enumerate(ns):
        exp = ('I:%d' % prec_to_dps(n), 'I:%d' % dps_to_prec(n))
        if (outp[2 * i], outp[2 * i + 1]) != exp:
            bad += 1
            if bad < 10: print('DISAGREE', n, outp[2 * i], outp[2 * i + 1], exp)
    off = 2 * len(ns)
    for i, n in enumerate(small):           # the two property setters of the real context
        mp.prec = n; e1 = 'P:I:%d,I:%d' % (mp.prec, mp.dps)
        mp.dps = n; e2 = 'P:I:%d,I:%d' % (mp.prec, mp.dps)
        if (outp[off + 2 * i], outp[off + 2 * i + 1]) != (e1, e2):
            bad += 1
            if bad < 10: print('DISAGREE setter', n, outp[off + 2 * i], outp[off + 2 * i + 1], e1, e2)
    mp.prec = 53
    rt = [d for d in range(1, limit + 1) if prec_to_dps(dps_to_prec(d)) != d]
    nonid = sum(1 for p in range(1, 2001) if dps_to_prec(prec_to_dps(p)) != p)
    print('conv: %d inputs (exhaustive ≤ %d + %d large), disagreements: %d; CPython round-trip '
          'failures d ≤ %d: %d; prec ≤ 2000 with dps_to_prec(prec_to_dps(p)) != p: %d'
          % (len(ns), limit, len(ns) - limit - 4, bad, limit, len(rt), nonid))
    print('setter cases (ctx.prec = n / ctx.dps = n vs St.setPrec / St.setDps): %d' % (2 * len(small)))
    return bad


def replay(which):
    from mpmath import mp
    if which == 'D8':
        mp.prec = 53
        wp = mp.workprec(100)
        with wp:
            with wp:
                pass
        print('D8: same PrecisionManager entered twice: prec 53 ->', mp.prec)
        mp.prec = 53
        with mp.workprec(100):
            with mp.workprec(100):
                pass
        print('    two distinct managers:            prec 53 ->', mp.prec)
    if which == 'D9':
        for m in ('talbot', 'stehfest', 'dehoog'):
            mp.prec = 101
            mp.invertlaplace(lambda p: 1 / (p + 1), 1.0, method=m)
            a = mp.prec
            mp.prec = 100
            def bad(p): raise Injected()
            try: mp.invertlaplace(bad, 1.0, method=m)
            except Injected: pass
            print('D9 %-8s normal return 101 -> %d ; callback raises 100 -> %d' % (m, a, mp.prec))
    if which == 'RS':
        for nm, x in (('rs_z', mp.mpf(3000)), ('rs_zeta', mp.mpc(0.5, 3000))):
            mp.prec = 53
            try:
                getattr(mp, nm)(x); o = 'ok'
            except NotImplementedError as e:
                o = 'NotImplementedError(%s)' % e
            print('RS: mp.%s(%s) from prec 53: %s -> prec %d' % (nm, x, o, mp.prec))
        mp.prec = 53
        print('    (through the wrapper) siegelz(3000) =', mp.siegelz(3000), 'prec', mp.prec)
    if which == 'NZ':
        n = run_case(dict(name='nzeros', prec=100, mode='countc', k=0))['calls']
        for k in range(1, n + 1):     # the count depends on warm caches: search in this process
            r = run_case(dict(name='nzeros', prec=100, mode='c', k=k, exc='X'))
            if r['leak']:
                print('NZ: nzeros(30) from prec 100, exception at libmp primitive call %d of %d: %s '
                      '-> (prec, dps) = %s' % (k, n, r['outcome'], r['after']))
                break
        else:
            print('NZ: no leak found')
    if which == 'D10':
        import mpmath.functions.functions as F
        mp.prec = 53
        orig = mp.exp
        n = [0]
        def bad(x):
            n[0] += 1
            if n[0] == 2: raise Injected()
            return orig(x)
        mp.exp = bad
        try:
            try: mp.lambertw(2.5)
            except Injected: pass
        finally:
            mp.exp = orig
        print('D10: lambertw(2.5), exception at the 2nd ctx.exp call inside the Halley loop: prec 53 ->', mp.prec)
        mp.prec = 53
        print('     (normal) lambertw(2.5) ->', mp.lambertw(2.5), 'prec', mp.prec)


if __name__ == '__main__':
    main()
