"""T1 correspondence for property C25: the integer-valued / number-theoretic functions of
mpmath/libmp/libintmath.py (and their mp-level wrappers) against the Lean model MpModel/IntFun.lean.

Stateful functions (ifac, ifac2, ifib, eulernum; stirling2 through ifac) are exercised with whole
*call histories* starting from fresh module state (the default-argument dictionaries are reset before
each history), so the caches are crossed at their limits (999/1000/1001 factorials, 249/250 Fibonacci,
500 Euler numbers).

Wrapper cases (`w_*`): the mp-level function at a precision below / at / above the bit size of the exact
result.  The driver answers the exact integer; the comparator demands the *exact* value when it fits in
`prec` bits, and a faithfully rounded value (round-down or round-up neighbour) otherwise; results that are
faithful but not the correctly rounded `from_int(v, prec, rnd)` are counted separately (`ulp_only`).
"""
from common import *  # noqa
from common import _bucket
import sys
if hasattr(sys, "set_int_max_str_digits"):
    sys.set_int_max_str_digits(0)


def _mods():
    mp = import_repo()
    import mpmath.libmp.libintmath as LI
    return mp, LI


FAC_EDGE = [0, 1, 2, 3, 5, 10, 20, 170, 171, 998, 999, 1000, 1001, 1002, 1003, 1200]
FIB_EDGE = [0, 1, 2, 3, 10, 63, 64, 65, 127, 128, 248, 249, 250, 251, 255, 256, 257, 500, 1023, 1024, 4096]
EUL_EDGE = [0, 1, 2, 3, 4, 6, 8, 10, 20, 30, 50, 98, 100]
EUL_BIG = [498, 499, 500, 501, 502, 504]


class IntFunOps:
    def __init__(self):
        self.mp, self.LI = _mods()

    # ---- fresh module state ----------------------------------------------------------
    def reset(self):
        LI = self.LI
        m = LI.ifac.__defaults__[0]
        m.clear(); m.update({0: 1, 1: 1})
        pr = LI.ifac2.__defaults__[0]
        pr[0].clear(); pr[0].update({0: 1})
        pr[1].clear(); pr[1].update({1: 1})
        c = LI.ifib.__defaults__[0]
        c.clear()
        e = LI.eulernum.__defaults__[0]
        e.clear(); e.update({0: 1})

    @staticmethod
    def _one(f, *a):
        try:
            v = f(*a)
        except RecursionError:
            raise
        except Exception as e:  # noqa
            if isinstance(e, KeyError):
                return "E:KeyError"
            return enc_exc(e)
        if v is None:
            return "N"
        return "I:%d" % int(v)

    @staticmethod
    def _S(d):
        return "S:%d:%d" % (len(d), sum(d.keys()))

    # ---- histories ---------------------------------------------------------------------
    def _fac_arg(self, g):
        r = g.r
        k = r.random()
        if k < 0.35:
            n, s = r.choice(FAC_EDGE), "edge"
        elif k < 0.7:
            n, s = r.randint(0, 60), "small"
        elif k < 0.85:
            n, s = r.randint(0, 1100), "mid"
        elif k < 0.92:
            n, s = -r.randint(1, 1100), "negative"
        else:
            n, s = r.randint(1100, 2500), "large"
        g.note("fac_arg", s)
        return n

    def gen_ifac_hist(self, g):
        r = g.r
        L = r.choice([1, 2, 3, 5, 8, 12])
        toks, calls = [], []
        for _ in range(L):
            if r.random() < 0.2:
                n = r.choice([r.randint(0, 40), r.randint(0, 40), r.randint(-3, 1200)])
                k = r.choice([r.randint(0, max(0, n)), r.randint(-2, 45), 999, 1000, 1001, 1002]) \
                    if r.random() < 0.9 else r.randint(900, 1100)
                if k > 60 and n > 60:
                    n = min(n, k + 3)          # keep j**n affordable
                toks.append("s2:%d:%d" % (n, k)); calls.append(("s2", n, k))
                g.note("hist_call", "stirling2")
            else:
                n = self._fac_arg(g)
                toks.append("%d" % n); calls.append(("f", n))
                g.note("hist_call", "ifac")
        LI = self.LI

        def thunk():
            self.reset()
            out = []
            for c in calls:
                if c[0] == "f":
                    out.append(self._one(LI.ifac, c[1]))
                else:
                    out.append(self._one(LI.stirling2, c[1], c[2]))
            out.append(self._S(LI.ifac.__defaults__[0]))
            return "L:" + ",".join(out)
        return "ifac_hist " + " ".join(toks), thunk, {"raw": True}

    def gen_ifac2_hist(self, g):
        r = g.r
        L = r.choice([1, 2, 3, 5, 8, 12])
        ns = []
        for _ in range(L):
            n = self._fac_arg(g)
            if r.random() < 0.3:
                n += 1
            ns.append(n)
        LI = self.LI

        def thunk():
            self.reset()
            out = [self._one(LI.ifac2, n) for n in ns]
            pr = LI.ifac2.__defaults__[0]
            return "L:" + ",".join(out + [self._S(pr[0]), self._S(pr[1])])
        return "ifac2_hist " + " ".join(map(str, ns)), thunk, {"raw": True}

    def gen_ifib_hist(self, g):
        r = g.r
        L = r.choice([1, 2, 3, 5, 8, 12])
        ns = []
        for _ in range(L):
            k = r.random()
            if k < 0.35:
                n, s = r.choice(FIB_EDGE), "edge"
            elif k < 0.7:
                n, s = r.randint(0, 300), "small"
            elif k < 0.85:
                n, s = r.randint(300, 20000), "large"
            else:
                n, s = (1 << r.randint(1, 14)) + r.choice([-1, 0, 1]), "pow2"
            if r.random() < 0.25:
                n, s = -n, "neg-" + s
            if ns and r.random() < 0.15:
                n, s = r.choice(ns), "repeat"
            g.note("fib_arg", s)
            ns.append(n)
        LI = self.LI

        def thunk():
            self.reset()
            out = [self._one(LI.ifib, n) for n in ns]
            return "L:" + ",".join(out + [self._S(LI.ifib.__defaults__[0])])
        return "ifib_hist " + " ".join(map(str, ns)), thunk, {"raw": True}

    def gen_euler_hist(self, g):
        r = g.r
        L = r.choice([1, 2, 3, 5, 8])
        ns = []
        big = 0
        for _ in range(L):
            k = r.random()
            if k < 0.45:
                n, s = r.choice(EUL_EDGE), "edge"
            elif k < 0.8:
                n, s = r.randint(0, 120), "small"
            elif k < 0.9:
                n, s = -r.randint(1, 20), "negative"
            elif big < 2 and r.random() < 0.5:
                n, s = r.choice(EUL_BIG), "cache-limit"
                big += 1
            else:
                n, s = r.randint(120, 260), "mid"
            if ns and r.random() < 0.2:
                n, s = r.choice(ns), "repeat"
                if n in EUL_BIG or n > 300:
                    big += 1
            g.note("euler_arg", s)
            ns.append(n)
        LI = self.LI

        def thunk():
            self.reset()
            out = [self._one(LI.eulernum, n) for n in ns]
            return "L:" + ",".join(out + [self._S(LI.eulernum.__defaults__[0])])
        return "euler_hist " + " ".join(map(str, ns)), thunk, {"raw": True}

    # ---- stateless ---------------------------------------------------------------------
    def gen_stirling1(self, g):
        r = g.r
        n = r.choice([r.randint(0, 30), r.randint(0, 30), r.randint(-3, 150)])
        k = r.choice([r.randint(0, max(0, n)), r.randint(-3, 35), n, n - 1, n + 1, 0, 1])
        return "stirling1 %d %d" % (n, k), (lambda: self._one(self.LI.stirling1, n, k)), {"raw": True}

    def gen_moebius(self, g):
        r = g.r
        k = r.random()
        if k < 0.3:
            n = r.randint(-5, 200)
        elif k < 0.6:
            # squarefree products of small primes
            n = 1
            for p in r.sample([2, 3, 5, 7, 11, 13, 17, 19, 23], r.randint(1, 5)):
                n *= p
            while n > 300000:
                n //= 23 if n % 23 == 0 else (19 if n % 19 == 0 else 17)
        elif k < 0.8:
            p = r.choice([2, 3, 5, 7, 11, 13, 31, 37])
            n = p * p * r.randint(1, 400)
        else:
            n = r.randint(200, 60000)
        if r.random() < 0.1:
            n = -n
        g.note("moebius_arg", "neg" if n < 0 else ("small" if n < 200 else "large"))
        return "moebius %d" % n, (lambda: self._one(self.LI.moebius, n)), {"raw": True}

    def gen_list_primes(self, g):
        r = g.r
        k = r.random()
        if k < 0.3:
            n = r.randint(-4, 60)
        elif k < 0.6:
            q = r.randint(2, 130)
            n = q * q + r.choice([-2, -1, 0, 1])
        else:
            n = r.randint(60, 30000)

        def thunk():
            try:
                return "L:" + ",".join(str(int(p)) for p in self.LI.list_primes(n))
            except Exception as e:  # noqa
                return enc_exc(e)
        return "list_primes %d" % n, thunk, {"raw": True}

    def gen_primepi(self, g):
        r = g.r
        n = r.choice([r.randint(-5, 100), r.randint(100, 100000), r.choice([1, 2, 3, 4, 9, 25, 49, 121])])
        return "primepi %d" % n, (lambda: self._one(self.mp.primepi, n)), {"raw": True}

    SPSP = [2047, 1373653, 25326001, 3215031751, 2152302898747, 3474749660383, 341550071728321,
            3825123056546413051, 318665857834031151167461, 1373653 * 3, 561, 1105, 1729, 2465, 9080191, 4759123141,
            1122004669633, 3215031751 * 47, 49 * 53, 53 * 59, 2809, 2491]

    def gen_isprime(self, g):
        r = g.r
        k = r.random()
        if k < 0.2:
            n, s = r.randint(-10, 60), "tiny"
        elif k < 0.4:
            n, s = r.randint(50, 10 ** 5) | 1, "small-odd"
        elif k < 0.55:
            n, s = r.choice(self.SPSP) + r.choice([0, 0, 0, 2, -2, 1]), "pseudoprime-table"
        elif k < 0.7:
            n, s = r.choice([1373653, 341550071728321]) + r.randint(-60, 60), "threshold"
        elif k < 0.85:
            # product of two primes > 47
            ps = [53, 59, 61, 67, 71, 101, 1009, 10007, 100003, 1000003, 999983, 2147483647]
            n, s = r.choice(ps) * r.choice(ps), "semiprime"
        else:
            n, s = r.getrandbits(r.randint(20, 90)) | 1, "random-odd"
            if r.random() < 0.5:
                # walk to the next number accepted by the real test: exercises the `true` side
                while not self.LI.isprime(n):
                    n += 2
                s = "random-prime"
        g.note("isprime_arg", s)

        def thunk():
            v = self.LI.isprime(n)
            return "B:1" if v else "B:0"
        return "isprime %d" % n, thunk, {"raw": True}

    def gen_gcd(self, g):
        r = g.r
        k = r.choice([0, 1, 2, 2, 2, 3, 4])
        c = r.choice([1, 1, 2, 6, 35, r.getrandbits(r.randint(1, 200)) | 1])
        xs = []
        for _ in range(k):
            v = c * r.choice([0, 1, r.randint(0, 50), r.getrandbits(r.randint(1, 300))])
            if r.random() < 0.3:
                v = -v
            xs.append(v)
        return "gcd " + " ".join(map(str, xs)), (lambda: self._one(self.LI.gcd, *xs)), {"raw": True}

    def gen_powmod(self, g):
        r = g.r
        n = r.getrandbits(r.randint(1, 100)) + 1
        a = r.getrandbits(r.randint(1, 110))
        d = r.choice([0, 1, 2, r.getrandbits(r.randint(1, 100))])
        return "powmod %d %d %d" % (a, d, n), (lambda: "I:%d" % pow(a, d, n)), {"raw": True}

    # ---- integer square roots: the float estimate is recomputed here exactly as the code does and
    #      handed to the model as a parameter; the theorem hypotheses on it are checked as well ------
    def _sqrt_arg(self, g, lo_bits):
        r = g.r
        bits = r.choice([lo_bits, lo_bits + 1, lo_bits + 50, 799, 800, 801, 802, 1000, 1601, r.randint(lo_bits, 3000)])
        bits = max(bits, lo_bits)
        k = r.getrandbits(bits // 2 + 1) | (1 << (bits // 2))
        c = r.random()
        if c < 0.25:
            k = (1 << (bits // 2)) + r.choice([0, 1, 2, 3])
        elif c < 0.4:
            k = (1 << (bits // 2 + 1)) - 1 - r.choice([0, 1, 2])
        x = r.choice([k * k, k * k - 1, k * k + 1, k * k + 2 * k, k * k + k, k * k + r.getrandbits(bits // 2)])
        g.note("sqrt_bits", _bucket(x.bit_length()))
        return x

    def gen_isqrt_small(self, g):
        import math
        LI = self.LI
        x = self._sqrt_arg(g, 51)
        while x < (1 << 50):
            x = self._sqrt_arg(g, 51)
        if x < LI._1_800:
            r0 = int(x ** 0.5 * 1.00000000000001) + 1
        else:
            bc = LI.bitcount(x); n = bc // 2
            r0 = int((x >> (2 * n - 100)) ** 0.5 + 2) << (n - 50)
        g.note("isqrt_hyp_r0_ge_root", r0 >= math.isqrt(x))
        return "isqrt_small %d %d" % (x, r0), (lambda: "I:%d" % LI.isqrt_small_python(x)), {"raw": True}

    def gen_sqrtrem_large(self, g):
        import math
        LI = self.LI
        x = self._sqrt_arg(g, 601)
        while x < LI._1_600:
            x = self._sqrt_arg(g, 601)
        y0 = int(LI.isqrt_fast_python(x))
        g.note("sqrtrem_hyp_y0_ge_root_minus_1", y0 + 1 >= math.isqrt(x))
        g.note("isqrt_fast_error", math.isqrt(x) - y0)

        def thunk():
            y, rem = LI.sqrtrem_python(x)
            return "P:I:%d,I:%d" % (y, rem)
        return "sqrtrem_large %d %d" % (x, y0), thunk, {"raw": True}

    # ---- mp-level wrappers -------------------------------------------------------------
    def _wprec(self, g, v_bits):
        r = g.r
        k = r.random()
        if k < 0.6 and v_bits > 3:
            p = max(1, v_bits + r.choice([-10, -2, -1, 0, 1, 2, 10]))
            g.note("wprec", "around-size")
        elif k < 0.8:
            p = r.choice([1, 2, 3, 10, 24, 53, 64, 113, 200])
            g.note("wprec", "fixed")
        else:
            p = r.randint(1, 400)
            g.note("wprec", "random")
        return p

    def _wrap(self, g, name, args, exact_v, call):
        """exact_v: value by the real raw function (only used to choose the precision)."""
        try:
            from mpmath.libmp import bitcount
            bits = bitcount(abs(int(exact_v))) if exact_v is not None else 10
        except Exception:
            bits = 10
        p = self._wprec(g, bits)
        mp = self.mp

        def thunk():
            self.reset()
            old = mp.mp.prec
            try:
                mp.mp.prec = p
                v = call()
                if isinstance(v, int):
                    return "I:%d" % v
                if hasattr(v, "_mpf_"):
                    return enc_mpf(v._mpf_)
                return "?:" + repr(v)
            except Exception as e:  # noqa
                return enc_exc(e)
            finally:
                mp.mp.prec = old
        return "%s %s %d n" % (name, " ".join(map(str, args)), p), thunk, {"raw": True, "wrap": p}

    def _safe(self, f, *a):
        try:
            return f(*a)
        except Exception:
            return None

    def gen_w_fac(self, g):
        n = g.r.choice([g.r.randint(0, 30), g.r.randint(0, 200), g.r.choice(FAC_EDGE), g.r.randint(0, 1500)])
        self.reset()
        return self._wrap(g, "w_fac", [n], self.LI.ifac(n), lambda: self.mp.fac(n))

    def gen_w_fac2(self, g):
        n = g.r.choice([g.r.randint(0, 30), g.r.randint(0, 200), g.r.randint(0, 600)])
        self.reset()
        return self._wrap(g, "w_fac2", [n], self.LI.ifac2(n), lambda: self.mp.fac2(n))

    def gen_w_fib(self, g):
        n = g.r.choice([g.r.randint(0, 100), g.r.choice(FIB_EDGE), g.r.randint(0, 3000)])
        if g.r.random() < 0.2:
            n = -n
        self.reset()
        return self._wrap(g, "w_fib", [n], self.LI.ifib(n), lambda: self.mp.fib(n))

    def gen_w_euler(self, g):
        n = g.r.choice([g.r.randint(0, 99), g.r.randint(0, 99), g.r.choice([96, 98, 99, 100, 101, 102]), g.r.randint(100, 160)])
        self.reset()
        if g.r.random() < 0.15:
            # exact=True returns a Python int: compare through a huge precision
            return self._wrap_exact(g, "w_euler", [n], lambda: self.mp.eulernum(n, exact=True))
        return self._wrap(g, "w_euler", [n], self._safe(self.LI.eulernum, n), lambda: self.mp.eulernum(n))

    def gen_w_stirling1(self, g):
        r = g.r
        n = r.randint(0, 60); k = r.choice([r.randint(0, n), r.randint(0, 65), n, 1])
        if r.random() < 0.15:
            return self._wrap_exact(g, "w_stirling1", [n, k], lambda: self.mp.stirling1(n, k, exact=True))
        return self._wrap(g, "w_stirling1", [n, k], self._safe(self.LI.stirling1, n, k), lambda: self.mp.stirling1(n, k))

    def gen_w_stirling2(self, g):
        r = g.r
        n = r.randint(0, 60); k = r.choice([r.randint(0, n), r.randint(0, 65), n, 1, 2])
        if r.random() < 0.15:
            return self._wrap_exact(g, "w_stirling2", [n, k], lambda: self.mp.stirling2(n, k, exact=True))
        self.reset()
        return self._wrap(g, "w_stirling2", [n, k], self._safe(self.LI.stirling2, n, k), lambda: self.mp.stirling2(n, k))

    # ---- functions without a Lean model (float code paths): judged by the independent oracle ------------
    def _fprec(self, g, bits):
        return self._wprec(g, max(bits, 1))

    def gen_w_binomial(self, g):
        import intfun_oracle as O
        r = g.r
        n = r.choice([r.randint(0, 40), r.randint(0, 200), r.randint(-30, 0), r.choice([52, 53, 64, 100, 128, 170, 171])])
        k = r.choice([r.randint(0, max(0, abs(n))), n // 2 if n > 0 else 2, 0, 1, n, n + 1, r.randint(0, 12)])
        k = max(k, 0) if n < 0 else k
        if n >= 0 and r.random() < 0.05:
            k = -r.randint(1, 3)
        if r.random() < 0.06:
            # arguments just above 2^(2*prec): the `prec=2*ctx.prec` additions inside binomial (finding D16)
            p = r.randint(1, 7)
            n = (1 << (2 * p)) + r.randint(1, 6)
            k = r.choice([n // 2, 2, 3, n - 2])
            g.note("binomial_arg", "above-2^(2prec)")
            return "w_binomial %d %d %d n" % (n, k, p), None, {"wrap": p}
        g.note("binomial_arg", "negative-n" if n < 0 else "regular")
        p = self._fprec(g, abs(O.binomial(n, k)).bit_length())
        return "w_binomial %d %d %d n" % (n, k, p), None, {"wrap": p}

    def gen_w_rf(self, g, name="w_rf"):
        import intfun_oracle as O
        r = g.r
        x = r.choice([r.randint(0, 30), r.randint(1, 100), r.randint(-20, -1), 0, 1])
        n = r.choice([r.randint(0, 20), r.randint(0, 60), 0, 1, 2])
        v = O.rf(x, n) if name == "w_rf" else O.ff(x, n)
        p = self._fprec(g, abs(v).bit_length())
        return "%s %d %d %d n" % (name, x, n, p), None, {"wrap": p}

    def gen_w_ff(self, g):
        return self.gen_w_rf(g, "w_ff")

    def gen_w_bell(self, g):
        import intfun_oracle as O
        r = g.r
        n = r.choice([r.randint(0, 12), r.randint(0, 40), r.randint(0, 90)])
        p = self._fprec(g, O.bell(n).bit_length())
        return "w_bell %d %d n" % (n, p), None, {"wrap": p}

    def gen_w_cyclotomic(self, g):
        import intfun_oracle as O
        r = g.r
        n = r.choice([r.randint(0, 12), r.randint(0, 60), r.choice([1, 2, 3, 4, 6, 8, 9, 12, 15, 30, 105])])
        x = r.choice([r.randint(-10, 10), 0, 1, -1, 2, -2, 10, r.randint(-1000, 1000)])
        p = self._fprec(g, abs(O.cyclotomic(n, x)).bit_length())
        return "w_cyclotomic %d %d %d n" % (n, x, p), None, {"wrap": p}

    def gen_bernfrac(self, g):
        r = g.r
        k = r.random()
        if k < 0.5:
            n = r.randint(0, 60)
        elif k < 0.9:
            n = r.randint(0, 400)
        else:
            n = r.choice([r.randint(400, 1200), 1000, 1500, 2000, 2998, 3000, 3002])
        g.note("bernfrac_arg", _bucket(max(n, 1)))
        return "bernfrac %d" % n, None, {}

    def gen_bern_hist(self, g):
        r = g.r
        L = r.choice([1, 2, 3, 5, 8])
        base = r.choice([r.randint(0, 30), r.randint(0, 120), r.randint(0, 400)])
        toks = []
        for _ in range(L):
            n = max(0, base + r.choice([0, 0, 2, -2, 4, 10, 12, 14, 1, r.randint(-20, 40)]))
            p = r.choice([r.choice([10, 24, 53, 64, 113, 200]), r.randint(1, 300), 31, 32, 33, 63, 64, 65])
            toks.append("%d:%d" % (n, p))
        return "bern_hist " + " ".join(toks), None, {}

    def gen_mangoldt(self, g):
        r = g.r
        k = r.random()
        small = [2, 3, 5, 7, 11, 13, 31, 37, 41, 43, 47, 53, 101]
        big = [1009, 10007, 100003, 1000003, 2147483647, 1000000007, 999999999989, 99999999999973]
        if k < 0.25:
            n, s = r.randint(-3, 300), "small"
        elif k < 0.55:
            pp = r.choice(small + big)
            e = r.randint(1, max(1, int(100 // max(1, pp.bit_length()))))
            n, s = pp ** e, "prime-power"
        elif k < 0.7:
            pp = r.choice(small + big); e = r.randint(1, 3)
            n, s = pp ** e + r.choice([-2, -1, 1, 2]), "near-prime-power"
        elif k < 0.85:
            n, s = r.choice(small + big) ** r.randint(1, 2) * r.choice(small + big), "two-primes"
        else:
            q = r.choice([53 * 59, 1009 * 1013, 10007 * 10009]); e = r.randint(2, 4)
            n, s = q ** e, "composite-power"
        g.note("mangoldt_arg", s)
        return "mangoldt %d" % n, None, {}

    def _wrap_exact(self, g, name, args, call):
        g.note("wprec", "exact=True")
        line, thunk, meta = self._wrap(g, name, args, None, call)
        t = line.split()
        t[-2] = "0"                      # precision 0 in the request line <=> exact=True (replayable)
        meta["exact"] = True
        meta["wrap"] = 0
        return " ".join(t), thunk, meta

    # ---- re-run a request line on the real code (generation, corpus and replay all go through here) ----
    def impl_of_line(self, line):
        """the answer of the REAL code to a request line, from fresh module state; None if the op is unknown"""
        LI, mp = self.LI, self.mp
        t = line.split()
        if not t:
            return None
        op, a = t[0], t[1:]
        try:
            if op == "ifac_hist":
                self.reset()
                out = []
                for x in a:
                    if x.startswith("s2:"):
                        _, n, k = x.split(":")
                        out.append(self._one(LI.stirling2, int(n), int(k)))
                    else:
                        out.append(self._one(LI.ifac, int(x)))
                out.append(self._S(LI.ifac.__defaults__[0]))
                return "L:" + ",".join(out)
            if op == "ifac2_hist":
                self.reset()
                out = [self._one(LI.ifac2, int(x)) for x in a]
                pr = LI.ifac2.__defaults__[0]
                return "L:" + ",".join(out + [self._S(pr[0]), self._S(pr[1])])
            if op == "ifib_hist":
                self.reset()
                out = [self._one(LI.ifib, int(x)) for x in a]
                return "L:" + ",".join(out + [self._S(LI.ifib.__defaults__[0])])
            if op == "euler_hist":
                self.reset()
                out = [self._one(LI.eulernum, int(x)) for x in a]
                return "L:" + ",".join(out + [self._S(LI.eulernum.__defaults__[0])])
            if op == "stirling1" and len(a) == 2:
                return self._one(LI.stirling1, int(a[0]), int(a[1]))
            if op == "moebius" and len(a) == 1:
                return self._one(LI.moebius, int(a[0]))
            if op == "list_primes" and len(a) == 1:
                try:
                    return "L:" + ",".join(str(int(q)) for q in LI.list_primes(int(a[0])))
                except Exception as e:  # noqa
                    return enc_exc(e)
            if op == "primepi" and len(a) == 1:
                return self._one(mp.primepi, int(a[0]))
            if op == "isprime" and len(a) == 1:
                return "B:1" if LI.isprime(int(a[0])) else "B:0"
            if op == "gcd":
                return self._one(LI.gcd, *[int(x) for x in a])
            if op == "powmod" and len(a) == 3:
                return "I:%d" % pow(int(a[0]), int(a[1]), int(a[2]))
            if op == "isqrt_small" and len(a) == 2:
                return "I:%d" % LI.isqrt_small_python(int(a[0]))
            if op == "sqrtrem_large" and len(a) == 2:
                y, rem = LI.sqrtrem_python(int(a[0]))
                return "P:I:%d,I:%d" % (y, rem)
            if op in FLOAT_ONLY and len(a) == FLOAT_ONLY[op][1] + 2 and a[-1] == "n":
                args = [int(x) for x in a[:-2]]
                prec = int(a[-2])
                old = mp.mp.prec
                try:
                    mp.mp.prec = prec
                    v = _timed(lambda: getattr(mp, FLOAT_ONLY[op][0])(*args))
                    if hasattr(v, "_mpf_"):
                        return enc_mpf(v._mpf_)
                    if isinstance(v, int):
                        return "I:%d" % v
                    return "?:" + repr(v)[:80]
                except _Timeout:
                    return "T:timeout"
                except Exception as e:  # noqa
                    return enc_exc(e)
                finally:
                    mp.mp.prec = old
            if op == "bernfrac" and len(a) == 1:
                import mpmath.libmp.gammazeta as GZ
                try:
                    GZ.bernoulli_cache.clear()
                    pq = _timed(lambda: GZ.bernfrac(int(a[0])), 60)
                    return "P:I:%d,I:%d" % (int(pq[0]), int(pq[1]))
                except _Timeout:
                    return "T:timeout"
                except Exception as e:  # noqa
                    return enc_exc(e)
            if op == "bern_hist":
                import mpmath.libmp.gammazeta as GZ
                GZ.bernoulli_cache.clear()
                out = []
                old = mp.mp.prec
                try:
                    for x in a:
                        n, pr = x.split(":")
                        mp.mp.prec = int(pr)
                        try:
                            v = _timed(lambda: mp.bernoulli(int(n)))
                            out.append(enc_mpf(v._mpf_))
                        except _Timeout:
                            out.append("T:timeout")
                        except Exception as e:  # noqa
                            out.append(enc_exc(e))
                finally:
                    mp.mp.prec = old
                    GZ.bernoulli_cache.clear()
                return "L:" + ",".join(out)
            if op == "mangoldt" and len(a) == 1:
                old = mp.mp.prec
                try:
                    mp.mp.prec = 53
                    n = int(a[0])
                    v = _timed(lambda: mp.mangoldt(n))
                    if v == 0:
                        return "I:0"
                    q = int(mp.nint(mp.exp(v)))
                    # exp(ln p) at 53 bits identifies p only while p < 2^50; otherwise search the exact root
                    if mp.ln(q) != v:
                        import intfun_oracle as _O
                        for k in range(1, n.bit_length() + 1):
                            r = _O._iroot(n, k)
                            if r ** k == n and mp.ln(r) == v:
                                q = r
                                break
                        else:
                            return "?:mangoldt value %s is not ln of a root of n" % mp.nstr(v, 17)
                    return "I:%d" % q
                except _Timeout:
                    return "T:timeout"
                except Exception as e:  # noqa
                    return enc_exc(e)
                finally:
                    mp.mp.prec = old
            if op in WRAPPERS and len(a) == WRAPPERS[op][1] + 2 and a[-1] == "n":
                args = [int(x) for x in a[:-2]]
                prec = int(a[-2])
                fname = WRAPPERS[op][0]
                self.reset()
                old = mp.mp.prec
                try:
                    if prec == 0:
                        v = getattr(mp, fname)(*args, exact=True)
                    else:
                        mp.mp.prec = prec
                        v = getattr(mp, fname)(*args)
                    if isinstance(v, int):
                        return "I:%d" % v
                    if hasattr(v, "_mpf_"):
                        return enc_mpf(v._mpf_)
                    return "?:" + repr(v)
                except Exception as e:  # noqa
                    return enc_exc(e)
                finally:
                    mp.mp.prec = old
        except ValueError:
            return "?:bad-op"
        return "?:bad-op"

    # ---- malformed stream --------------------------------------------------------------
    def gen_malformed(self, g):
        r = g.r
        line = r.choice(["ifac_hist x", "ifac_hist s2:1", "stirling1 3", "moebius", "isprime 1.5", "gcd a b",
                         "w_fac 3 10 q", "euler_hist 2 z", "list_primes", "w_stirling2 1 2 3"])
        return line, (lambda: "?:bad-op"), {"raw": True}


# driver op -> (mp-level function name, number of integer arguments)
FLOAT_ONLY = {"w_binomial": ("binomial", 2), "w_rf": ("rf", 2), "w_ff": ("ff", 2), "w_bell": ("bell", 1),
              "w_cyclotomic": ("cyclotomic", 2)}
# ops for which the Lean driver has no counterpart: judged by the independent oracle only
ORACLE_ONLY = set(FLOAT_ONLY) | {"bernfrac", "bern_hist", "mangoldt"}
CALL_TIMEOUT = 20.0      # seconds; a timeout is "no result" (T:timeout), never a pass


class _Timeout(Exception):
    pass


def _timed(f, seconds=CALL_TIMEOUT):
    import signal

    def h(sig, frm):
        raise _Timeout()
    old = signal.signal(signal.SIGALRM, h)
    signal.setitimer(signal.ITIMER_REAL, seconds)
    try:
        return f()
    finally:
        signal.setitimer(signal.ITIMER_REAL, 0)
        signal.signal(signal.SIGALRM, old)


WRAPPERS = {"w_fac": ("fac", 1), "w_fac2": ("fac2", 1), "w_fib": ("fib", 1), "w_euler": ("eulernum", 1),
            "w_stirling1": ("stirling1", 2), "w_stirling2": ("stirling2", 2)}

ALL_OPS = ["ifac_hist", "ifac2_hist", "ifib_hist", "euler_hist", "stirling1", "moebius", "list_primes", "primepi",
           "isprime", "gcd", "powmod", "w_fac", "w_fac2", "w_fib", "w_euler", "w_stirling1", "w_stirling2", "malformed",
           "isqrt_small", "sqrtrem_large",
           "w_binomial", "w_rf", "w_ff", "w_bell", "w_cyclotomic", "bernfrac", "bern_hist", "mangoldt"]
WEIGHTS = [8, 6, 8, 3, 8, 8, 5, 3, 10, 8, 3, 6, 4, 6, 4, 5, 5, 1, 4, 4,
           5, 3, 3, 3, 4, 3, 3, 4]


def compare(impl, model, meta):
    """returns 'ok' | 'ulp_only' | 'DISAGREE'.  For the float wrappers the model answers the CORRECTLY rounded value and
    the exact integer; a real result that differs from the former but satisfies the property text (exact when it
    fits, within one unit in the last place otherwise — decided by intfun_oracle.float_ok, which uses nothing from
    mpmath) is 'ulp_only', not a disagreement."""
    if meta.get("op") in ORACLE_ONLY and model == "?:bad-op":
        return "ok"                     # no Lean counterpart: the property itself is decided by intfun_oracle.decide
    if "wrap" not in meta:
        return "ok" if impl == model else "DISAGREE"
    import intfun_oracle
    p = meta["wrap"]
    if not model.startswith("P:"):
        return "ok" if impl == model else "DISAGREE"
    rounded, exact = model[2:].split(",")
    v = int(exact[2:])
    if meta.get("exact") or p == 0:
        return "ok" if impl == "I:%d" % v else "DISAGREE"
    if impl == rounded:
        return "ok"
    if impl.count(":") == 3 and not impl.startswith(("E:", "I:", "?")) and intfun_oracle.float_ok(impl, v, p)[0]:
        return "ulp_only"
    return "DISAGREE"


def run_t1(ncases, seed, ops=None, weights=None):
    co = IntFunOps()
    g = Gen(seed)
    ops = ops or ALL_OPS
    if weights is None:
        weights = [WEIGHTS[ALL_OPS.index(o)] for o in ops]
    lines, impl_out, metas, opnames = [], [], [], []
    for i in range(ncases):
        op = g.r.choices(ops, weights)[0]
        g.note("op", op)
        line, thunk, meta = getattr(co, "gen_" + op)(g)
        meta["op"] = op
        if "wrap" in meta:
            meta["wrap"] = int(line.split()[-2])
        lines.append(line); impl_out.append(co.impl_of_line(line)); metas.append(meta); opnames.append(op)
    co.reset()
    model_out = Driver().ask(lines)
    dis, per_op, ulp_only = [], {}, []
    for i, (a, b) in enumerate(zip(impl_out, model_out)):
        d = per_op.setdefault(opnames[i], [0, 0, 0])
        d[0] += 1
        c = compare(a, b, metas[i])
        if c == "ulp_only":
            d[2] += 1
            ulp_only.append({"index": i, "op": opnames[i], "line": lines[i], "impl": a, "model": b[:120]})
        elif c != "ok":
            d[1] += 1
            dis.append({"index": i, "op": opnames[i], "line": lines[i], "impl": a[:300], "model": b[:300]})
    return {"per_op": per_op, "lines": lines, "impl": impl_out, "model": model_out, "ops": opnames, "ulp_only": ulp_only}, dis, g


if __name__ == "__main__":
    import sys as _s
    verbose = "-v" in _s.argv
    _s.argv = [a for a in _s.argv if a != "-v"]
    n = int(_s.argv[1]) if len(_s.argv) > 1 else 3000
    seed = int(_s.argv[2]) if len(_s.argv) > 2 else 0
    ops = _s.argv[3].split(",") if len(_s.argv) > 3 else None
    t = time.time()
    st, dis, g = run_t1(n, seed, ops)
    print("cases", n, "seed", seed, "disagreements", len(dis), "ulp_only", len(st["ulp_only"]), "time %.1f" % (time.time() - t))
    for k, v in sorted(st["per_op"].items()):
        print("  %-12s cases %5d  disagree %d  ulp_only %d" % (k, v[0], v[1], v[2]))
    if verbose:
        print(json.dumps(g.hist, indent=1, sort_keys=True, default=str))
    for d in dis[:15]:
        print(d)
    for d in st["ulp_only"][:5]:
        print("ulp_only:", d)
