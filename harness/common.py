"""Shared machinery of the mpmath verification harness (see DESIGN.md §2).

* imports mpmath from /repo's current working tree (never a copy),
* builds the Lean package and talks to the compiled model driver `mpdrv` over a line protocol,
* structured case generators (all randomness from one random.Random(VERIF_SEED)),
* evidence writer, known-findings handling, VIOLATION reporting.
"""
import os, sys, json, time, random, subprocess, hashlib, re, shutil

VERIF = os.path.dirname(os.path.dirname(os.path.abspath(__file__)))
REPO = os.environ.get("MPMATH_REPO", "/repo")
LEAN_DIR = os.path.join(VERIF, "lean")
EVID_DIR = os.path.join(VERIF, "evidence")
REPLAY_DIR = os.path.join(VERIF, "replays")
CORPUS_DIR = os.path.join(VERIF, "corpus")
MPDRV = os.path.join(LEAN_DIR, ".lake", "build", "bin", "mpdrv")

os.environ.setdefault("MPMATH_NOGMPY", "1")
if REPO not in sys.path:
    sys.path.insert(0, REPO)


def import_repo():
    import mpmath
    f = os.path.realpath(mpmath.__file__)
    assert f.startswith(os.path.realpath(REPO) + os.sep), "mpmath imported from %s, not from %s" % (f, REPO)
    return mpmath


def seed_from_env():
    try:
        return int(os.environ.get("VERIF_SEED", "0"))
    except ValueError:
        return 0


def tier_from_env(default="quick"):
    t = os.environ.get("VERIF_TIER", default)
    return t if t in ("quick", "thorough") else default


# --------------------------------------------------------------------------------------
# Lean side
# --------------------------------------------------------------------------------------

class InfraError(Exception):
    """lake / lean missing, timeouts: exit 2, never a VIOLATION."""


def run(cmd, cwd=None, timeout=3600, env=None):
    try:
        p = subprocess.run(cmd, cwd=cwd, timeout=timeout, env=env, stdout=subprocess.PIPE,
                           stderr=subprocess.STDOUT, text=True)
    except subprocess.TimeoutExpired as e:
        raise InfraError("timeout: %r" % (cmd,))
    except FileNotFoundError as e:
        raise InfraError("missing tool: %r" % (cmd,))
    return p.returncode, p.stdout


def lake_build(targets, timeout=3600):
    """Build Lean targets. Returns (ok, log)."""
    if shutil.which("lake") is None:
        raise InfraError("lake not on PATH")
    rc, out = run(["lake", "build"] + list(targets), cwd=LEAN_DIR, timeout=timeout)
    return rc == 0, out


FORBIDDEN = re.compile(r"\b(sorry|admit|native_decide|bv_decide|implemented_by|unsafe)\b|^\s*axiom\s|maxHeartbeats\s+0\b")


def strip_lean_comments(src):
    # remove block comments (nested) and line comments
    out = []
    i = 0
    depth = 0
    n = len(src)
    while i < n:
        if src.startswith("/-", i):
            depth += 1
            i += 2
        elif depth and src.startswith("-/", i):
            depth -= 1
            i += 2
        elif depth:
            if src[i] == "\n":
                out.append("\n")
            i += 1
        elif src.startswith("--", i):
            while i < n and src[i] != "\n":
                i += 1
        else:
            out.append(src[i])
            i += 1
    return "".join(out)


def grep_forbidden(dirs=("MpModel", "MpProofs", "Props", "Gen")):
    hits = []
    for d in dirs:
        base = os.path.join(LEAN_DIR, d)
        for root, _, files in os.walk(base):
            for fn in files:
                if fn.endswith(".lean"):
                    p = os.path.join(root, fn)
                    src = strip_lean_comments(open(p).read())
                    for k, line in enumerate(src.split("\n"), 1):
                        if FORBIDDEN.search(line):
                            hits.append("%s:%d: %s" % (os.path.relpath(p, LEAN_DIR), k, line.strip()))
    return hits


ALLOWED_AXIOMS = {"propext", "Classical.choice", "Quot.sound"}


def audit_axioms(module, theorems, timeout=1800):
    """#print axioms for every theorem. Returns dict name -> list of axioms, or raises InfraError.
    A theorem that does not exist shows up with value None."""
    os.makedirs(os.path.join(LEAN_DIR, ".lake", "audit"), exist_ok=True)
    path = os.path.join(LEAN_DIR, ".lake", "audit", "Audit_%s.lean" % module.replace(".", "_"))
    with open(path, "w") as f:
        f.write("import %s\n" % module)
        for t in theorems:
            f.write("#print axioms %s\n" % t)
    rc, out = run(["lake", "env", "lean", path], cwd=LEAN_DIR, timeout=timeout)
    res = {t: None for t in theorems}
    # messages look like: "'Mp.foo' depends on axioms: [propext, Quot.sound]" or "'Mp.foo' does not depend on any axioms"
    for m in re.finditer(r"'([^']+)' depends on axioms: \[([^\]]*)\]", out):
        res[m.group(1)] = [a.strip() for a in m.group(2).replace("\n", " ").split(",") if a.strip()]
    for m in re.finditer(r"'([^']+)' does not depend on any axioms", out):
        res[m.group(1)] = []
    return res, out


class Driver:
    """A running `mpdrv` process; batch mode: send all lines, read all answers."""

    def __init__(self):
        if not os.path.exists(MPDRV):
            raise InfraError("mpdrv not built")

    def ask(self, lines, timeout=3600):
        if not lines:
            return []
        data = "\n".join(lines) + "\n"
        try:
            p = subprocess.run([MPDRV], input=data, stdout=subprocess.PIPE, stderr=subprocess.PIPE,
                               text=True, timeout=timeout)
        except subprocess.TimeoutExpired:
            raise InfraError("mpdrv timeout")
        if p.returncode != 0:
            raise InfraError("mpdrv exited %d: %s" % (p.returncode, p.stderr[-500:]))
        out = p.stdout.split("\n")
        if out and out[-1] == "":
            out.pop()
        if len(out) != len(lines):
            raise InfraError("mpdrv answered %d lines for %d requests" % (len(out), len(lines)))
        return out


# --------------------------------------------------------------------------------------
# wire format
# --------------------------------------------------------------------------------------

def enc_mpf(t):
    s, m, e, b = t
    return "%d:%x:%d:%d" % (int(s), int(m), int(e), int(b))


def dec_mpf(s):
    a, b, c, d = s.split(":")
    return (int(a), int(b, 16), int(c), int(d))


ERRKINDS = ["ZeroDivisionError", "ComplexResult", "ValueError", "NotImplementedError", "OverflowError", "TypeError"]


def enc_exc(e):
    from mpmath.libmp import ComplexResult
    if isinstance(e, ComplexResult):
        return "E:ComplexResult"
    for k in ("ZeroDivisionError", "NotImplementedError", "OverflowError", "ValueError", "TypeError"):
        if isinstance(e, getattr(__builtins__, k) if not isinstance(__builtins__, dict) else __builtins__[k]):
            return "E:" + k
    return "E:Other:" + type(e).__name__


def enc_result(v):
    if isinstance(v, bool):
        return "B:1" if v else "B:0"
    if isinstance(v, int):
        return "I:%d" % v
    if isinstance(v, tuple) and len(v) == 4 and not isinstance(v[0], tuple):
        return enc_mpf(v)
    if isinstance(v, tuple) and len(v) == 2:
        return "P:%s,%s" % (enc_result(v[0]), enc_result(v[1]))
    return "?:" + repr(v)


# --------------------------------------------------------------------------------------
# generators
# --------------------------------------------------------------------------------------

PRECS = [1, 2, 3, 4, 5, 10, 24, 53, 64, 100, 113, 200, 1000]
RNDS = ["n", "f", "c", "u", "d"]


class Gen:
    def __init__(self, seed):
        self.r = random.Random(seed)
        self.hist = {}   # distribution bookkeeping

    def note(self, key, val):
        d = self.hist.setdefault(key, {})
        d[val] = d.get(val, 0) + 1

    def prec(self):
        r = self.r
        if r.random() < 0.7:
            p = r.choice(PRECS)
        else:
            p = r.randint(1, 300)
        self.note("prec", p if p in PRECS else "other")
        return p

    def rnd(self):
        x = self.r.choice(RNDS)
        self.note("rnd", x)
        return x

    def nbits(self, prec=None):
        r = self.r
        c = r.random()
        if prec is not None and c < 0.45:
            # lengths around the precision: the interesting boundary
            # (+299..302: the discarded part crosses the 300-bit boundary of libmpf's h_mask table)
            n = max(1, prec + r.choice([-3, -2, -1, 0, 1, 2, 3, 4, 5, 6, 7, prec, 2 * prec, 17, 299, 300, 301, 302]))
        elif c < 0.75:
            n = r.randint(1, 80)
        elif c < 0.95:
            n = r.randint(1, 400)
        else:
            n = r.randint(400, 2500)
        return n

    def man(self, nbits, prec=None):
        """A positive integer with exactly nbits bits, structured shapes."""
        r = self.r
        top = 1 << (nbits - 1)
        k = r.random()
        if nbits == 1:
            shape, m = "one", 1
        elif k < 0.30:
            shape, m = "random", top | r.getrandbits(nbits - 1)
        elif k < 0.38:
            shape, m = "pow2", top
        elif k < 0.46:
            shape, m = "pow2+1", top | 1
        elif k < 0.54:
            shape, m = "allones", (1 << nbits) - 1
        elif k < 0.60:
            shape, m = "allones-1", ((1 << nbits) - 1) ^ r.choice([1, 2, 1 << r.randrange(nbits - 1)])
        elif prec is not None and nbits > prec and k < 0.82:
            # tie / near-tie / carry patterns at precision prec
            n = nbits - prec
            hi = (1 << (prec - 1)) | r.getrandbits(prec - 1) if prec > 1 else 1
            if r.random() < 0.3:
                hi = (1 << prec) - 1        # carry out of the top bit when rounded up
            half = 1 << (n - 1)
            quarter = half >> 1
            lo = r.choice([0, 1, half - 1 if n > 1 else 0, half, half + 1 if n > 1 else half, (1 << n) - 1,
                           quarter, half + quarter, half + quarter - 1 if n > 2 else half, half + quarter + 1 if n > 2 else half,
                           half | (1 << r.randrange(n))])
            shape, m = "tie-family", (hi << n) | (lo & ((1 << n) - 1))
        elif k < 0.90:
            # one followed by zeros then a low part
            low = r.getrandbits(r.randint(1, max(1, min(8, nbits - 1))))
            shape, m = "sparse", top | low
        else:
            # random with a long run of zeros / ones in the middle
            a = r.randint(0, nbits - 1)
            b = r.randint(a, nbits - 1)
            m = top | r.getrandbits(nbits - 1)
            mask = ((1 << (b - a)) - 1) << a
            if r.random() < 0.5:
                m |= mask
            else:
                m &= ~mask
                m |= top
            shape = "runs"
        self.note("man_shape", shape)
        return m

    def boundary_man(self, prec):
        """rounding boundary, enumerated: n discarded bits (around 1, 64, the 300-bit boundary of libmpf's h_mask table, 1000), a
        prec-bit kept part of either parity, discarded part exactly 0 / 1/4 / 1/2 / 3/4 ulp and one unit next to each"""
        r = self.r
        n = r.choice([1, 2, 3, 8, 64, 298, 299, 300, 301, 302, 1000])
        hi = ((1 << (prec - 1)) | r.getrandbits(prec - 1)) if prec > 1 else 1
        hi = (hi & ~1) | r.randint(0, 1)
        h_, q_ = 1 << (n - 1), (1 << (n - 1)) >> 1
        lo = r.choice([0, 1, q_ - 1, q_, q_ + 1, h_ - 1, h_, h_ + 1, h_ + q_ - 1, h_ + q_, h_ + q_ + 1, (1 << n) - 1]) % (1 << n)
        self.note("man_shape", "rounding-boundary")
        return (hi << n) | max(lo, 0)

    def exp(self, big=True):
        r = self.r
        k = r.random()
        if k < 0.5:
            return r.randint(-70, 70)
        if k < 0.8:
            return r.randint(-1200, 1200)
        if k < 0.9 or not big:
            return r.choice([-1, 0, 1, -53, 52, -1074, 1023, 100, 101, -100, -101])
        return r.choice([-1, 1]) * r.randint(10 ** 6, 10 ** 18)

    def finite(self, prec=None, allow_zero=True, big_exp=True, canonical=True):
        from mpmath.libmp import from_man_exp, fzero
        r = self.r
        if allow_zero and r.random() < 0.03:
            self.note("operand", "zero")
            return fzero
        nb = self.nbits(prec)
        m = self.man(nb, prec)
        e = self.exp(big_exp)
        if r.random() < 0.5:
            m = -m
        self.note("operand", "finite")
        self.note("nbits", _bucket(nb))
        return from_man_exp(m, e)

    def special(self):
        from mpmath.libmp import fnan, finf, fninf, fzero
        x = self.r.choice([fnan, finf, fninf, fzero])
        self.note("operand", "special")
        return x

    def mpf(self, prec=None, special_p=0.04, **kw):
        if self.r.random() < special_p:
            return self.special()
        return self.finite(prec, **kw)

    def near(self, x, prec=None):
        """A finite value related to x: same exponent, neighbouring magnitude, shifted copy."""
        from mpmath.libmp import from_man_exp
        r = self.r
        s, m, e, b = x
        if not m:
            return self.finite(prec, big_exp=False)
        k = r.random()
        sg = -1 if (r.random() < 0.5) else 1
        if k < 0.25:
            return from_man_exp(sg * self.man(max(1, b + r.randint(-2, 2)), prec), e)
        if k < 0.5:
            return from_man_exp(sg * (m + r.choice([-2, -1, 1, 2])), e)
        if k < 0.75:
            return from_man_exp(sg * self.man(self.nbits(prec), prec), e + r.choice([-1, 1, -2, 2, b, -b]))
        return from_man_exp(sg * m, e + r.randint(-3, 3))


def _bucket(n):
    for b in (1, 2, 4, 8, 16, 32, 53, 64, 128, 256, 512, 1024, 4096):
        if n <= b:
            return "<=%d" % b
    return ">4096"


# --------------------------------------------------------------------------------------
# evidence / findings / violations
# --------------------------------------------------------------------------------------

def load_known_findings():
    p = os.path.join(VERIF, "known_findings.json")
    if not os.path.exists(p):
        return []
    return json.load(open(p))


def write_evidence(pid, tier, seed, level, coverage, wall_s, violations=0, assumptions=None):
    os.makedirs(EVID_DIR, exist_ok=True)
    ev = {
        "property_id": pid, "tier": tier, "seed": int(seed), "level": level,
        "coverage": coverage, "wall_s": round(float(wall_s), 3), "violations": int(violations),
        "assumptions": assumptions or [],
    }
    tmp = os.path.join(EVID_DIR, pid + ".json.tmp")
    with open(tmp, "w") as f:
        json.dump(ev, f, indent=1, sort_keys=True, default=str)
    os.replace(tmp, os.path.join(EVID_DIR, pid + ".json"))


def write_replay(pid, payload):
    os.makedirs(REPLAY_DIR, exist_ok=True)
    blob = json.dumps(payload, indent=1, sort_keys=True, default=str)
    h = hashlib.sha1(blob.encode()).hexdigest()[:10]
    p = os.path.join(REPLAY_DIR, "%s_%s.json" % (pid, h))
    with open(p, "w") as f:
        f.write(blob)
    return p
