"""Mutation check for the C25 correspondence harness (intfun_ops.py).

Each mutation re-defines one function of mpmath.libmp.libintmath IN MEMORY (source text of the real
function with one realistic edit, exec'd into the module namespace; /repo is never touched), runs the
T1 correspondence for the affected ops and reports how many disagreements the harness sees.
A mutation is CAUGHT if the count is > 0; the unmutated code must give 0.
"""
import inspect, sys, textwrap
from common import *  # noqa
import intfun_ops as IO

MUTATIONS = [
    # (name, function, old text, new text, ops to run)
    ("ifac: store only the final value (memo no longer contiguous)", "ifac",
     "        if k <= MAX:\n            memo[k] = p\n        k += 1\n    return p",
     "        k += 1\n    if n <= MAX:\n        memo[n] = p\n    return p", ["ifac_hist"]),
    ("ifac: cache limit test `k < MAX` → entries above the limit kept out of step", "ifac",
     "k = len(memo)", "k = len(memo) + (len(memo) > 1000)", ["ifac_hist"]),
    ("ifac2: `k <= MAX` dropped for odd memo start (max(memo) → len(memo))", "ifac2",
     "k = max(memo)", "k = max(memo) if n & 1 else 2*len(memo)-2 + (len(memo) > 400)", ["ifac2_hist"]),
    ("ifib: caches a instead of b", "ifib",
     "_cache[m] = b", "_cache[m] = a", ["ifib_hist"]),
    ("ifib: sign of negative index", "ifib",
     "(-1)**(-n+1)", "(-1)**(-n)", ["ifib_hist"]),
    ("eulernum: cache written from the first partial sum only", "eulernum",
     "            if n <= MAX:\n                _cache[n] = ((-1)**(n//2))*(suma // 2**n)",
     "            if n <= MAX and n not in _cache:\n                _cache[n] = ((-1)**(n//2))*(suma // 2**n)", ["euler_hist"]),
    ("eulernum: cache limit ignored with wrong key", "eulernum",
     "if n <= MAX:", "if n <= MAX or n == m - 2:", ["euler_hist"]),
    ("eulernum: cache limit `n <= MAX` → `n < MAX` (results unchanged, cache contents differ)", "eulernum",
     "if n <= MAX:", "if n < MAX:", ["euler_hist"]),
    ("ifib: cache limit 250 → 251 (results unchanged, cache contents differ)", "ifib",
     "if m < 250:", "if m < 251:", ["ifib_hist"]),
    ("stirling1: inner loop starts at min(k, m-1)", "stirling1",
     "min(k, m)", "min(k, m - 1)", ["stirling1", "w_stirling1"]),
    ("stirling2: running binomial off by one", "stirling2",
     "t = t * (k - j) // (j + 1)", "t = t * (k - j - 1) // (j + 1)", ["ifac_hist", "w_stirling2"]),
    ("moebius: p**2 → p*2", "moebius",
     "n % p**2", "n % p*2", ["moebius"]),
    ("list_primes: sieve bound off by one", "list_primes",
     "int(n**0.5)+1", "int(n**0.5)", ["list_primes", "primepi"]),
    ("isprime: first witness-set threshold `<` → `<=`", "isprime",
     "if n < 1373653:", "if n <= 1373653:", ["isprime"]),
    ("isprime: loop over r starts at 2", "isprime",
     "for r in xrange(1,s):", "for r in xrange(2,s):", ["isprime"]),
    ("sqrtrem: remainder update in the first correction loop", "sqrtrem_python",
     "rem += (1+2*y)", "rem += 2*y", ["sqrtrem_large"]),
    ("isqrt_small: Newton step without the halving carry (r+x//r+1)>>1", "isqrt_small_python",
     "y = (r+x//r)>>1", "y = (r+x//r+1)>>1", ["isqrt_small"]),
    ("gcd: `if a:` → `if a > 0:`", "gcd",
     "        if a:\n", "        if a > 0:\n", ["gcd"]),
]


PRISTINE = {}


def apply(LI, fname, old, new):
    src = PRISTINE[fname]
    assert src.count(old) == 1, (fname, old, src.count(old))
    ns = LI.__dict__
    exec(compile(src.replace(old, new), "<mutant:%s>" % fname, "exec"), ns)
    return ns[fname]


def main():
    n = int(sys.argv[1]) if len(sys.argv) > 1 else 600
    seed = int(sys.argv[2]) if len(sys.argv) > 2 else 0
    import_repo()
    import mpmath.libmp.libintmath as LI
    import mpmath.libmp as LM
    import mpmath
    originals = {}
    caught = 0
    for _, fname, _, _, _ in MUTATIONS:
        if fname not in PRISTINE:
            PRISTINE[fname] = textwrap.dedent(inspect.getsource(getattr(LI, fname)))
    for name, fname, old, new, ops in MUTATIONS:
        orig = getattr(LI, fname)
        originals[fname] = orig
        src0 = PRISTINE[fname]
        try:
            mut = apply(LI, fname, old, new)
            # the names re-exported / bound elsewhere
            patched = []
            for mod in (LM, mpmath.libmp.gammazeta, mpmath.libmp.libelefun, mpmath.libmp.libhyper):
                if getattr(mod, fname, None) is orig:
                    setattr(mod, fname, mut); patched.append(mod)
            ctxpatched = []
            for cls in (mpmath.ctx_base.StandardBaseContext,):
                for attr in (fname, "_" + fname):
                    if attr in cls.__dict__:
                        ctxpatched.append((cls, attr, cls.__dict__[attr]))
                        setattr(cls, attr, staticmethod(mut))
            st, dis, g = IO.run_t1(n, seed, ops)
            ok = len(dis) > 0
            caught += ok
            print("%-75s %s  (%d disagreements / %d cases)" % (name, "CAUGHT" if ok else "MISSED", len(dis), n))
            if dis and "-v" in sys.argv:
                print("    e.g.", dis[0]["line"][:100], dis[0]["impl"][:60], dis[0]["model"][:60])
        finally:
            # restore by re-exec of the pristine source so that defaults (caches) are fresh objects again
            exec(compile(src0, "<orig:%s>" % fname, "exec"), LI.__dict__)
            rest = LI.__dict__[fname]
            for mod in (LM, mpmath.libmp.gammazeta, mpmath.libmp.libelefun, mpmath.libmp.libhyper):
                if hasattr(mod, fname):
                    setattr(mod, fname, rest)
            for cls, attr, _ in ctxpatched:
                setattr(cls, attr, staticmethod(rest))
    st, dis, g = IO.run_t1(n, seed)
    print("unmutated (restored) code: %d disagreements / %d cases" % (len(dis), n))
    print("mutations caught: %d / %d" % (caught, len(MUTATIONS)))


if __name__ == "__main__":
    main()
