"""Known-finding predicates for the complex-valued / doubly-infinite classes of C27 (harness/calc_cplx.py)."""
from fractions import Fraction
from findings import predicate


@predicate("c27_all_levin_lower_half_near_pole")
def _c27_all_levin_near_pole(inp):
    """nsum / nprod over (-inf, inf) with a Levin-type method, where the summand / factor used on the negative indices
    (descending j < a1) has a denominator j + c1 + const whose real part changes sign INSIDE the range (Re c1 + a1 > 0): the
    folded sequence f(k) + f(-k) (resp. f(k) f(-k)) has a pre-asymptotic bump at k ~ Re c1 + a1; the Levin transform, fed with
    all terms from k = 0, converges late, loses its working precision to cancellation in the next batch, and
    adaptive_extrapolation (which keeps no estimate from earlier batches) returns the last partial sum / product or the
    degraded Levin value without any warning."""
    if inp.get("shape") != "all":
        return False
    m = set(str(inp.get("method") or "").split("+"))
    if not (m & {"l", "levin", "sidi"}):
        return False
    if inp.get("kind") == "cx_nprod":
        c1 = inp["prd1"]["c"]
    elif inp.get("kind") == "cx_nsum" and inp.get("desc"):
        c1 = inp["sers"][1]["c"]
    else:
        return False
    return Fraction(c1[0]) + int(inp["a1"]) > 0


@predicate("c27_limit_levin_large_step")
def _c27_limit_levin_large_step(inp):
    """limit(f, x0, direction=d, method='levin') with a large step |d| >= 5 on a degree >= 2 polynomial difference quotient:
    same mechanism as c27_all_levin_lower_half_near_pole (late convergence of the Levin transform on a sequence with a long
    pre-asymptotic part, then loss of the working precision; the earlier, good estimate is not kept)"""
    if inp.get("kind") != "cx_limit" or (inp.get("lim") or {}).get("clim") != "dquot_dir":
        return False
    m = set(str(inp.get("method") or "").split("+"))
    return bool(m & {"l", "levin", "sidi"}) and Fraction(inp["lim"]["absdir"]) >= 5


@predicate("c27_sumap_pole_higher_than_far")
def _c27_sumap_pole_height(inp):
    """sumap (Abel-Plana) of a rational summand whose nearest pole -c lies at a height |Im c| of at least 1.5 times its distance
    Re c + a from the integration line Re z = a: the second Abel-Plana integrand has a narrow bump at t ~ |Im c| that the
    quadrature resolves with a loss of 1..40 bits (growing with the ratio and the precision); summands with their poles nearer the
    real axis are summed to full accuracy"""
    if inp.get("kind") != "cx_nsum" or inp.get("shape") != "sumap":
        return False
    ser = (inp.get("sers") or [{}])[0]
    if ser.get("cser") != "ctele":
        return False
    c = ser.get("c") or ["0", "0"]
    re, im = Fraction(c[0]), Fraction(c[1])
    dist = re + int(inp.get("a", 1))
    return dist > 0 and abs(im) * 2 >= 3 * dist
