"""Mutation check for the C30/C31/C32 harness: each mutant is a textual edit of a scratch COPY of /repo/mpmath
(never /repo itself); the harness is pointed at the copy through MPMATH_REPO and must report failing inputs.

usage:  python linalg_mutants.py [ncases]
"""
import os, sys, shutil, subprocess, json

HERE = os.path.dirname(os.path.abspath(__file__))
ROOT = os.path.dirname(HERE)
MUT = os.path.join(ROOT, "mut")

MUTANTS = [
    # (name, property, file, old, new)
    ("L_solve_off_by_one", "C30", "matrices/linalg.py",
     "            for j in xrange(i):\n                b[i] -= L[i,j] * b[j]", "            for j in xrange(i - 1):\n                b[i] -= L[i,j] * b[j]"),
    ("det_sign_dropped", "C30", "matrices/linalg.py", "                if i != e:\n                    z *= -1", "                if i != e:\n                    z *= 1"),
    ("lu_solve_prec_lowered", "C30", "matrices/linalg.py",
     "        prec = ctx.prec\n        try:\n            ctx.prec += 10\n            # do not overwrite A nor b\n            A, b = ctx.matrix(A, **kwargs).copy(), ctx.matrix(b, **kwargs).copy()\n            if A.rows < A.cols:\n                raise ValueError('cannot solve underdetermined system')\n            if A.rows > A.cols:",
     "        prec = ctx.prec\n        try:\n            ctx.prec -= 14\n            # do not overwrite A nor b\n            A, b = ctx.matrix(A, **kwargs).copy(), ctx.matrix(b, **kwargs).copy()\n            if A.rows < A.cols:\n                raise ValueError('cannot solve underdetermined system')\n            if A.rows > A.cols:"),
    ("lu_no_row_swap_in_P", "C30", "matrices/linalg.py", "        for k in xrange(len(p)):\n            ctx.swap_row(P, k, p[k])\n        return P, L, U", "        return P, L, U"),
    ("pivot_tie_rule", "C30", "matrices/linalg.py", "                if current > biggest: # TODO: what if equal?", "                if current >= biggest: # TODO: what if equal?"),
    ("pivot_unscaled", "C30", "matrices/linalg.py", "                current = 1/s * ctx.absmin(A[k,j])", "                current = ctx.absmin(A[k,j])"),
    ("qr_Q_sign", "C30", "matrices/linalg.py", "            for j in xrange(n-1, -1, -1):\n                t = -tau[j]", "            for j in xrange(n-1, -1, -1):\n                t = tau[j]"),
    ("cholesky_diag_not_sqrt", "C30", "matrices/linalg.py", "            L[j,j] = ctx.sqrt(s)", "            L[j,j] = s"),
    ("matrix_mul_index", "C30", "matrices/matrices.py", "new[i, j] = self.ctx.fdot((self[i,k], other[k,j])", "new[i, j] = self.ctx.fdot((self[i,k], other[j,k])"),
    ("eig_sort_forgets_vectors", "C31", "matrices/eigen.py", "                    z = ER[j,i]\n                    ER[j,i] = ER[j,imax]\n                    ER[j,imax] = z", "                    z = ER[j,i]"),
    ("qr_deflation_tolerance", "C31", "matrices/eigen.py", "    eps = ctx.eps / (100 * n)\n    maxits = ctx.dps * 4", "    eps = ctx.eps * 2**24\n    maxits = ctx.dps * 4"),
    ("svd_sorted_ascending", "C31", "matrices/eigen_symmetric.py", None, None),
    ("expm_taylor_tolerance", "C32", "matrices/calculus.py", None, None),
    ("sqrtm_fewer_iterations", "C32", "matrices/calculus.py", None, None),
]


def make(name, rel, old, new):
    dst = os.path.join(MUT, name)
    if os.path.exists(dst):
        shutil.rmtree(dst)
    os.makedirs(dst)
    shutil.copytree("/repo/mpmath", os.path.join(dst, "mpmath"), ignore=shutil.ignore_patterns("__pycache__", "tests"))
    p = os.path.join(dst, "mpmath", rel)
    s = open(p).read()
    if s.count(old) < 1:
        raise SystemExit("mutant %s: pattern not found in %s" % (name, rel))
    open(p, "w").write(s.replace(old, new, 1))
    return dst


def main():
    n = int(sys.argv[1]) if len(sys.argv) > 1 else 250
    only = sys.argv[2] if len(sys.argv) > 2 else None
    results = {}
    for name, pid, rel, old, new in MUTANTS:
        if old is None:
            old, new = LATE[name]
        if only and only != name:
            continue
        dst = make(name, rel, old, new)
        env = dict(os.environ, MPMATH_REPO=dst, MPMATH_NOGMPY="1")
        out = subprocess.run([sys.executable, os.path.join(HERE, "linalg_try.py"), pid, str(n), "1", "3"], env=env,
                             stdout=subprocess.PIPE, stderr=subprocess.STDOUT, text=True, timeout=1200).stdout
        status = [l for l in out.split("\n") if l.startswith('{"ok"') or l.startswith('{"violates"') or '"violates"' in l[:200] and l.startswith("{")]
        fails = [l for l in out.split("\n") if l.startswith("FAIL")]
        known = [l for l in fails if "singular input" in l or "cholesky_solve forward" in l or "cache-history" in l]
        new_f = [l for l in fails if l not in known]
        print("%-28s %s  %s   new-failure-lines(first 3 shown)=%d" % (name, pid, status[:1], len(new_f)))
        for l in new_f[:2]:
            print("     ", l[:230])
        results[name] = len(new_f)
    print(json.dumps(results))


LATE = {
    "svd_sorted_ascending": ("            c = ctx.fabs(S[j])\n            if c > s:", "            c = ctx.fabs(S[j])\n            if c < s:"),
    "expm_taylor_tolerance": ("            tol = +ctx.eps\n            A = A/2**j", "            tol = ctx.eps * 2**40\n            A = A/2**j"),
    "sqrtm_fewer_iterations": ("            tol = ctx.eps * 128\n            Y = A", "            tol = ctx.eps * 2**40\n            Y = A"),
}

if __name__ == "__main__":
    main()
