"""C33 / C17 (cache + rounding logic): drive the REAL caches of mpmath through random request
histories and compare, step by step, with the Lean model `Mp.Cache` (driver ops of
MpModel/DrvCache.lean).

For every history
  * the module-level cache state is reset to the fresh-import state (all caches empty),
  * every request is executed on the real code, optionally with a fault injected into the memoised
    computation (the k-th call that can raise does raise `InjectedFault`),
  * after every request the real cache STATE is read from the module globals / function attributes
    and compared with the model's state; the model's `F` is the REAL underlying function (its values
    are put on the request line as a table, or the model answers with a tag naming the arguments of
    `F` and the harness evaluates the real `F` at these arguments),
  * a final probe is evaluated after the history and in a FRESH PROCESS (a child forked from a
    zygote that has only imported mpmath) and the two are compared.

usage:  python cache_ops.py [ncases] [seed] [part,part,...]
"""
from common import *  # noqa
import json, itertools

PARTS = ["newprec", "keys", "constfinal", "memo", "const", "logint", "bern", "exact", "quad", "lu",
         "memoize", "hyp", "matfun"]


class InjectedFault(Exception):
    pass


# --------------------------------------------------------------------------------------------
# fresh-process evaluation: a zygote that has imported mpmath and nothing else forks one child per
# request; the child evaluates the code and dies.  Every answer comes from fresh-import state.
# --------------------------------------------------------------------------------------------

ZYGOTE_SRC = r'''
import os, sys, json
sys.path.insert(0, %(repo)r)
os.environ["MPMATH_NOGMPY"] = "1"
import mpmath
from mpmath import libmp, mp
from mpmath.libmp import libelefun, gammazeta
for line in sys.stdin:
    req = json.loads(line)
    r, w = os.pipe()
    pid = os.fork()
    if pid == 0:
        os.close(r)
        try:
            ns = {"mpmath": mpmath, "libmp": libmp, "mp": mp, "libelefun": libelefun, "gammazeta": gammazeta}
            exec(req["code"], ns)
            out = json.dumps({"ok": repr(ns["result"])})
        except BaseException as e:
            out = json.dumps({"exc": type(e).__name__})
        os.write(w, out.encode())
        os._exit(0)
    os.close(w)
    data = b""
    while True:
        chunk = os.read(r, 1 << 16)
        if not chunk:
            break
        data += chunk
    os.waitpid(pid, 0)
    sys.stdout.write(data.decode() + "\n")
    sys.stdout.flush()
'''


class Fresh:
    def __init__(self):
        self.p = subprocess.Popen([sys.executable, "-c", ZYGOTE_SRC % {"repo": REPO}], stdin=subprocess.PIPE,
                                  stdout=subprocess.PIPE, text=True)
        self.n = 0

    def eval(self, code):
        """code must assign `result`; returns repr(result) or 'EXC:<name>'"""
        self.p.stdin.write(json.dumps({"code": code}) + "\n")
        self.p.stdin.flush()
        line = self.p.stdout.readline()
        self.n += 1
        d = json.loads(line)
        return d["ok"] if "ok" in d else "EXC:" + d["exc"]

    def eval_timeout(self, code, timeout):
        """as eval, for code that may not terminate: None after `timeout` seconds (the zygote and its child are replaced)"""
        import select
        self.p.stdin.write(json.dumps({"code": code}) + "\n")
        self.p.stdin.flush()
        rd, _, _ = select.select([self.p.stdout], [], [], timeout)
        if not rd:
            subprocess.call(["pkill", "-9", "-P", str(self.p.pid)])
            self.p.kill()
            self.p.wait()
            self.__init__()
            return None
        line = self.p.stdout.readline()
        self.n += 1
        d = json.loads(line)
        return d["ok"] if "ok" in d else "EXC:" + d["exc"]

    def close(self):
        try:
            self.p.stdin.close()
            self.p.wait(timeout=5)
        except Exception:
            self.p.kill()


# --------------------------------------------------------------------------------------------
# access to the real caches
# --------------------------------------------------------------------------------------------

class FWrap:
    """stands in for the decorated function `f` inside the closure of `constant_memo`'s `g`: carries
    memo_prec / memo_val (the cache state), logs the calls, raises when armed."""

    def __init__(self, f):
        self.f = f
        self.memo_prec = -1
        self.memo_val = None
        self.calls = []
        self.armed = False
        self.__name__ = f.__name__
        self.__doc__ = f.__doc__

    def __call__(self, prec, **kw):
        self.calls.append(prec)
        if self.armed:
            self.armed = False
            raise InjectedFault()
        return self.f(prec, **kw)

    def reset(self):
        self.memo_prec = -1
        self.memo_val = None
        self.calls = []
        self.armed = False


class Real:
    LEAF = ["ln2_fixed", "ln10_fixed", "pi_fixed", "e_fixed", "phi_fixed", "catalan_fixed", "apery_fixed"]
    NESTED = ["euler_fixed", "sqrtpi_fixed", "ln_sqrt2pi_fixed", "khinchin_fixed", "glaisher_fixed",
              "mertens_fixed", "twinprime_fixed"]
    MPF = {"ln2_fixed": "mpf_ln2", "ln10_fixed": "mpf_ln10", "pi_fixed": "mpf_pi", "e_fixed": "mpf_e",
           "phi_fixed": "mpf_phi", "catalan_fixed": "mpf_catalan", "apery_fixed": "mpf_apery",
           "euler_fixed": "mpf_euler"}

    def __init__(self):
        self.mpmath = import_repo()
        import mpmath.libmp.libelefun as le
        import mpmath.libmp.gammazeta as gz
        import mpmath.libmp as libmp
        self.le, self.gz, self.libmp = le, gz, libmp
        self.mp = self.mpmath.mp
        self.g = {}        # name -> decorated function g
        self.w = {}        # name -> FWrap inside g's closure
        for mod in (le, gz):
            for name in dir(mod):
                o = getattr(mod, name)
                if name.endswith("_fixed") and callable(o) and getattr(o, "__closure__", None) and name not in self.g:
                    for c in o.__closure__:
                        try:
                            f = c.cell_contents
                        except ValueError:
                            continue
                        if hasattr(f, "memo_prec"):
                            wrap = f if isinstance(f, FWrap) else FWrap(f)
                            c.cell_contents = wrap
                            self.g[name] = o
                            self.w[name] = wrap
        self.Fcache = {}

    def mpf_fn(self, name):
        n = self.MPF[name]
        return getattr(self.le, n, None) or getattr(self.gz, n)

    def reset_all(self):
        for w in self.w.values():
            w.reset()
        self.le.log_int_cache.clear()
        self.le.log_taylor_cache.clear()
        self.le.atan_taylor_cache.clear()
        self.le.cos_sin_cache.clear()
        self.gz.bernoulli_cache.clear()
        self.mp.hyp_summators.clear()

    def memo_snapshot(self):
        return {n: (w.memo_prec, w.memo_val) for n, w in self.w.items()}

    def memo_restore(self, snap):
        for n, (p, v) in snap.items():
            self.w[n].memo_prec, self.w[n].memo_val = p, v

    def F(self, name, P):
        """the real underlying fixed-point function at precision P (cache states preserved)"""
        k = (name, P)
        if k not in self.Fcache:
            snap = self.memo_snapshot()
            lic = dict(self.le.log_int_cache)
            try:
                self.Fcache[k] = int(self.w[name].f(P))
            finally:
                self.memo_restore(snap)
                self.le.log_int_cache.clear(); self.le.log_int_cache.update(lic)
        return self.Fcache[k]


def _lu_key(spec):
    """index spec of a recorded slice assignment: int, or [start, stop] (None allowed)"""
    return slice(*spec) if isinstance(spec, list) else spec


def _lu_value(mp, v, den):
    """{"s": num} -> mpf(num)/den,  {"m": [[num, ...], ...]} -> matrix of mpf(num)/den  (at the current precision)"""
    if "m" in v:
        return mp.matrix([[mp.mpf(x) / den for x in row] for row in v["m"]])
    return mp.mpf(v["s"]) / den


LU_PRECS = [20, 30, 53, 100, 200]      # every precision an LU history can be at


def replay_lu(inp):
    """re-run a recorded LU history (input of a `_LU-*` failing input) on the real code, faults omitted;
    returns True when the last LU_decomp(A) still differs from the decomposition of a copy of A"""
    mpmath = import_repo()
    mp = mpmath.mp
    save = mp.prec
    try:
        mp.prec = inp["p0"]
        A = mp.matrix([[mp.mpf(a_) / b_ + c_ for a_, b_, c_ in row] for row in inp["matrix_num_den"]])
        res = None
        for op in inp["pyops"]:
            if op[0] == "D":
                if op[2] and not (op[1] and A._LU):
                    res = None                   # the injected fault fired before anything was computed
                    continue
                try:
                    res = mp.LU_decomp(A, use_cache=bool(op[1]))
                except ZeroDivisionError:
                    res = None
            elif op[0] == "S":
                A[op[1], op[2]] = mp.mpf(op[3]) / op[4]
            elif op[0] == "L":
                A[_lu_key(op[1]), _lu_key(op[2])] = _lu_value(mp, op[3], op[4])
            elif op[0] == "R":
                A.rows = op[1]; A.cols = op[1]
            elif op[0] == "P":
                mp.prec = op[1]
        if res is None:
            return False
        try:
            ref = mp.LU_decomp(A.copy(), use_cache=False)
        except ZeroDivisionError:
            return True
        return not (res[0] == ref[0] and res[1] == ref[1])
    finally:
        mp.prec = save


MATFUN_CALLS = {"sqrtm": "mp.sqrtm(A)", "logm": "mp.logm(A)", "expm": "mp.expm(A)",
                "powm_half": "mp.powm(A, mp.mpf(1)/2)", "powm_quarter": "mp.powm(A, mp.mpf(1)/4)"}


def matfun_code(mats, hist, probe):
    """source of a history of matrix-function calls followed by a probe; `result` = exact entries of the probe's value
    (pairs of raw mpf tuples) or the name of the exception it raised.  Exceptions inside the history are swallowed (aborted
    computations are part of the quantifier)."""
    L = ["def V(t):",
         "    z = [x.split(':') for x in t.split(',')]",
         "    f = [libmp.from_man_exp(int(x[0]), int(x[1]) if len(x) > 1 else 0) for x in z]",
         "    return mp.make_mpc((f[0], f[1])) if len(f) > 1 else mp.make_mpf(f[0])",
         "def MAT(T):",
         "    A = mp.matrix(len(T), len(T))",
         "    for i, row in enumerate(T):",
         "        for j, t in enumerate(row):",
         "            A[i, j] = V(t)",
         "    return A",
         "def E(X):",
         "    return [[(z._mpc_ if hasattr(z, '_mpc_') else (z._mpf_, libmp.fzero)) for z in row] for row in X.tolist()]",
         "MATS = %r" % [T for _, T in mats]]
    for k, fn, p in hist:
        L += ["mp.prec = %d" % p, "A = MAT(MATS[%d])" % k, "try:", "    %s" % MATFUN_CALLS[fn], "except Exception:", "    pass"]
    k, fn, p = probe
    L += ["mp.prec = %d" % p, "A = MAT(MATS[%d])" % k, "try:", "    result = E(%s)" % MATFUN_CALLS[fn],
          "except Exception as e:", "    result = 'RAISED:' + type(e).__name__"]
    return "\n".join(L)


def matfun_compare(here, alone, prec):
    """('same'|'soft'|'bad', detail): exact comparison of two probe results (reprs from fresh processes).  Rounding level:
    ||X_history - X_alone||_F <= 2^(8-prec) ||X_alone||_F, decided in exact rational arithmetic."""
    from fractions import Fraction
    if here == alone:
        return "same", ""
    if not (here.startswith("[[") and alone.startswith("[[")):
        return "bad", "after the history: %s, alone: %s" % (here[:60], alone[:60])

    def val(t):
        s_, m_, e_, b_ = t
        if not m_ and e_:
            raise ValueError("non-finite")
        v = Fraction(m_) * Fraction(2) ** e_
        return -v if s_ else v
    try:
        X, Y = eval(here), eval(alone)
        d2 = n2 = Fraction(0)
        for rx, ry in zip(X, Y):
            for (xr, xi), (yr, yi) in zip(rx, ry):
                d2 += (val(xr) - val(yr)) ** 2 + (val(xi) - val(yi)) ** 2
                n2 += val(yr) ** 2 + val(yi) ** 2
    except ValueError:
        return "bad", "non-finite entries"
    if d2 <= Fraction(4) ** (8 - prec) * n2:
        return "soft", ""
    k = 0
    while d2 > Fraction(4) ** (8 - prec + k) * n2 and k < 4000:
        k += 1
    return "bad", "relative difference to the value computed alone in a fresh process above 2^%d, allowed 2^%d" % (7 - prec + k, 8 - prec)


def replay_matfun(inp):
    """re-run a recorded history-vs-fresh input; True when the probe still depends on the history"""
    fr = Fresh()
    try:
        a, b = fr.eval_timeout(inp["code_history"], 120.0), fr.eval_timeout(inp["code_probe"], 120.0)
        return a is not None and b is not None and matfun_compare(a, b, inp["probe"][2])[0] == "bad"
    finally:
        fr.close()


def py_newprec(p):
    return int(p * 1.05 + 10)


def prec_history(g, length, lo=1, hi=400):
    """precision sequences: ascending, descending, repeated, random, cache-limit ±1"""
    r = g.r
    shape = r.choice(["asc", "desc", "rep", "rand", "limit", "mixed"])
    g.note("hist_shape", shape)
    ps = []
    if shape == "asc":
        ps = sorted(r.randint(lo, hi) for _ in range(length))
    elif shape == "desc":
        ps = sorted((r.randint(lo, hi) for _ in range(length)), reverse=True)
    elif shape == "rep":
        a = [r.randint(lo, hi) for _ in range(2)]
        ps = [r.choice(a) for _ in range(length)]
    elif shape == "rand":
        ps = [r.randint(lo, hi) for _ in range(length)]
    elif shape == "limit":
        # follow the predicted memo_prec and ask for memo_prec-1, memo_prec, memo_prec+1
        mp_ = -1
        for _ in range(length):
            if mp_ < 0 or r.random() < 0.25:
                p = r.randint(lo, hi)
            else:
                p = max(lo, mp_ + r.choice([-1, 0, 1, 0, 1]))
            ps.append(p)
            if p > mp_:
                mp_ = py_newprec(p)
    else:
        ps = [r.choice([r.randint(lo, hi), r.choice(PRECS[:11]), 53, 54]) for _ in range(length)]
    return ps


def split_items(ans):
    if not ans.startswith("L:"):
        return None
    body = ans[2:]
    return [it.split(",") for it in body.split(";")] if body else []


class CacheHarness:
    def __init__(self, seed):
        self.g = Gen(seed)
        self.R = Real()
        self.drv = Driver()
        self.fresh = Fresh()
        self.dis = []          # model/impl disagreements
        self.findings = []     # behaviours of the unchanged code that violate the property (with replay)
        self.soft = {}         # counters for rounding-level differences
        self.lu_stale = {"resize": 0, "precision": 0}
        self.count = {}

    def bump(self, k, n=1):
        self.count[k] = self.count.get(k, 0) + n

    def softbump(self, k, n=1):
        self.soft[k] = self.soft.get(k, 0) + n

    def find(self, site, d):
        """a behaviour of the real code that violates the property (not a model difference)"""
        d = dict(d)
        what = d.pop("what")
        self.findings.append({"site": site, "what": what, "input": d})

    def disagree(self, part, line, impl, model, note=""):
        self.dis.append({"part": part, "line": line[:300], "impl": impl, "model": model, "note": note})

    # ---------------------------------------------------------------- newprec, exhaustively
    def part_newprec(self, n, exhaustive=None):
        """int(prec*1.05+10): model (exact integers) against CPython.  Exhaustive for prec <= 10^6 when
        `exhaustive` (default: the environment variable CACHE_NEWPREC_EXHAUSTIVE, on for the command line),
        otherwise a seeded sample of 30000 precisions plus all prec <= 5000; always the binade boundaries
        up to 2^60 and 2000 seeded large values."""
        if exhaustive is None:
            exhaustive = os.environ.get("CACHE_NEWPREC_EXHAUSTIVE", "1") == "1"
        r = self.g.r
        lim = 10 ** 6
        chunk = 20000
        ranges = [(lo, min(lo + chunk, lim + 1)) for lo in range(0, lim + 1, chunk)] if exhaustive else [(0, 5001)]
        lines = ["newprecs %d %d" % rg for rg in ranges]
        extra = [2 ** k + d for k in range(13, 60) for d in (-1, 0, 1)] + [r.randrange(10 ** 6, 10 ** 15) for _ in range(2000)]
        if not exhaustive:
            extra += [r.randrange(5000, lim + 1) for _ in range(30000)]
        lines += ["newprec %d" % p for p in extra]
        out = self.drv.ask(lines)
        k = 0
        for (lo, hi), ans in zip(ranges, out):
            vals = ans[2:].split(";")
            for j, v in enumerate(vals):
                k += 1
                if int(v) != py_newprec(lo + j):
                    self.disagree("newprec", "newprec %d" % (lo + j), py_newprec(lo + j), v)
        for p, a in zip(extra, out[len(ranges):]):
            k += 1
            if a != "I:%d" % py_newprec(p):
                self.disagree("newprec", "newprec %d" % p, py_newprec(p), a)
        self.bump("newprec", k)
        self.count["newprec_exhaustive_to_1e6"] = bool(exhaustive)

    # ---------------------------------------------------------------- key functions of the table caches
    def part_keys(self, n):
        le = self.R.le
        out = self.drv.ask(["cachesteps 0 %d" % len(le.cache_prec_steps)])[0]
        model = [int(x) for x in out[2:].split(";")]
        if model != list(le.cache_prec_steps):
            self.disagree("keys", "cachesteps", "list", "differs")
        self.bump("keys", len(model))
        r = self.g.r
        lines, exp = [], []
        for _ in range(n):
            kind = r.choice(["lt", "at", "cs"])
            if kind == "lt":
                prec = r.choice([r.randint(10, 2500), r.choice([10, 16, 17, 32, 33, 64, 65, 1024, 1025, 2048, 2049, 2500])])
                x = r.randrange(1 << (prec - 1), 1 << (prec + 1))
                le.log_taylor_cache.clear()
                le.log_taylor_cached(x, prec)
                (key,) = le.log_taylor_cache.keys()
                lines.append("ltkey %d %d" % (x, prec)); exp.append("P:I:%d,I:%d" % key)
            elif kind == "at":
                prec = r.choice([r.randint(8, 3000), r.choice([8, 16, 17, 32, 33, 64, 65, 1024, 1025, 2048, 2049])])
                nn = r.randrange(0, 1 << 8)
                le.atan_taylor_cache.clear()
                le.atan_taylor_get_cached(nn, prec)
                (key,) = le.atan_taylor_cache.keys()
                lines.append("atkey %d %d" % (nn, prec)); exp.append("P:I:%d,I:%d" % key)
            else:
                prec = r.randint(9, le.COS_SIN_CACHE_PREC)
                x = r.randrange(0, (201 << prec) // 128)
                le.cos_sin_cache.clear()
                le.cos_sin_basecase(x, prec)
                (key,) = le.cos_sin_cache.keys()
                lines.append("cskey %d %d" % (x, prec)); exp.append("I:%d" % key)
            self.g.note("keykind", kind)
        for l, e, a in zip(lines, exp, self.drv.ask(lines)):
            self.bump("keys")
            if e != a:
                self.disagree("keys", l, e, a)
        self.R.reset_all()

    # ---------------------------------------------------------------- def_mpf_constant final step
    def part_constfinal(self, n):
        le = self.R.le
        r = self.g.r
        lines, exp = [], []
        for _ in range(n):
            prec = self.g.prec()
            wp = prec + 20
            nb = max(1, wp + r.choice([-2, -1, 0, 0, 0, 1, 2]))
            v = self.g.man(nb, prec)
            if r.random() < 0.3:
                # all-ones tails: the +1 carries
                v = (v | ((1 << r.randint(1, nb)) - 1))
            rnd = self.g.rnd()
            real = le.def_mpf_constant(lambda wp_, v=v: v)(prec, rnd)
            lines.append("constfinal %d %d %s" % (v, prec, rnd)); exp.append(enc_mpf(real))
        for l, e, a in zip(lines, exp, self.drv.ask(lines)):
            self.bump("constfinal")
            if e != a:
                self.disagree("constfinal", l, e, a)

    # ---------------------------------------------------------------- constant_memo histories
    def _run_memo_history(self, names, hist):
        """hist: list of (name, prec, fault). returns per-step (res, memo_prec, memo_val)"""
        R = self.R
        R.reset_all()
        steps = []
        for name, prec, fault in hist:
            w = R.w[name]
            before = (w.memo_prec, w.memo_val)
            w.armed = bool(fault)
            ncalls = len(w.calls)
            try:
                res = ("ok", int(R.g[name](prec)))
            except InjectedFault:
                res = ("x", None)
            except Exception as e:
                res = ("E" + type(e).__name__, None)
            w.armed = False
            called = len(w.calls) > ncalls
            steps.append((name, prec, fault, res, called, w.memo_prec, w.memo_val, before))
        return steps

    def part_memo(self, n):
        R = self.R
        r = self.g.r
        for case in range(n):
            k = r.choice([1, 1, 2, 3])
            names = r.sample(R.LEAF, k)
            length = r.randint(2, 9)
            ps = prec_history(self.g, length * k)
            hist = [(r.choice(names), p, 1 if r.random() < 0.15 else 0) for p in ps]
            steps = self._run_memo_history(names, hist)
            for name in names:
                sub = [s for s in steps if s[0] == name]
                if not sub:
                    continue
                Ps = sorted(set(py_newprec(s[1]) for s in sub) | set(s[5] for s in sub if s[5] >= 0))
                table = " ".join("%d %d" % (P, R.F(name, P)) for P in Ps)
                line = "memoT %d %s %s" % (len(Ps), table, " ".join("%d %d" % (s[1], s[2]) for s in sub))
                items = split_items(self.drv.ask([line])[0])
                if items is None or len(items) != len(sub):
                    self.disagree("memo", line, "history", str(items)[:200])
                    continue
                for s, it in zip(sub, items):
                    self.bump("memo_steps")
                    _, prec, fault, res, called, mprec, mval, before = s
                    served = "x" if res[0] == "x" else ("m" if called else "c") if res[0] == "ok" else res[0]
                    impl = [served, str(res[1]) if res[1] is not None else "-", str(mprec), "N" if mval is None else str(int(mval))]
                    if impl != it:
                        self.disagree("memo", line, impl, it, name)
                    if res[0] == "x" and (mprec, mval) != before:
                        self.find("libelefun.constant_memo", {"what": "constant_memo state changed by an aborted call", "name": name, "hist": hist})
            # invariant on every constant with the real F
            for name in names:
                w = R.w[name]
                if w.memo_prec >= 0 and (w.memo_val is None or int(w.memo_val) != R.F(name, w.memo_prec)):
                    self.find("libelefun.constant_memo", {"what": "memo_val != F(memo_prec)", "name": name, "hist": hist})
            # probe versus fresh process
            name = r.choice(names)
            prec = r.choice([r.randint(1, 400), hist[-1][1], max(1, R.w[name].memo_prec)])
            try:
                here = int(R.g[name](prec))
            except Exception as e:
                self.find("libelefun.constant_memo", {"what": "probe raised " + type(e).__name__, "name": name, "prec": prec, "hist": hist})
                continue
            mod = "libelefun" if hasattr(R.le, name) and name in R.le.__dict__ else "gammazeta"
            fr = self.fresh.eval("result = int(%s.%s(%d))" % (mod, name, prec))
            self.bump("memo_probes")
            if fr != repr(here):
                if fr.lstrip("-").isdigit() and abs(int(fr) - here) <= 1:
                    self.softbump("fixed_probe_differs_by_1")
                    self.soft.setdefault("fixed_probe_example", (name, prec, R.w[name].memo_prec))
                else:
                    self.find("libelefun.constant_memo", {"what": "probe differs from fresh process", "name": name, "prec": prec,
                                          "here": here, "fresh": fr, "hist": hist})

    def part_const(self, n):
        """mpf_<const>(prec, rnd) histories through def_mpf_constant + constant_memo"""
        R = self.R
        r = self.g.r
        leafs = [x for x in R.LEAF if x in R.MPF]
        for case in range(n):
            name = r.choice(leafs)
            fn = R.mpf_fn(name)
            w = R.w[name]
            ps = prec_history(self.g, r.randint(2, 8), 1, 300)
            hist = [(p, self.g.rnd(), 1 if r.random() < 0.12 else 0) for p in ps]
            R.reset_all()
            steps = []
            for p, rnd, fault in hist:
                w.armed = bool(fault)
                nc = len(w.calls)
                try:
                    res = enc_mpf(fn(p, rnd)); tag = None
                except InjectedFault:
                    res = "-"; tag = "x"
                except Exception as e:  # noqa   (the request itself failed: a consequence of the earlier, aborted request)
                    res = "!" + type(e).__name__; tag = "E"
                    self.find("libelefun.def_mpf_constant:history", {"what": "mpf constant request raised %s after an aborted earlier request" % type(e).__name__,
                              "name": name, "prec": p, "rnd": rnd, "hist": hist})
                w.armed = False
                if tag is None:
                    tag = "m" if len(w.calls) > nc else "c"
                steps.append([tag, res, str(w.memo_prec)])
            Ps = sorted(set(py_newprec(p + 20) for p, _, _ in hist))
            table = " ".join("%d %d" % (P, R.F(name, P)) for P in Ps)
            line = "constT %d %s %s" % (len(Ps), table, " ".join("%d %s %d" % h for h in hist))
            items = split_items(self.drv.ask([line])[0])
            self.bump("const_steps", len(hist))
            if items != steps:
                self.disagree("const", line, steps, items, name)
            # probe vs fresh, all rounding modes; directed rounding must bracket the nearest value
            p = r.choice([r.randint(1, 300), hist[-1][0]])
            modn = "libelefun" if name in R.le.__dict__ else "gammazeta"
            fr_all = self.fresh.eval("result = [%s.%s(%d, r) for r in %r]" % (modn, R.MPF[name], p, RNDS))
            for i, rnd in enumerate(RNDS):
                try:
                    here = fn(p, rnd)
                except Exception as e:  # noqa
                    self.find("libelefun.def_mpf_constant:history", {"what": "mpf constant probe raised %s after the history" % type(e).__name__,
                              "name": name, "prec": p, "rnd": rnd, "hist": hist})
                    continue
                self.bump("const_probes")
                try:
                    frv = eval(fr_all)[i]
                except Exception:
                    frv = fr_all
                if frv != here:
                    self.softbump("mpf_probe_differs")
                    self.find("libelefun.def_mpf_constant:history", {"what": "mpf constant depends on history", "name": name, "prec": p, "rnd": rnd,
                              "here": repr(here), "fresh": repr(frv), "hist": hist})
            try:
                lo, hi = fn(p, "f"), fn(p, "c")
            except Exception:  # noqa   (already reported above)
                continue
            if not R.libmp.mpf_le(lo, hi):
                self.find("libelefun.def_mpf_constant", {"what": "floor > ceiling", "name": name, "prec": p})

    # ---------------------------------------------------------------- log_int_cache
    def part_logint(self, n):
        R = self.R
        le = R.le
        r = self.g.r
        orig_log = le.mpf_log

        def realF(nn, wp):
            k = ("logint", nn, wp)
            if k not in R.Fcache:
                snap = R.memo_snapshot()
                R.Fcache[k] = int(le.to_fixed(orig_log(le.from_int(nn), wp + 5), wp))
                R.memo_restore(snap)
            return R.Fcache[k]

        for case in range(n):
            ns = r.sample([2, 3, 5, 7, 10, 97, 1000, 1999, 2000, 2001, 4097, 10 ** 6 + 3], r.choice([1, 2, 3]))
            length = r.randint(2, 10)
            ps = prec_history(self.g, length, 1, 300)
            hist = []
            lastwp = {}
            for p in ps:
                nn = r.choice(ns)
                if nn in lastwp and r.random() < 0.45:
                    # cache limit: the stored working precision of this n, +-
                    p = max(1, lastwp[nn] + r.choice([-5, -2, -1, 0, 1, 2, 3, 4, 5]))
                fault = 1 if r.random() < 0.15 else 0
                hist.append((nn, p, fault))
                if not fault and nn < 2000 and lastwp.get(nn, -1) < p:
                    lastwp[nn] = p + 10
            R.reset_all()
            steps = []
            arm = [False]

            def faulty_log(x, prec, rnd="d"):
                if arm[0]:
                    arm[0] = False
                    raise InjectedFault()
                return orig_log(x, prec, rnd)
            le.mpf_log = faulty_log
            try:
                for nn, p, fault in hist:
                    arm[0] = bool(fault)
                    before = le.log_int_cache.get(nn)
                    hit = before is not None and before[1] >= p
                    try:
                        v = int(le.log_int_fixed(nn, p)); tag = "c" if hit else "m"
                    except InjectedFault:
                        v = None; tag = "x"
                    arm[0] = False
                    e = le.log_int_cache.get(nn)
                    steps.append([tag, "-" if v is None else str(v)] + (["N", "N"] if e is None else [str(e[1]), str(int(e[0]))]))
                    if tag == "x" and e != before:
                        self.find("libelefun.log_int_fixed", {"what": "log_int_cache changed by aborted call", "hist": hist})
            finally:
                le.mpf_log = orig_log
            need = sorted(set((nn, p + 10) for nn, p, _ in hist))
            table = " ".join("%d %d %d" % (nn, wp, realF(nn, wp)) for nn, wp in need)
            line = "logint %d %s %s" % (len(need), table, " ".join("%d %d %d" % h for h in hist))
            items = split_items(self.drv.ask([line])[0])
            self.bump("logint_steps", len(hist))
            if items != steps:
                self.disagree("logint", line, steps, items)
            for k, (v, vp) in le.log_int_cache.items():
                if not (k < le.MAX_LOG_INT_CACHE and int(v) == realF(k, vp)):
                    self.find("libelefun.log_int_fixed", {"what": "log_int_cache invariant", "n": k, "hist": hist})
            nn, p = r.choice(ns), r.choice([r.randint(1, 300), hist[-1][1]])
            here = int(le.log_int_fixed(nn, p))
            fr = self.fresh.eval("result = int(libelefun.log_int_fixed(%d, %d))" % (nn, p))
            self.bump("logint_probes")
            if fr != repr(here):
                if abs(int(fr) - here) <= 1:
                    self.softbump("logint_probe_differs_by_1")
                else:
                    self.find("libelefun.log_int_fixed", {"what": "log_int probe differs from fresh", "n": nn, "prec": p, "here": here, "fresh": fr, "hist": hist})

    # ---------------------------------------------------------------- bernoulli_cache
    def part_bern(self, n):
        R = self.R
        gz = R.gz
        r = self.g.r
        orig_rdiv, orig_huge = gz.mpf_rdiv_int, gz.mpf_bernoulli_huge
        maxn = 60
        sz = [gz.bernoulli_size(m) for m in range(2, 2 * maxn + 2, 2)]
        for case in range(n):
            length = r.randint(2, 9)
            base = r.choice([10, 30, 53, 60, 64, 100])
            hist = []
            for _ in range(length):
                k = r.random()
                if k < 0.08:
                    nn = r.choice([0, 1, 3, 7, 11])
                elif k < 0.6:
                    nn = 2 * r.randint(1, 8)
                elif k < 0.95:
                    nn = 2 * r.randint(1, maxn // 2)
                else:
                    nn = 3002
                p = base + r.choice([0, 0, 0, 1, -1, 3, 31, 32, 33, -7]) if r.random() < 0.8 else r.randint(1, 200)
                p = max(1, p)
                rnd = r.choice(["-", "n", "f", "c", "u", "d"])
                fault = r.choice([-1] * 6 + [0, 1, 2])
                hist.append((nn, p, rnd, fault))
            self.g.note("bern_len", length)
            R.reset_all()
            cnt = [None]

            def rdiv(a, b, prec, rnd="d"):
                if cnt[0] is not None:
                    if cnt[0] == 0:
                        cnt[0] = None
                        raise InjectedFault()
                    cnt[0] -= 1
                return orig_rdiv(a, b, prec, rnd)

            hugecalls = []

            def huge(a, prec, rnd=None):
                hugecalls.append((a, prec, rnd))
                if cnt[0] == 0:
                    cnt[0] = None
                    raise InjectedFault()
                return orig_huge(a, prec, rnd)
            gz.mpf_rdiv_int, gz.mpf_bernoulli_huge = rdiv, huge
            steps = []
            try:
                for nn, p, rnd, fault in hist:
                    cnt[0] = None if fault < 0 else fault
                    del hugecalls[:]
                    wp = p + 30 + 32 - (p & 31)
                    try:
                        v = gz.mpf_bernoulli(nn, p, None if rnd == "-" else rnd)
                        val = "H" if hugecalls else enc_mpf(v)
                        if hugecalls and v != orig_huge(*hugecalls[0]):
                            self.find("gammazeta.mpf_bernoulli", {"what": "huge path value mismatch", "hist": hist})
                    except InjectedFault:
                        val = "x"
                    e = gz.bernoulli_cache.get(wp)
                    if e is None:
                        st = ["N", "N", "N"]
                    else:
                        numbers, state = e
                        st = [str(int(x)) for x in state]
                        if sorted(numbers.keys()) != [0] + list(range(2, state[0], 2)):
                            self.find("gammazeta.mpf_bernoulli", {"what": "bernoulli numbers/state inconsistent", "hist": hist, "keys": sorted(numbers.keys()), "state": state})
                    steps.append([val] + st)
            finally:
                gz.mpf_rdiv_int, gz.mpf_bernoulli_huge = orig_rdiv, orig_huge
            line = "bern %d %s %s" % (len(sz), " ".join(map(str, sz)), " ".join("%d %d %s %d" % h for h in hist))
            items = split_items(self.drv.ask([line])[0])
            self.bump("bern_steps", len(hist))
            if items is None or len(items) != len(steps):
                self.disagree("bern", line, steps, items)
            else:
                for s, it, h in zip(steps, items, hist):
                    path, mval = it[0], it[1]
                    self.g.note("bern_path", path)
                    mv = "x" if path == "x" else mval
                    if [mv] + it[2:] != s:
                        self.disagree("bern", line, s, it, str(h))
                        break
            # probe after history vs fresh process (D14: the first call returns the wp-bit entry)
            nn, p, rnd = 2 * r.randint(1, 6), hist[-1][1], r.choice(["n", "f", "d"])
            here = gz.mpf_bernoulli(nn, p, rnd)
            fr = self.fresh.eval("result = gammazeta.mpf_bernoulli(%d, %d, %r)" % (nn, p, rnd))
            self.bump("bern_probes")
            if fr != repr(here):
                frv = eval(fr)
                L = R.libmp
                inp = {"n": nn, "prec": p, "rnd": rnd, "here": repr(here), "fresh": fr, "hist": hist}
                if L.mpf_pos(frv, p, rnd) == L.mpf_pos(here, p, rnd):
                    # D14 (repaired by 8bbd625): one of the two is the unrounded working-precision entry
                    self.find("gammazeta.mpf_bernoulli:first-call-unrounded",
                              dict(inp, what="mpf_bernoulli returns the unrounded cache entry on one path and the rounded value on the other"))
                else:
                    d = L.mpf_abs(L.mpf_sub(frv, here))
                    ulp = (0, 1, here[2] + here[3] - p, 1)
                    if L.mpf_le(d, ulp):
                        self.softbump("bernoulli_probe_differs_by_1ulp(huge vs recurrence path)")
                    else:
                        self.find("gammazeta.mpf_bernoulli", dict(inp, what="bernoulli probe differs from fresh process beyond 1 ulp"))

    # ---------------------------------------------------------------- exact-key table caches, end to end
    def part_exact(self, n):
        """log_taylor_cached / atan_taylor / cos_sin_basecase: hit-miss pattern against the model's
        exact-key cache, table entries against a recomputation with empty caches, result against fresh."""
        R = self.R
        le = R.le
        r = self.g.r
        for case in range(n):
            kind = r.choice(["lt", "at", "cs"])
            R.reset_all()
            cache = {"lt": le.log_taylor_cache, "at": le.atan_taylor_cache, "cs": le.cos_sin_cache}[kind]
            keyids, reqs, tags = {}, [], []
            precs = [r.choice([30, 53, 64, 65, 100, 128, 129, 300]) for _ in range(2)]
            probe = None
            for _ in range(r.randint(2, 8)):
                prec = r.choice(precs)
                if kind == "lt":
                    x = r.choice([r.randrange(1 << (prec - 1), 1 << (prec + 1)), (1 << prec) + 12345])
                    call_ = lambda x=x, prec=prec: le.log_taylor_cached(x, prec)
                    code = "result = int(libelefun.log_taylor_cached(%d, %d))" % (x, prec)
                elif kind == "at":
                    x = r.choice([r.randrange(0, 1 << prec), (1 << (prec - 1)) + 999])
                    call_ = lambda x=x, prec=prec: le.atan_taylor(x, prec)
                    code = "result = int(libelefun.atan_taylor(%d, %d))" % (x, prec)
                else:
                    x = r.choice([r.randrange(0, (201 << prec) // 128), (1 << (prec - 1)) + 77])
                    call_ = lambda x=x, prec=prec: le.cos_sin_basecase(x, prec)
                    code = "result = tuple(int(t) for t in libelefun.cos_sin_basecase(%d, %d))" % (x, prec)
                before = set(cache.keys())
                val = call_()
                new = set(cache.keys()) - before
                if new:
                    (key,) = new
                    tags.append("m")
                else:
                    tags.append("c")
                    key = None
                reqs.append((x, prec, key))
                probe = (call_, code)
            # model: the key of each request from the key function, then the exact-key machine
            klines = [("ltkey %d %d" if kind == "lt" else "cskey %d %d" if kind == "cs" else "atkey %d %d") %
                      ((x >> (prec - le.ATAN_TAYLOR_SHIFT)) if kind == "at" else x, prec) for x, prec, _ in reqs]
            kans = self.drv.ask(klines)
            ids = [keyids.setdefault(a, len(keyids)) for a in kans]
            line = "exact " + " ".join("%d 0" % i for i in ids)
            mt = self.drv.ask([line])[0][2:].split(";")
            self.bump("exact_steps", len(reqs))
            if mt != tags:
                self.disagree("exact", line + " | " + kind, tags, mt)
            # entries = recomputation with empty caches
            snapshot = dict(cache)
            for key, val in snapshot.items():
                R.reset_all()
                if kind == "lt":
                    a = key[0] << (key[1] - le.LOG_TAYLOR_SHIFT); ref = (a, le.log_taylor(a, key[1], 8))
                elif kind == "at":
                    a = key[0] << (key[1] - le.ATAN_TAYLOR_SHIFT); ref = (a, le.atan_newton(a, key[1]))
                else:
                    w_ = key << (10 + le.COS_SIN_CACHE_PREC - le.COS_SIN_CACHE_STEP)
                    c_, s_ = le.exponential_series(w_, 10 + le.COS_SIN_CACHE_PREC, 2); ref = (c_ >> 10, s_ >> 10)
                if tuple(int(t) for t in val) != tuple(int(t) for t in ref):
                    self.find("libelefun.taylor_tables", {"what": "table entry differs from recomputation", "kind": kind, "key": key})
            cache.clear(); cache.update(snapshot)
            call_, code = probe
            here = call_()
            here = tuple(int(t) for t in here) if isinstance(here, tuple) else int(here)
            fr = self.fresh.eval(code)
            self.bump("exact_probes")
            if fr != repr(here):
                self.find("libelefun.taylor_tables", {"what": "table-cache probe differs from fresh", "kind": kind, "code": code, "here": repr(here), "fresh": fr})

    # ---------------------------------------------------------------- quadrature nodes
    def part_quad(self, n):
        R = self.R
        mp = R.mp
        r = self.g.r
        inf = mp.inf
        intervals = [(-1, 1), (0, 1), (0, inf), (-inf, inf), (-inf, 0), (2, 5), (inf, 0)]
        for case in range(n):
            cls = type(mp._tanh_sinh) if r.random() < 0.6 else type(mp._gauss_legendre)
            rule = cls(mp)
            oc, ot = rule.calc_nodes, rule.transform_nodes
            log = []
            arm = [None]

            def calc(degree, prec, verbose=False):
                log.append("calc")
                if arm[0] == 0:
                    raise InjectedFault()
                return oc(degree, prec, verbose)

            def trans(nodes, a, b, verbose=False):
                log.append("tr")
                if arm[0] == 1:
                    raise InjectedFault()
                return ot(nodes, a, b, verbose)
            rule.calc_nodes, rule.transform_nodes = calc, trans
            p0 = r.choice([30, 53, 80])
            mp.prec = p0
            ivs = r.sample(range(len(intervals)), 2)
            hist, steps, vals = [], [], []
            for _ in range(r.randint(2, 9)):
                iv = r.choice(ivs)
                deg = r.choice([1, 2, 3])
                prec = r.choice([20, 53])
                fault = r.choice([-1] * 5 + [0, 1])
                hist.append((iv, iv + 100, deg, prec, fault))
                a, b = intervals[iv]
                arm[0] = fault if fault >= 0 else None
                del log[:]
                try:
                    nodes = rule.get_nodes(a, b, deg, prec)
                    tag = "m" if "calc" in log else ("s" if "tr" in log else "t")
                except InjectedFault:
                    nodes = None; tag = "x"
                key = (a, b, deg, prec)
                steps.append([tag, "-" if nodes is None else "%d.%d.%d.%d.%d" % (deg, prec, iv, iv + 100, prec + 20), str(mp.prec),
                              str(int((deg, prec) in rule.standard_cache)), str(int(key in rule.transformed_cache)),
                              str(int(key in rule.interval_count))])
                vals.append((nodes, a, b, deg, prec))
            line = "quad %d %s" % (p0, " ".join("%d %d %d %d %d" % h for h in hist))
            items = split_items(self.drv.ask([line])[0])
            self.bump("quad_steps", len(hist))
            if items != steps:
                self.disagree("quad", line, steps, items)
            # the value is F at the tag's arguments: fresh rule object, same working precision
            for nodes, a, b, deg, prec in vals:
                if nodes is None:
                    continue
                fr_rule = cls(mp)
                mp.prec = prec + 20
                ref = fr_rule.transform_nodes(fr_rule.calc_nodes(deg, prec), a, b)
                mp.prec = p0
                if list(nodes) != list(ref):
                    self.find("calculus.quadrature.get_nodes", {"what": "quadrature nodes differ from fresh computation", "key": (a, b, deg, prec)})
            mp.prec = 53

    # ---------------------------------------------------------------- matrix _LU
    def part_lu(self, n):
        R = self.R
        mp = R.mp
        r = self.g.r
        for case in range(n):
            p0 = r.choice([30, 53, 100])
            mp.prec = p0
            dim = r.choice([2, 3, 4])
            entries_nd = [[[r.randint(-9, 9), r.randint(1, 7), 40 if i == j else 0] for j in range(dim)] for i in range(dim)]
            A = mp.matrix([[mp.mpf(a_) / b_ + c_ for a_, b_, c_ in row] for row in entries_nd])
            versions = {0: A.copy()}
            ver = 0
            nextver, nextsing = [1], [1000]
            grown = [False]
            loose = [False]
            ops, steps, checks = [], [], []
            stale_checks = []
            fills = {}          # id(LU matrix) -> (op index, contents version, precision) of the LU_decomp call that computed it

            def classify():
                """is LU_decomp of the current contents defined?  The model's F is the REAL function: evaluated on a copy at every
                precision a history can reach.  False = computed everywhere, True = ZeroDivisionError everywhere, None = mixed /
                other exception (the free instance of the model cannot express it: the history stops before this mutation)"""
                seen = set()
                save_ = mp.prec
                try:
                    for q in LU_PRECS:
                        mp.prec = q
                        try:
                            mp.LU_decomp(A.copy(), use_cache=False); seen.add(False)
                        except ZeroDivisionError:
                            seen.add(True)
                        except Exception:  # noqa
                            seen.add(None)
                finally:
                    mp.prec = save_
                return seen.pop() if len(seen) == 1 else None
            pyops = []
            entries0 = [[str(A[i, j]) for j in range(dim)] for i in range(dim)]
            orig_mnorm = mp.mnorm
            arm = [False]

            def mnorm(*a, **k):
                if arm[0]:
                    arm[0] = False
                    raise InjectedFault()
                return orig_mnorm(*a, **k)
            mp.mnorm = mnorm
            try:
                for _ in range(r.randint(3, 10)):
                    k = r.random()
                    if k < 0.5:
                        uc = 0 if r.random() < 0.15 else 1
                        fault = 1 if r.random() < 0.12 else 0
                        arm[0] = bool(fault)
                        prev = A._LU
                        try:
                            res = mp.LU_decomp(A, use_cache=bool(uc))
                            tag = "c" if (prev is not None and res is prev) else "m"
                            if tag == "m":
                                fills[id(res[0])] = (len(ops), ver, mp.prec)
                        except InjectedFault:
                            res = None; tag = "x"
                        except ZeroDivisionError:
                            res = None; tag = "x"
                        arm[0] = False
                        ops.append("D %d %d" % (uc, fault)); pyops.append(["D", uc, fault])
                        steps.append([tag, None, res])
                        if tag == "c":
                            stale_checks.append((len(ops) - 1, ver, mp.prec, res))
                    elif k < 0.62:
                        hi_ = A.rows - (1 if grown[0] else 0)      # keep the zero row/column of a grown matrix
                        i, j = r.randrange(hi_), r.randrange(hi_)
                        num_ = r.randint(1, 50) + (280 if i == j else 0)
                        A[i, j] = mp.mpf(num_) / 7
                        sing = classify() if loose[0] else grown[0]
                        if sing is None:
                            self.bump("lu_histories_cut_at_precision_dependent_singularity")
                            break
                        pyops.append(["S", i, j, num_, 7])
                        if sing:
                            ver = nextsing[0]; nextsing[0] += 1
                        else:
                            ver = nextver[0]; nextver[0] += 1
                        versions[ver] = A.copy()
                        ops.append("S %d" % ver); steps.append(["-", None, None])
                    elif k < 0.76:
                        # slice assignment (the other branch of matrix.__setitem__): a row, a column or a block, from a matrix or a
                        # scalar.  Matrix values and off-diagonal scalars keep the strict row diagonal dominance the other
                        # mutations maintain; a scalar over a whole row / column / block does not, so whether LU_decomp of the new
                        # contents exists is read off the real function (classify)
                        hi_ = A.rows - (1 if grown[0] else 0)      # keep the zero row/column of a grown matrix
                        shape = r.choice(["row_m", "col_m", "block_m", "row_s", "col_s", "block_s", "offdiag_s"])
                        self.g.note("lu_slice", shape)
                        full = [0, hi_] if grown[0] else [None, None]
                        i, j = r.randrange(hi_), r.randrange(hi_)
                        a_, b_ = sorted(r.sample(range(hi_ + 1), 2))
                        c_, d_ = sorted(r.sample(range(hi_ + 1), 2))
                        if shape in ("row_m", "row_s"):
                            rs, cs, rr, cc = i, full, [i], list(range(hi_))
                        elif shape in ("col_m", "col_s"):
                            rs, cs, rr, cc = full, j, list(range(hi_)), [j]
                        elif shape in ("block_m", "block_s"):
                            rs, cs, rr, cc = [a_, b_], [c_, d_], list(range(a_, b_)), list(range(c_, d_))
                        else:
                            cc = [t for t in range(c_, d_)]
                            rows_ok = [t for t in range(hi_) if t not in cc]
                            if not rows_ok:
                                continue
                            i = r.choice(rows_ok)
                            rs, cs, rr = i, [c_, d_], [i]
                        if shape.endswith("_m"):
                            v_ = {"m": [[r.randint(1, 50) + (280 if x == y else 0) for y in cc] for x in rr]}
                        else:
                            v_ = {"s": r.randint(1, 50)}
                        A[_lu_key(rs), _lu_key(cs)] = _lu_value(mp, v_, 7)
                        if shape in ("row_s", "col_s", "block_s"):
                            loose[0] = True          # from here on the contents are not diagonally dominant by construction
                        sing = classify()
                        if sing is None:
                            self.bump("lu_histories_cut_at_precision_dependent_singularity")
                            break
                        pyops.append(["L", rs, cs, v_, 7])
                        if sing:
                            ver = nextsing[0]; nextsing[0] += 1
                        else:
                            ver = nextver[0]; nextver[0] += 1
                        versions[ver] = A.copy()
                        ops.append("L %d" % ver); steps.append(["-", None, None])
                        self.bump("lu_slice_assignments")
                    elif k < 0.88:
                        if grown[0] or (A.rows > 1 and r.random() < 0.7):
                            A.rows = A.rows - 1; A.cols = A.cols - 1
                            grown[0] = False
                            sing = classify() if loose[0] else False
                        else:
                            A.rows = A.rows + 1; A.cols = A.cols + 1     # zero row/column: singular
                            grown[0] = True
                            sing = True
                        if sing is None:
                            self.bump("lu_histories_cut_at_precision_dependent_singularity")
                            break
                        if sing:
                            ver = nextsing[0]; nextsing[0] += 1
                        else:
                            ver = nextver[0]; nextver[0] += 1
                        versions[ver] = A.copy()
                        ops.append("R %d" % ver); steps.append(["-", None, None]); pyops.append(["R", A.rows])
                    else:
                        p = r.choice([20, 53, 100, 200])
                        mp.prec = p
                        ops.append("P %d" % p); steps.append(["-", None, None]); pyops.append(["P", p])
                    steps[-1][1] = A._LU
            finally:
                mp.mnorm = orig_mnorm
            line = "lu %d %s" % (p0, " ".join(ops))
            items = split_items(self.drv.ask([line])[0])
            self.bump("lu_steps", len(ops))
            if items is None or len(items) != len(steps):
                self.disagree("lu", line, "len", str(items)[:100])
                mp.prec = 53
                continue

            def realLU(tag):
                v, p = (int(t) for t in tag.split("."))
                key = ("lu", case, v, p)
                if key not in R.Fcache:
                    save = mp.prec
                    mp.prec = p
                    R.Fcache[key] = mp.LU_decomp(versions[v].copy(), use_cache=False)
                    mp.prec = save
                return R.Fcache[key]
            # property level: a decomposition served from A._LU must be the one of the CURRENT contents, and
            # not less accurate than the current precision asks for
            # (a) observed on the real object alone, no model involved: a decomposition served from A._LU that was computed BEFORE an
            # assignment A[...] = ... (element or slice) describes contents that no longer exist
            for idx, cur_ver, cur_prec, res in stale_checks:
                fill = fills.get(id(res[0]))
                if fill is None or fill[1] == cur_ver:
                    continue
                between = [o for o in pyops[fill[0] + 1:idx] if o[0] in ("S", "L")]
                if not between:
                    continue
                self.lu_stale["assignment"] = self.lu_stale.get("assignment", 0) + 1
                if self.lu_stale["assignment"] <= 2:
                    how = "slice assignment" if any(o[0] == "L" for o in between) else "element assignment"
                    self.find("matrices.matrices.matrix:_LU-assignment",
                              {"what": "A._LU survives a %s: LU_decomp(A)/lu(A) serve the decomposition of the old contents" % how,
                               "kind": "lu-history", "p0": p0, "matrix": entries0, "matrix_num_den": entries_nd, "ops": ops[:idx + 1],
                               "pyops": pyops[:idx + 1], "served": "contents-version %d at %d bits" % (fill[1], fill[2]),
                               "current": "contents-version %d at %d bits" % (cur_ver, cur_prec),
                               "assignments_since_cached": between})
            # (b) with the model's account of what is served
            for idx, cur_ver, cur_prec, res in stale_checks:
                it = items[idx]
                if it[0] != "c":
                    continue
                v, p = (int(t) for t in it[1].split("."))
                inp = {"kind": "lu-history", "p0": p0, "matrix": entries0, "matrix_num_den": entries_nd, "ops": ops[:idx + 1], "pyops": pyops[:idx + 1], "served": "contents-version %d at %d bits" % (v, p),
                       "current": "contents-version %d at %d bits" % (cur_ver, cur_prec),
                       "served_dims": [res[0].rows, res[0].cols], "current_dims": [versions[cur_ver].rows, versions[cur_ver].cols]}
                if v != cur_ver:
                    self.lu_stale["resize"] += 1
                    if self.lu_stale["resize"] <= 2:
                        self.find("matrices.matrices.matrix:_LU-resize", dict(inp, what="A._LU survives A.rows=/A.cols=: LU_decomp(A) serves the decomposition of the old contents"))
                elif p < cur_prec:
                    ref = realLU("%d.%d" % (cur_ver, cur_prec)) if cur_ver < 1000 else None
                    if ref is not None and not (res[0] == ref[0] and res[1] == ref[1]):
                        self.lu_stale["precision"] += 1
                        if self.lu_stale["precision"] <= 2:
                            self.find("matrices.linalg.LU_decomp:_LU-precision", dict(inp, what="A._LU computed at a lower precision is served by LU_decomp(A)/lu(A) at a higher precision"))
            for (tag, lu_after, res), it, op in zip(steps, items, ops):
                ok = (tag == it[0])
                if ok and it[1] != "-":
                    ref = realLU(it[1])
                    ok = res is not None and res[0] == ref[0] and res[1] == ref[1]
                if ok:
                    if it[2] == "N":
                        ok = lu_after is None
                    else:
                        ref = realLU(it[2])
                        ok = lu_after is not None and lu_after[0] == ref[0] and lu_after[1] == ref[1]
                if not ok:
                    self.disagree("lu", line, [tag, op], it)
                    break
            mp.prec = 53

    # ---------------------------------------------------------------- memoize
    def part_memoize(self, n):
        R = self.R
        mp = R.mp
        r = self.g.r
        for case in range(n):
            arm = [False]
            fn = r.choice([lambda x: mp.sqrt(x), lambda x: mp.one / x, lambda x: mp.exp(x)])

            def f(x):
                if arm[0]:
                    arm[0] = False
                    raise InjectedFault()
                return fn(x)
            fc = mp.memoize(f)
            cache = [c.cell_contents for c in fc.__closure__ if isinstance(c.cell_contents, dict)][0]
            keys = r.sample([2, 3, 5, 7], 2)
            ps = prec_history(self.g, r.randint(2, 9), 5, 200)
            hist, steps, vals = [], [], []
            for p in ps:
                k = r.choice(keys)
                fault = 1 if r.random() < 0.15 else 0
                mp.prec = p
                arm[0] = bool(fault)
                before = cache.get((k,))
                hit = before is not None and before[0] >= p
                try:
                    v = fc(k); tag = "c" if hit else "m"
                except InjectedFault:
                    v = None; tag = "x"
                arm[0] = False
                e = cache.get((k,))
                hist.append((k, p, fault))
                steps.append([tag, v, "N" if e is None else str(e[0])])
            line = "memoize " + " ".join("%d %d %d" % h for h in hist)
            items = split_items(self.drv.ask([line])[0])
            self.bump("memoize_steps", len(hist))
            ok = items is not None and len(items) == len(steps)
            if ok:
                for (tag, v, st), it, h in zip(steps, items, hist):
                    if tag != it[0] or st != it[2]:
                        ok = False
                        break
                    if it[1] != "-":
                        k, cp, pp = it[1].split(".")
                        mp.prec = int(cp)
                        ref = fn(int(k))
                        if pp != "N":
                            mp.prec = int(pp)
                            ref = +ref
                        if ref != v or ref._mpf_ != v._mpf_:
                            ok = False
                            break
            if not ok:
                self.disagree("memoize", line, [(s[0], s[2]) for s in steps], items)
            mp.prec = 53

    # ---------------------------------------------------------------- hyp_summators (exact key)
    def part_hyp(self, n):
        R = self.R
        mp = R.mp
        r = self.g.r
        calls = [("hyp0f1", lambda: mp.hyp0f1(mp.mpf(3) / 2, mp.mpf(1) / 3), "mp.hyp0f1(mp.mpf(3)/2, mp.mpf(1)/3)"),
                 ("hyp1f1", lambda: mp.hyp1f1(2, mp.mpf(1) / 3, mp.mpf(1) / 5), "mp.hyp1f1(2, mp.mpf(1)/3, mp.mpf(1)/5)"),
                 ("hyp1f1c", lambda: mp.hyp1f1(2, mp.mpf(1) / 3, mp.mpc(1, 2) / 5), "mp.hyp1f1(2, mp.mpf(1)/3, mp.mpc(1,2)/5)"),
                 ("hyp2f1", lambda: mp.hyp2f1(1, mp.mpf(1) / 3, mp.mpf(7) / 3, mp.mpf(1) / 4), "mp.hyp2f1(1, mp.mpf(1)/3, mp.mpf(7)/3, mp.mpf(1)/4)"),
                 ("erf", lambda: mp.hyp1f1(mp.mpf(1) / 2, mp.mpf(3) / 2, -mp.mpf(1) / 9), "mp.hyp1f1(mp.mpf(1)/2, mp.mpf(3)/2, -mp.mpf(1)/9)")]
        orig = R.libmp.make_hyp_summator
        import mpmath.ctx_mp as cm
        for case in range(n):
            R.reset_all()
            arm = [False]

            def mk(key):
                if arm[0]:
                    arm[0] = False
                    raise InjectedFault()
                return orig(key)
            cm.libmp.make_hyp_summator = mk
            keyids, ids, tags, faults = {}, [], [], []
            last = None
            try:
                for _ in range(r.randint(2, 8)):
                    name, th, code = r.choice(calls)
                    mp.prec = r.choice([30, 53, 100, 300])
                    fault = 1 if r.random() < 0.15 else 0
                    arm[0] = bool(fault)
                    before = set(mp.hyp_summators.keys())
                    try:
                        th()
                        new = set(mp.hyp_summators.keys()) - before
                        tags.append("m" if new else "c")
                    except InjectedFault:
                        new = set()
                        tags.append("x")
                        if set(mp.hyp_summators.keys()) != before:
                            self.find("ctx_mp.hypsum", {"what": "hyp_summators changed by aborted make_hyp_summator"})
                    arm[0] = False
                    ids.append(keyids.setdefault(name, len(keyids))); faults.append(fault)
                    last = (th, code, mp.prec)
            finally:
                cm.libmp.make_hyp_summator = orig
            # distinct call shapes map to distinct keys except hyp1f1/erf which share (1,1,('?','?'),'R') only if types agree
            line = "exact " + " ".join("%d %d" % (i, f) for i, f in zip(ids, faults))
            mt = self.drv.ask([line])[0][2:].split(";")
            self.bump("hyp_steps", len(ids))
            if mt != tags:
                self.disagree("hyp", line, tags, mt)
            th, code, p = last
            mp.prec = p
            here = th()
            fr = self.fresh.eval("mp.prec = %d\nresult = %s" % (p, code))
            self.bump("hyp_probes")
            if fr != repr(here):
                self.find("ctx_mp.hypsum", {"what": "hypsum probe differs from fresh", "code": code, "prec": p, "here": repr(here), "fresh": fr})
            mp.prec = 53

    # ---------------------------------------------------------------- matrix functions: history versus fresh process
    def part_matfun(self, n):
        """sqrtm / logm / powm / expm hold no cache of their own in the unchanged code; whatever state a call leaves behind (on the
        context object, in the constant caches) must not change a later value beyond rounding level.  Black box: a history of
        calls at other precisions and on other matrices, then a probe, all in ONE fresh process; the same probe alone in another
        fresh process; the two results are compared exactly."""
        import linalg_ops as LA
        from props import C32 as c32
        r = self.g.r
        for case in range(n):
            mg = LA.MGen(r.randrange(1 << 30), max_n=4, max_prec=200)
            classes = ["rot_det", "rot_slow_small", "rot_slow_big", "left_half", "near_identity", "negaxis", "right_half"]
            mats = []
            for _ in range(r.choice([1, 2])):
                cls = r.choice(classes)
                nn = r.choice([1, 2, 2, 3])
                if cls == "right_half":
                    shape, A = c32.diagonalizable(mg, nn, 53, r.random() < 0.35, True)
                else:
                    shape, A = c32.branch_matrix(mg, cls, nn)
                mats.append((cls, LA.toks_of(A)))
            need = max(c32._bits(LA.from_toks(T)) for _, T in mats)
            lo = max(30, need)
            fns = ["sqrtm"] * 3 + ["logm", "powm_half", "powm_quarter", "expm"]
            ps = [max(20, p_) for p_ in prec_history(self.g, r.randint(1, 4), lo, 200)]
            hist = [(r.randrange(len(mats)), r.choice(fns), p_) for p_ in ps]
            up = min(200, max(ps) + r.choice([23, 47, 70]))
            probe = (0, r.choice(fns), r.choice([r.randint(lo, 200), max(ps), up, up]))
            self.g.note("matfun_class", mats[0][0])
            self.g.note("matfun_probe", probe[1])
            code_h = matfun_code(mats, hist, probe)
            code_p = matfun_code(mats, [], probe)
            here = self.fresh.eval_timeout(code_h, 60.0)
            alone = self.fresh.eval_timeout(code_p, 60.0) if here is not None else None
            if here is None or alone is None:
                self.bump("matfun_no_result_within_60s")
                continue
            self.bump("matfun_steps", len(hist))
            self.bump("matfun_probes")
            st, detail = matfun_compare(here, alone, probe[2])
            if st == "soft":
                self.softbump("matfun_probe_differs_at_rounding_level")
            elif st == "bad":
                self.find("matrices.calculus.%s:history" % probe[1].split("_")[0],
                          {"what": "%s at prec %d depends on the calls made before it in the process (%s)" % (probe[1], probe[2], detail),
                           "kind": "history-vs-fresh", "matrices": mats, "history": hist, "probe": probe,
                           "code_history": code_h, "code_probe": code_p})

    # ----------------------------------------------------------------
    def run(self, n, parts):
        scale = {"newprec": 1, "keys": 3, "constfinal": 20, "memo": 1, "const": 1, "logint": 1, "bern": 1,
                 "exact": 0.5, "quad": 0.5, "lu": 1, "memoize": 1, "hyp": 0.3, "matfun": 0.5}
        for p in parts:
            t = time.time()
            getattr(self, "part_" + p)(max(1, int(n * scale[p])))
            self.count["time_" + p] = round(time.time() - t, 1)
        self.fresh.close()


# --------------------------------------------------------------------------------------------
# deterministic replays of the candidate defects on the unchanged code
# --------------------------------------------------------------------------------------------

def replays():
    """returns a dict of observations made in fresh processes"""
    fr = Fresh()
    out = {}
    out["D14_bernoulli8_prec60"] = fr.eval(
        "a = gammazeta.mpf_bernoulli(8, 60, 'n'); b = gammazeta.mpf_bernoulli(8, 60, 'n')\n"
        "result = {'first_bc': a[3], 'second_bc': b[3], 'equal_tuples': a == b}")
    out["D14_ctx_bernoulli8_prec60"] = fr.eval(
        "mp.prec = 60; x = mp.bernoulli(8); y = mp.bernoulli(8)\n"
        "result = {'ctx_first_bc': x._mpf_[3], 'ctx_second_bc': y._mpf_[3], 'x == y': x == y, 'x - y': x - y}")
    out["LU_stale_precision"] = fr.eval(
        "mp.prec = 20; A = mp.matrix([[1,3],[7,9]])/3; LU1 = mp.LU_decomp(A)\n"
        "mp.prec = 200; LU2 = mp.LU_decomp(A); LU3 = mp.LU_decomp(A.copy())\n"
        "P, L, U = mp.lu(A); P3, L3, U3 = mp.lu(A.copy())\n"
        "result = {'served_is_cached': LU2 is A._LU, 'max_mantissa_bits_cached': max(x._mpf_[3] for x in LU2[0]),"
        " 'max_mantissa_bits_fresh': max(x._mpf_[3] for x in LU3[0]), 'LU_equal_fresh': LU2[0] == LU3[0],"
        " 'lu()_residual_cached': mp.nstr(mp.mnorm(P.T*L*U - A, 1), 5), 'lu()_residual_fresh': mp.nstr(mp.mnorm(P3.T*L3*U3 - A, 1), 5),"
        " 'det_same_as_fresh': mp.det(A) == mp.det(A.copy()), 'inverse_same_as_fresh': mp.inverse(A) == mp.inverse(A.copy()),"
        " 'lu_solve_same_as_fresh': mp.lu_solve(A, [1,2]) == mp.lu_solve(A.copy(), [1,2])}")
    out["LU_stale_resize"] = fr.eval(
        "A = mp.matrix([[4,1,2],[1,5,3],[2,3,6]]); mp.LU_decomp(A)\n"
        "A.rows = 2; A.cols = 2\n"
        "LU, p = mp.LU_decomp(A); LUf, pf = mp.LU_decomp(A.copy())\n"
        "P, L, U = mp.lu(A)\n"
        "result = {'A_dims': (A.rows, A.cols), 'served_LU_dims': (LU.rows, LU.cols), 'fresh_LU_dims': (LUf.rows, LUf.cols),"
        " 'lu()_L_dims': (L.rows, L.cols), '_LU_cleared': A._LU is None}")
    fr.close()
    return out


def floor_compose_scan(R, maxp=260):
    """C17: how often is the real fixed-point function NOT shift-stable (F(P) >> (P-Q) != F(Q)), and does
    that ever change an mpf constant?  Exhaustive over prec <= maxp for the memo precisions reachable
    by one earlier request."""
    le = R.le
    res = {}
    for name in ["pi_fixed", "e_fixed", "ln2_fixed", "ln10_fixed", "phi_fixed", "catalan_fixed", "apery_fixed"]:
        unstable = 0
        visible = []
        total = 0
        Ps = sorted(set(py_newprec(q + 20) for q in range(1, maxp + 200, 7)))
        for p in range(1, maxp + 1):
            wp = p + 20
            own = R.F(name, py_newprec(wp)) >> (py_newprec(wp) - wp)
            for P in Ps:
                if P < wp:
                    continue
                total += 1
                v = R.F(name, P) >> (P - wp)
                if v != own:
                    unstable += 1
                    for rnd in "nfcud":
                        a = le.def_mpf_constant(lambda w_, v=v: v)(p, rnd)
                        b = le.def_mpf_constant(lambda w_, v=own: v)(p, rnd)
                        if a != b:
                            visible.append((p, P, rnd))
        res[name] = {"pairs": total, "fixed_value_differs": unstable, "mpf_differs": visible[:5], "mpf_differs_count": len(visible)}
    return res


if __name__ == "__main__":
    n = int(sys.argv[1]) if len(sys.argv) > 1 else 100
    seed = int(sys.argv[2]) if len(sys.argv) > 2 else 0
    parts = sys.argv[3].split(",") if len(sys.argv) > 3 else PARTS
    t = time.time()
    if parts == ["replays"]:
        for k, v in replays().items():
            print(k, v)
        sys.exit(0)
    if parts == ["scan"]:
        for k, v in floor_compose_scan(Real()).items():
            print(k, v)
        sys.exit(0)
    H = CacheHarness(seed)
    H.run(n, parts)
    print("seed", seed, "counts", json.dumps(H.count, sort_keys=True))
    print("rounding-level differences / known findings:", json.dumps(H.soft, sort_keys=True, default=str))
    print("histogram:", json.dumps({k: v for k, v in H.g.hist.items() if k in ("hist_shape", "bern_path", "keykind", "rnd")}, sort_keys=True, default=str))
    print("disagreements", len(H.dis), "findings", len(H.findings), "time %.1f" % (time.time() - t))
    for d in H.dis[:8]:
        print("DIS", d)
    for f in H.findings[:8]:
        print("FINDING", str(f)[:600])
    sys.exit(1 if (H.dis or H.findings) else 0)
