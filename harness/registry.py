"""Registry of claimed checks (source of MANIFEST.json; see tools/gen_manifest.py)."""

TB = ("Trusted base: Lean 4.33 kernel; axioms propext/Classical.choice/Quot.sound only (audited by #print axioms on every run, "
      "no native_decide/bv_decide/sorry); Mathlib v4.33; the hand-written Lean model of the code, tied to /repo's working tree on "
      "every run by a bit-exact correspondence run through the compiled model driver; bitcount/trailing/isqrt are modelled by "
      "their mathematical meaning and tied by correspondence only; the Python harness. ")

CHECKS = {
    "C01": dict(category="proof", technique="Lean 4 theorems (canonical closure of the modelled core) + bit-exact model/implementation correspondence + canonicity monitor",
                text="Theorems: every modelled libmpf operation (normalize, from_man_exp, add/sub, mul, mul_int, div, neg/abs/pos) returns a canonical tuple for all "
                     "operands, precisions and modes; canonical encodings are injective in the value. The real code is tied to the model by a seeded bit-exact "
                     "correspondence run over structured operands, and every returned tuple is checked for canonical form.",
                note=TB + "Proved for the modelled core only; results of the wider public API are monitored on samples, not proved."),
    "C02": dict(category="proof", technique="Lean 4 theorems: relational correct-rounding spec (all five modes) proved for the model of libmpf arithmetic + bit-exact correspondence",
                text="Theorems (unbounded mantissas, exponents, precisions; five modes; exact mode): _normalize/_normalize1, from_man_exp, from_int, pos/neg/abs, add/sub "
                     "(every branch incl. the far-exponent perturbation shortcut, via a proved sticky-bit principle), mul (fast bit-count update), mul_int, div, rdiv_int, "
                     "from_rational return THE correctly rounded value (uniqueness proved), and x/0 raises. The model equals the code on a seeded bit-exact correspondence run; "
                     "the implementation output is additionally decided against an exact rational oracle.",
                note=TB + "sqrt and fsum are tied by correspondence and decided by the exact oracle in this round; their theorems are in progress. API-level glue (operators, keyword parsing) is sampled."),
    "C05": dict(category="proof", technique="Lean 4 theorems: mpf_cmp = exact comparison; mpf_hash/mpc_hash = CPython's documented numeric hash + correspondence + law monitor",
                text="Theorems: mpf_cmp/lt/le/gt/ge/eq agree with comparison of the exact rational values for all finite canonical operands (incl. the 5-bit subtraction fallback); nan unordered; "
                     "mpf_hash equals CPython's documented hash of the rational value for every exponent; mpc_hash (after the repair of defect D2) equals the documented complex hash; equal values have equal hashes. "
                     "The pre-repair mpc_hash is proved wrong on concrete witnesses. Correspondence: model vs code, the transcribed CPython spec vs CPython itself, and the law a == b => hash(a) == hash(b) on live objects.",
                note=TB + "CPython's hash algorithm is taken from its documentation and validated against the running interpreter; Fraction/mpq operands are outside the property's type list and only reported."),
    "C10": dict(category="proof", technique="Lean 4 theorems (bit length <= prec as corollary of the rounding contract) + correspondence + bit-length monitor",
                text="Theorems: results of add/sub/mul/div/pos/neg/abs at precision prec >= 1 have at most prec mantissa bits, for all operands (in particular operands longer than prec). "
                     "Correspondence run plus a monitor of the bit length of every result of the rounded core operations.",
                note=TB + "Proved for the modelled core; the wrapper layer (_wrap_specfun etc.) is sampled."),
}

CHECKS.update({
    "C06": dict(category="translation_validation", technique="bit-exact correspondence of floor/ceil/nint/frac/mod/to_int with the Lean model + exact rational decision of the definitions (theorems for the integer-part functions in progress)",
                text="The real libmpf functions and the public API (mp.floor/ceil/nint/frac, int(), %, fmod; int/float/mpf/mpc operands) are compared bit for bit with the Lean model of the same functions, "
                     "and every result is decided exactly (Fractions) against the mathematical definition in the property text and against correct rounding.",
                note=TB + "No theorem about mpf_round_int/mpf_mod yet: the model of these functions is validated by correspondence and the property is decided per input; their callees (normalize, add/sub) are proved."),
    "C24": dict(category="proof", technique="AST->Lean loop-skeleton translator regenerated from /repo on every run + Lean termination theorems per loop class + dynamic step-budget confirmation",
                text="Every while-loop of /repo/mpmath is classified by a translator that runs on the current tree; for the classes counter/countdown/halving/strip/euclid/fixdecay/giant-steps/tolOrDiverge/divGuard/bounded/retry "
                     "Lean theorems give termination with explicit bounds, and each extracted loop carries a generated, kernel-checked obligation (124 of 229). Loops that exit only on a tolerance (105) are OPEN obligations, "
                     "attacked dynamically under a step budget on grids designed per host function; a loop whose class degrades against the committed baseline is a broken obligation.",
                note=TB + "The classification is syntactic and trusted; numeric preconditions of the class theorems (v >= 0, r < 2^prec, ...) are assumed at the call sites and listed per loop. The property is therefore PARTIAL: "
                     "termination of the open loops is sampled, not proved."),
    "C29": dict(category="translation_validation", technique="Lean-verified certificate checker (root inclusion radius n|P(r)|/|P'(r)| proved over C; exact Gaussian-rational evaluation) + Lean model of polyroots' ordering logic + sampled runs",
                text="Theorems: rootIncl_sound (every returned root has a true root within the certified radius), soundness of the executable squared comparisons, one-to-one matching when discs are disjoint, the sort/pairing logic "
                     "of polyroots (real roots first, conjugates adjacent after the repair of D13), multiplicity loop, verify test. Each output of polyroots/findroot (all solvers)/multiplicity on generated problems is decided by the checker in exact arithmetic; "
                     "the ordering logic is tied bit-exactly to the code.",
                note=TB + "The quantifier 'all functions and starting points' is sampled; the oracle is rigorous. No theorem about convergence of any solver."),
    "C30": dict(category="translation_validation", technique="Lean-verified certificates (Neumann-series bound for solve/inverse, exact determinant, factorization identities in exact dyadic arithmetic) + sampled runs of the real routines",
                text="Theorems: if ||I - R A|| <= alpha < 1 then A is invertible and the forward error of the computed solution/inverse is bounded as checked (solveCert_sound, invCert_sound, lsqCert_sound), detCert, "
                     "lu/qr/cholesky identity checkers sound. lu_solve, qr_solve, cholesky_solve, inverse, det, lu, qr, cholesky and matrix arithmetic are run on generated matrices (sizes 1..8, precisions 30..300) and each output, read exactly, is decided by the checker; "
                     "LU_decomp is additionally run over exact Fractions and compared with an exact model of its pivoting.",
                note=TB + "The quantifier over matrices is sampled; tolerances are instantiated from the property text (cond*2^(10-p)); factorization residual scales are stated in the check's assumptions."),
    "C31": dict(category="translation_validation", technique="Lean-verified residual checkers in exact Gaussian-dyadic arithmetic + sampled runs",
                text="Theorems: the checkers' squared-norm comparisons are equivalent to / imply the stated residual bounds (eig, eigh/eigsy, svd, schur, hessenberg; orthonormality, ordering, realness, structure). Every decomposition returned by the real code on generated matrix classes is decided exactly.",
                note=TB + "Sampled inputs; no theorem about QR/QL iteration."),
    "C32": dict(category="translation_validation", technique="Lean-verified identity checkers in exact arithmetic + sampled runs",
                text="Theorems: closeCheck/sqrtmCheck/powmCheck/cosSinCheck decide exactly the stated norm inequalities. expm(logm A) = A, sqrtm(A)^2 = A, powm(A,k) = A^k (exact power), cosm^2 + sinm^2 = I are decided on outputs of the real code.",
                note=TB + "Sampled inputs; expm of diagonal matrices is compared against mp.exp at higher precision (an assumption stated in the evidence)."),
})

NOT_YET = "not yet built in this round (see DESIGN.md section 6 staging); no check is claimed"
NOT_APPLICABLE = {
    "C20": "erf/Ei/Si/Ci/Fresnel/incomplete gamma and beta are not defined in Mathlib with computable bounds; no theorem can relate an output to the function, and an unverified reference would be testing under another name (DESIGN.md section 7)",
    "C21": "Bessel, Hankel, Airy, Struve, Kelvin, Scorer, Coulomb, Anger-Weber, Lommel functions and their zeros are not defined in Mathlib (DESIGN.md section 7)",
    "C23": "elliptic integrals, theta functions, Klein j, eta, AGM, q-functions are not defined in Mathlib; Lambert W only through a residual certificate covering 1 of 25 functions (DESIGN.md section 7)",
    "C41": "correctness of zero location/counting rests on Turing's method, Gram blocks and Rosser's rule, none formalised; no executable model can express 'the n-th zero' without them (DESIGN.md section 7)",
    "C42": "accuracy of heuristic Bromwich-contour quadrature against a transform-pair table; Mathlib has no inverse Laplace transform, so neither the reference nor the property can be stated (DESIGN.md section 7)",
}
NOTES = ("Each check: (1) lake build of the property's Lean modules, (2) forbidden-token grep and #print axioms audit of every theorem in Props/<id>.lean, "
         "(3) corpus of past failures, then a seeded correspondence run of the real code from /repo against the compiled Lean model, (4) exact decision of the property on the implementation's outputs. "
         "Exit 2 (no VIOLATION line) means an infrastructure problem.")
