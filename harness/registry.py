"""Registry of claimed checks (source of MANIFEST.json; see tools/gen_manifest.py)."""

TB = ("Trusted base: Lean 4.33 kernel; axioms propext/Classical.choice/Quot.sound only (audited by #print axioms on every run, "
      "no native_decide/bv_decide/sorry); Mathlib v4.33; the hand-written Lean model of the code, tied to /repo's working tree on "
      "every run by a bit-exact correspondence run through the compiled model driver; bitcount/trailing/isqrt are modelled by "
      "their mathematical meaning and tied by correspondence only; the Python harness. ")

CHECKS = {
    "C01": dict(category="proof", technique="Lean 4 theorems (canonical closure of the modelled core) + bit-exact model/implementation correspondence + canonicity monitor",
                text="Theorems: every modelled libmpf operation (normalize, from_man_exp, add/sub, mul, mul_int, div, neg/abs/pos) returns a canonical tuple for all "
                     "operands, precisions and modes; canonical encodings are injective in the value. The real code is tied to the model by a seeded bit-exact "
                     "correspondence run over structured operands, and every returned tuple is checked for canonical form.",
                note=TB + "Proved for the modelled core only; results of the wider public API are monitored on samples, not proved."),
    "C02": dict(category="proof", technique="Lean 4 theorems: relational correct-rounding spec (all five modes) proved for the model of libmpf arithmetic + bit-exact correspondence",
                text="Theorems (unbounded mantissas, exponents, precisions; five modes; exact mode): _normalize/_normalize1, from_man_exp, from_int, pos/neg/abs, add/sub "
                     "(every branch incl. the far-exponent perturbation shortcut, via a proved sticky-bit principle), mul (fast bit-count update), mul_int, div, rdiv_int, "
                     "from_rational and sqrt (over the reals, via the integer square root and the sticky principle) return THE correctly rounded value (uniqueness proved), x/0 and sqrt of a negative raise. The model equals the code on a seeded bit-exact correspondence run; "
                     "the implementation output is additionally decided against an exact rational oracle.",
                note=TB + "sqrt is proved over the reals (Props/C02sqrt.lean: THE rounding of Real.sqrt, all five modes); fsum is proved (Props/C02sum.lean) to be THE correct rounding of the exact sum whenever the nonzero terms' exponents lie within 2*prec of each other (implied by the property's hypothesis: mantissas of at most p bits, magnitudes spanning fewer than p bits); beyond that window the code drops terms (shown on a witness). fdot and API-level glue (operators, keyword parsing) is sampled."),
    "C03": dict(category="proof", technique="Lean 4 theorems about the model of mpf_pow_int (directed binary exponentiation, reciprocal mode swap): side, faithful rounding, exactness, small powers correctly rounded + bit-exact correspondence",
                text="Theorem C03_pow_int: for every finite canonical base, every integer exponent (any sign and size), every precision >= 1 and every mode the result of mpf_pow_int is canonical with at most prec bits, "
                     "is never on the wrong side of the exact power in the four directed modes, is a faithful rounding (one of the two neighbours of the exact power, i.e. error below one unit in the last place) in nearest mode, "
                     "and equals the exact power whenever that is representable. Proof by loop invariants over the binary-exponentiation loop (truncation direction, accumulated relative error (1+2^(1-wp))^n, exact table-driven bit counts incl. the carry "
                     "case of upward truncation), a faithful-rounding lemma, and the reciprocal-mode argument for negative exponents. Small exact powers (n<=2, power-of-two base, bc*n<1000) are proved correctly rounded in all modes; 0**negative raises; specials by table. "
                     "Correspondence: libmpf.mpf_pow_int and the public routes to it vs the compiled model, plus the exact rational decision of every clause on the implementation output.",
                note=TB + "precision 0 (exact mode) is not covered by the statement (the code truncates in the loop regardless). The public routes (operators, mp.power, mpf_pow with integer exponent) are sampled."),
    "C05": dict(category="proof", technique="Lean 4 theorems: mpf_cmp = exact comparison; mpf_hash/mpc_hash = CPython's documented numeric hash + correspondence + law monitor",
                text="Theorems: mpf_cmp/lt/le/gt/ge/eq agree with comparison of the exact rational values for all finite canonical operands (incl. the 5-bit subtraction fallback); nan unordered; "
                     "mpf_hash equals CPython's documented hash of the rational value for every exponent; mpc_hash (after the repair of defect D2) equals the documented complex hash; equal values have equal hashes. "
                     "The pre-repair mpc_hash is proved wrong on concrete witnesses. Correspondence: model vs code, the transcribed CPython spec vs CPython itself, and the law a == b => hash(a) == hash(b) on live objects.",
                note=TB + "CPython's hash algorithm is taken from its documentation and validated against the running interpreter; Fraction/mpq operands are outside the property's type list and only reported."),
    "C10": dict(category="proof", technique="Lean 4 theorems (bit length <= prec as corollary of the rounding contract) + correspondence + bit-length monitor",
                text="Theorems: results of add/sub/mul/div/pos/neg/abs, sqrt, integer powers (every integer exponent), floor/ceil/nint/frac and % at precision prec >= 1 have at most prec mantissa bits, for all operands (in particular operands longer than prec). "
                     "Correspondence run plus a monitor of the bit length of every result of the rounded core operations.",
                note=TB + "Proved for the modelled core; the wrapper layer (_wrap_specfun etc.) is sampled."),
}

CHECKS.update({
    "C06": dict(category="proof", technique="Lean 4 theorems: floor/ceil/nint/frac/int()/% of the model equal the mathematical floor, ceiling, round-half-even, fractional part, truncation and floored remainder (correctly rounded) + bit-exact correspondence + exact rational decision",
                text="Theorems (all finite canonical inputs, mantissas of any length, any exponent, every precision and mode): mpf_floor/mpf_ceil return the integer floor/ceiling (exact at prec 0, else its correct rounding); mpf_nint returns the nearest integer with ties to even "
                     "(uniqueness proved); mpf_frac is the correctly rounded x - floor(x), whose exact value is in [0,1); to_int truncates toward zero; mpf_mod is the correctly rounded x - y*floor(x/y) for every nonzero y (shortcut paths included), "
                     "which has the sign of y, magnitude below |y| and differs from x by an integer multiple of y; x % 0 raises; complex versions act componentwise. "
                     "Key lemma: rounding a number with exactly p integer bits to p bits IS rounding to an integer. The real libmpf functions and the public API are compared bit for bit with the model and decided exactly.",
                note=TB + "API glue (mp.floor, int(), %, fmod with mixed operand types) is sampled."),
    "C24": dict(category="proof", technique="AST->Lean loop-skeleton translator regenerated from /repo on every run + Lean termination theorems per loop class + dynamic step-budget confirmation",
                text="Every while-loop of /repo/mpmath is classified by a translator that runs on the current tree; for the classes counter/countdown/halving/strip/euclid/fixdecay/giant-steps/tolOrDiverge/divGuard/bounded/retry "
                     "Lean theorems give termination with explicit bounds, and each extracted loop carries a generated, kernel-checked obligation (124 of 229). Loops that exit only on a tolerance (105) are OPEN obligations, "
                     "attacked dynamically under a step budget on grids designed per host function; a loop whose class degrades against the committed baseline is a broken obligation.",
                note=TB + "The classification is syntactic and trusted; numeric preconditions of the class theorems (v >= 0, r < 2^prec, ...) are assumed at the call sites and listed per loop. The property is therefore PARTIAL: "
                     "termination of the open loops is sampled, not proved."),
    "C29": dict(category="translation_validation", technique="Lean-verified certificate checker (root inclusion radius n|P(r)|/|P'(r)| proved over C; exact Gaussian-rational evaluation) + Lean model of polyroots' ordering logic + sampled runs",
                text="Theorems: rootIncl_sound (every returned root has a true root within the certified radius), soundness of the executable squared comparisons, one-to-one matching when discs are disjoint, the sort/pairing logic "
                     "of polyroots (real roots first, conjugates adjacent after the repair of D13), multiplicity loop, verify test. Each output of polyroots/findroot (all solvers)/multiplicity on generated problems is decided by the checker in exact arithmetic; "
                     "the ordering logic is tied bit-exactly to the code.",
                note=TB + "The quantifier 'all functions and starting points' is sampled; the oracle is rigorous. No theorem about convergence of any solver."),
    "C30": dict(category="translation_validation", technique="Lean-verified certificates (Neumann-series bound for solve/inverse, exact determinant, factorization identities in exact dyadic arithmetic) + sampled runs of the real routines",
                text="Theorems: if ||I - R A|| <= alpha < 1 then A is invertible and the forward error of the computed solution/inverse is bounded as checked (solveCert_sound, invCert_sound, lsqCert_sound), detCert, "
                     "lu/qr/cholesky identity checkers sound. lu_solve, qr_solve, cholesky_solve, inverse, det, lu, qr, cholesky and matrix arithmetic are run on generated matrices (sizes 1..8, precisions 30..300) and each output, read exactly, is decided by the checker; "
                     "LU_decomp is additionally run over exact Fractions and compared with an exact model of its pivoting.",
                note=TB + "The quantifier over matrices is sampled; tolerances are instantiated from the property text (cond*2^(10-p)); factorization residual scales are stated in the check's assumptions."),
    "C31": dict(category="translation_validation", technique="Lean-verified residual checkers in exact Gaussian-dyadic arithmetic + sampled runs",
                text="Theorems: the checkers' squared-norm comparisons are equivalent to / imply the stated residual bounds (eig, eigh/eigsy, svd, schur, hessenberg; orthonormality, ordering, realness, structure). Every decomposition returned by the real code on generated matrix classes is decided exactly.",
                note=TB + "Sampled inputs; no theorem about QR/QL iteration."),
    "C32": dict(category="translation_validation", technique="Lean-verified identity checkers in exact arithmetic + sampled runs",
                text="Theorems: closeCheck/sqrtmCheck/powmCheck/cosSinCheck decide exactly the stated norm inequalities. expm(logm A) = A, sqrtm(A)^2 = A, powm(A,k) = A^k (exact power), cosm^2 + sinm^2 = I are decided on outputs of the real code.",
                note=TB + "Sampled inputs; expm of diagonal matrices is compared against mp.exp at higher precision (an assumption stated in the evidence)."),
})

CHECKS.update({
    "C04": dict(category="proof", technique="Lean 4 theorems: componentwise correct rounding of complex add/sub/mul/mul_mpf/mul_int/neg/pos/square(re) and of z**n in the exact regime (power in Z[i] by loop invariant), componentwise relative error bounds for z/w, 1/z, p/z and z**(-m) on the proved real core + bit-exact correspondence of libmpc with the Lean model + exact rational decisions",
                text="Theorems (components of any length, all precisions, five modes): each part of z+w, z-w, z*w (four exact products, one rounding), z*x, z*n, -z, +z is THE correctly rounded exact component. "
                     "z**n (both components nonzero, n >= 3, n*(|e_a-e_b|+max bc) < 10000): both components correctly rounded (Props/C04pow.lean). z/w, 1/z, p/z: EACH component within 2^(2-prec) relative of the exact component, for all operands, precisions >= 1 and modes (Props/C04div.lean; modulus form as corollary); z**(-m) in the exact regime, prec >= 3: each component within 6*2^-prec (Props/C04powneg.lean). "
                     "All of mpc_div/reciprocal/pow_int/abs/floor... are also modelled bit-exactly and their accuracy clauses decided per case in exact arithmetic. z+x (x real) is proved to leave the imaginary part unrounded (known finding F3).",
                note=TB + "Not proved: z**n on the axes (goes through mpf_pow_int: C03, finding F1) and beyond the exact regime (the exp/log fallback of mpc_pow_int is outside the model); mpc equality with Python numbers is tied by correspondence only."),
    "C07": dict(category="proof", technique="Lean 4 model of str_to_man_exp/from_str/mpi_from_str + theorems (parse_value for the float() grammar, exact-branch correct rounding, interval forms contain the denoted range) + bit-exact correspondence + exact decimal decisions",
                text="Theorems: for every literal of the float() grammar man*10^exp equals the decimal value (incl. underscores and '.0' forms after the repairs); in the exact branch (|decimal exponent| <= 400) from_str returns THE correctly rounded value in all modes "
                     "(unconditional, on the proved from_int/from_rational); each of the five interval string forms contains the denoted number/range given directed endpoint conversions. The approximate branch is proved NOT correctly rounded on concrete witnesses (known finding D4). "
                     "Parser and all branches are tied bit-exactly to the code; results are decided against the exact decimal value.",
                note=TB + "ASCII literals only; CPython's int(str) digit limit is a parameter. The approximate branch (D4) is modelled, not correct."),
    "C08": dict(category="proof", technique="Lean 4 model of to_digits_exp/to_str/repr_dps (binary64-modelled float steps) + theorems (digit rounding, format/parse consistency, reprDpsOK for all p <= 20000) + bit-exact string correspondence + API laws decided exactly",
                text="Theorems: the carry-through-9s digit surgery equals arithmetic half-up rounding; every printed string is accepted by the parser and denotes sign*roundedDigits*10^exponent; specials print as +inf/-inf/nan; 10^(repr_dps p - 1) > 2^p for every 1 <= p <= 20000 (false at p = 54 before the repair). "
                     "Strings produced by the real code are compared character for character with the model; eval(repr(x)) == x, float()/Decimal() parsing and nearest-decimal are decided exactly on generated values. Nearest-decimal is proved false for long mantissas (known finding D5).",
                note=TB + "Float expressions (bitprec, fixdps, prec_to_dps) are modelled with an explicit binary64 model validated exhaustively against CPython in the thorough tier. digits_floor/repr_roundtrip for all x are not proved (sampled)."),
    "C09": dict(category="proof", technique="Lean 4 model of from_float/to_float on binary64 bit patterns + theorems + bit-pattern correspondence",
                text="Theorems: from_float is exact for every finite bit pattern incl. subnormals; to_float(from_float d) = d bitwise; to_float of a canonical value with |x| >= 2^-1022 is the nearest-even binary64 (or +-inf / OverflowError when it rounds to 2^1024), using the proved normalize1. "
                     "Bit patterns (struct) of float(x)/complex(z) and tuples of mpf(f) are compared with the model on structured inputs (all exponent fields, subnormals, 54-bit ties, values within 2 ulp of the thresholds).",
                note=TB + "math.frexp/math.ldexp semantics are assumed as documented (validated against CPython by the harness incl. the subnormal range)."),
    "C11": dict(category="proof", technique="AST->Lean precision-skeleton translator regenerated from /repo on every run + bracketed_sound theorem + kernel-decided generated obligations + dynamic fault-injection confirmation",
                text="Every function of /repo/mpmath that writes prec/dps is translated (on each run, from the current tree) into a small IR; Lean proves once that a syntactically bracketed skeleton restores (prec, dps) on every exit for every fault schedule (bracketed_sound), and decides bracketedness of each generated skeleton (172 obligations). "
                     "Interprocedural summaries give the leaky public entry points; regressions against the committed baseline are broken obligations and are attacked dynamically (normal return, raising callbacks, injected libmp faults at the k-th primitive, five starting precisions); leaks are reported with the minimal schedule. "
                     "The conversion formulas prec<->dps are modelled on binary64 and compared with CPython.",
                note=TB + "The translator and its name-based call resolution are trusted (over-approximating); the fixed-point argument for summaries is informal. Dynamic confirmation samples entry points in the quick tier (all 206 specs in the thorough tier)."),
    "C12": dict(category="translation_validation", technique="Lean-verified interval evaluator (exp, log, sqrt, atan, sin, cos, pi + 20 derived functions, soundness proved from Mathlib series bounds) used as a rigorous oracle on sampled arguments",
                text="Theorems: enclosure soundness for each primitive and derived function and accCheck_sound (ok => |y - f(x)| <= 2^(k-p)|f(x)|; violates => the negation). "
                     "The real elementary functions (real arguments, 29 functions, all five modes, precisions 10..1000, adversarial arguments near k*pi/2, near 1, at thresholds, huge/tiny) are decided against the property's 2^(4-p) bound by the verified checker; no floating-point oracle.",
                note=TB + "The quantifier 'all arguments and precisions' is sampled. Complex arguments, atan2, arg, expj and the reciprocal families have no verified reference and are counted as undecided, never as pass."),
    "C13": dict(category="translation_validation", technique="Lean theorems (point enclosure => exact value; integer root-exactness test; sinpi/cospi table) + verified evaluator as oracle on sampled exact cases",
                text="Exactness of exp(0), log(1), sqrt/cbrt/root of perfect powers, sinpi/cospi at half-integers, powm1 = 0 iff x^y = 1, finiteness of tan/cot/sec/csc near k*pi/2 and the inf/nan limit table are decided with the verified evaluator and exact integer tests whose soundness is proved in Lean.",
                note=TB + "Sampled exact cases; sqrt exactness of the core is additionally covered by C02's correspondence."),
    "C14": dict(category="proof", technique="Lean 4 containment theorems for interval add/sub/neg/pos/mul/abs/square/division/integer powers (all sign cases) and sqrt (over the reals) on the proved directed-rounding core + bit-exact correspondence of libmpi with the Lean model + exact and verified-enclosure decisions on sample points",
                text="Theorems (finite endpoints of any length, every precision): x in s, y in t => x+y, x-y, -x, x, x*y, |x|, x^2 lie in the result interval, which is again well-formed (multiplication: the degenerate, the six sign cases and the four-product general case; abs and square: "
                     "the three sign cases each); sqrt x lies between the endpoints of mpi_sqrt for nonnegative intervals (endpoints are THE floor/ceiling roundings of the real roots); x/y for a divisor interval excluding 0; x^n for EVERY n >= 0 (odd, even on nonnegative / nonpositive / zero-straddling intervals; from the never-past-the-exact-value theorem of mpf_pow_int) and 1/I^n when the power interval excludes 0 (Props/C14pow.lean). Conversions and infinite endpoints are modelled bit-exactly and decided on sample points; "
                     "exp/log/sin/cos/tan/cot/sec/csc/atan/atan2/real ** are decided against Lean-verified enclosures on structured and steered samples.",
                note=TB + "Partial: infinite endpoints, division by intervals containing 0, real exponents, string conversion and the transcendental functions are decided per case, not proved; gamma family only at closed-form points."),
    "C15": dict(category="proof", technique="Lean 4 containment theorems for complex rectangle add/sub/neg/pos/mul/div/abs/square/integer powers (from the proved real interval operations; binary-powering loop invariant) + bit-exact model of the mpci_* + exact and verified-enclosure decisions on sample points",
                text="Theorems (Props/C15.lean): for rectangles with finite canonical endpoints of any bit length and every precision, mpci_add/sub/neg/pos/mul return well-formed rectangles containing z op w for every z, w in the operands. "
                     "mpci_div (whenever the code's enclosure of |w|^2 is positive: Props/C15div.lean), mpci_abs (sqrt(x^2+y^2) over the reals between the returned endpoints, and the axis branches: Props/C15abs.lean), mpci_square and mpci_pow_int for EVERY n >= 0 ((x+iy)^n in the result; negative n through the division theorem: Props/C15pow.lean). All mpci_* are also compared bit for bit with the model, with exact sample-point containment decisions; mpc exp/log/cos/sin/abs/arg are decided on sample points from verified real enclosures combined in exact rational arithmetic.",
                note=TB + "The transcendental functions are sampled (no theorem); mpci_pow with non-integer exponents is not covered; complex gamma only at closed-form points; infinite endpoints by correspondence only."),
    "C16": dict(category="proof", technique="Lean 4 theorems: interval comparisons are sound and complete three-valued predicates (on the proved mpf_cmp) + bit-exact correspondence incl. ctx_iv operators",
                text="Theorems (finite endpoints): mpi_lt/le answer True iff the relation holds for every pair of members, False iff it fails for every pair (hence None exactly otherwise); gt/ge are the mirrored predicates; == compares endpoint values exactly; interval-in-interval containment. "
                     "Operators of ivmpf/ivmpc incl. number operands and infinite endpoints are modelled and compared bit for bit and decided on sample points.",
                note=TB + "Infinite endpoints and number operands are decided per case; comparisons with plain numbers are known to round the number first (known finding F4)."),
    "C17": dict(category="proof", technique="Lean state machine of constant_memo/def_mpf_constant with refinement, history-independence and directed-rounding theorems + state-by-state correspondence + exhaustive bounded history decision + verified enclosures of pi, e, ln2, ln10, phi, degree",
                text="Theorems: for every request history the memo holds F(memo_prec); if F is an exact floor every history returns the same value; floor-mode <= c <= ceiling-mode whenever c*2^wp - 1 < v <= c*2^wp. "
                     "The real caches are driven through random histories with fault injection and compared state by state; history independence of the final mpf is decided over all reachable memo precisions of a bounded history space in all modes; the six correctly-rounded constants are compared with rigorous enclosures from the verified evaluator.",
                note=TB + "euler, catalan, apery, khinchin, glaisher, twinprime, mertens have no verified reference: only cache logic, directed consistency and cross-precision refinement are checked for them."),
    "C25": dict(category="proof", technique="Lean 4 models of libintmath (with memo caches as state) + theorems against Mathlib definitions for every call history + bit-exact correspondence over call histories + independent exact definitions",
                text="Theorems (all arguments, all reachable cache states): ifac = n!, ifac2 = n!!, ifib = Fibonacci incl. negative indices, gcd, stirling1/2 (= Nat.stirlingFirst/Second, exact division), list_primes, primepi, moebius, isprime complete for all primes and sound below 10^5 (unconditional) / below 3.4e14 under the named SPRP bounds, eulernum for m <= 101, isqrt/sqrtrem correction loops. "
                     "Real functions are run over call histories crossing the cache limits and compared with the model incl. cache contents; wrappers are decided against independent exact definitions.",
                note=TB + "binomial/rf/ff/bell/bernoulli have no integer code path: they are decided against reference values only. SPRP_bounds is a named, unproved number-theoretic hypothesis."),
    "C33": dict(category="proof", technique="Lean cache state machines (constant memo, log_int, bernoulli, exact-key tables, quadrature nodes, matrix _LU, memoize) with refinement + abort-safety theorems + state-by-state correspondence with fault injection and fresh-process probes",
                text="Theorems: for every request history and every abort point each cache answers with F(probe) (exact-key) or a down-shift of F at a precision >= the requested one; an aborted request leaves the invariant intact; bernoulli is always rounded (after the repair of D14). "
                     "The real caches are driven through random histories (precision changes, mutations, injected exceptions), their state is read from module globals and compared with the model after every step, and the probe is compared with a fresh process.",
                note=TB + "Crash points are the calls that can raise (not asynchronous interrupts between two assignments: proved unsafe, outside the property). The _LU cache is proved NOT precision/resize-safe (known findings LU1, LU2)."),
    "C39": dict(category="proof", technique="Lean 4 models of mag/nint_distance/isint/isnpint/classification/ldexp/frexp + theorems + bit-exact correspondence through the public API",
                text="Theorems: mag bounds per operand kind with the exact slack, ldexp exact, frexp normalisation, isint/isnpint iff the value is a (non-positive) integer, classification tables, nint_distance = nearest integer with distance exponent bounds per branch, errors exactly for non-finite parts (after the repair). "
                     "The public mp functions are compared with the model on mpf/mpc/int/float/mpq operands and decided exactly against the definitions.",
                note=TB + "Tie direction of nint_distance differs between mpf and mpq operands (both are nearest integers; recorded, not a violation)."),
    "C40": dict(category="proof", technique="Lean 4 theorems (hex pickling round trip for mantissas of any length, state round trips, matrix copy independence) + correspondence with real pickle/copy",
                text="Theorems: from_pickable(to_pickable x) = x for every raw tuple; __setstate__(__getstate__()) restores mpf/mpc; matrix copy is independent of the original. Real pickle (all protocols), copy.copy/deepcopy of mpf/mpc/matrix are exercised and compared (type identity, tuple equality).",
                note=TB + "pickle's reduce machinery is outside the model: matrix pickling and values of cloned contexts fail in the real code (known findings H2-H4)."),
    "C43": dict(category="translation_validation", technique="exact rational decision of the property's fp-vs-mp clause + Lean-verified evaluator for the true-value comparison + dispatch/type table",
                text="fp results are doubles, read exactly; the clause |fp - mp53| <= max(2^-48|mp53|, 2^-300), result types and the real/complex branch choice are decided exactly on sampled arguments; agreement with the true function value is additionally reported through the verified evaluator.",
                note=TB + "libm is outside the model. Long-tail property with many recorded findings (fp lacks some functions, conjugate branches outside real domains, libm accuracy at huge arguments)."),
})

TB_CALC = ("Trusted base: Lean 4.33 kernel; axioms propext/Classical.choice/Quot.sound only (audited on every run); Mathlib v4.33; the verified "
           "interval evaluator Mp.Encl (soundness theorems against Mathlib's real functions); the Python transcription of each integrand / summand "
           "/ right-hand side from the family description (cross-checked exactly against the Lean term function for series); the Python harness. ")

CHECKS_CALC = {
    "C26": dict(category="translation_validation",
                technique="closed-form references proved in Lean (FTC with antiderivative differentiated in Lean, Gamma(n+1)=n!, Gaussian integral, separable iterated integrals) "
                          "+ Lean-verified enclosure/comparison checker + proved driver logic (limit reversal, split points, node cache) + sampled runs of quad/quadts/quadgl",
                text="Theorems: for every member of the integrand families (polynomials, exp(cx), sin/cos(cx), x exp(cx), exp(ax)cos/sin(bx), 1/(1+x^2), 1/(x+c); products in 2-3 dimensions; "
                     "x^n e^-x, e^-cx, Gaussians on infinite ranges) the closed form equals the integral; a verdict of the checker is a theorem |y - I| < 2^(10-p) max(|I|,1) or its negation; "
                     "the summation driver over an additive rule negates under reversal and is invariant under split points. The real routines are run on generated members "
                     "(forward/reversed/split, 1-3 dimensions, infinite ranges, precisions 30-500) and each output, read exactly, is decided.",
                note=TB_CALC + "The quantifier over integrands is sampled; no theorem about convergence of tanh-sinh / Gauss-Legendre; complex paths not covered."),
    "C27": dict(category="translation_validation",
                technique="closed-form sums/products/limits proved in Lean (geometric, zeta(2), zeta(4), exp/sin/cos/log series, Leibniz, telescoping, Euler limit) + Lean-verified checker "
                          "+ proofs of nsum's index standardisation, shell folding, finite folding, and exactness of the rational model of richardson + sampled runs",
                text="Theorems: partial sums/products of every family tend to the closed form; finite ranges equal the exact rational sum; the standardised ranges enumerate exactly the original "
                     "index set; richardson returns L exactly on L + sum c_j/k^j; checker verdict = |y - S| <= 2^(10-p)|S|. nsum (all methods on the series shapes they are documented for, "
                     "1-3 dimensions, finite/half-infinite/doubly infinite ranges), nprod, limit, sumem, sumap are run and decided; mp.richardson is compared with the exact model.",
                note=TB_CALC + "Sampled; acceleration methods are only requested where mpmath documents them; levin/cohen_alt/shanks tables are not modelled."),
    "C28": dict(category="translation_validation",
                technique="n-th derivatives of the families proved in Lean (iteratedDeriv), exact rational Pade validator proved against polynomial coefficients, differint closed form, "
                          "difference = n-th forward difference (proved, bit-exact T1) + sampled runs of diff/diffs/diffun/taylor/pade/differint",
                text="Theorems: iteratedDeriv n f x equals the closed form for polynomials, exp(cx), sin(cx), cos(cx), x exp(cx); partial derivatives of separable products; padeCheck accepts iff the "
                     "coefficients of A*Q-P up to degree L+M are within tolerance (exact version: X^(L+M+1) divides A*Q-P); difference(s,n) = sum (-1)^(n-k) C(n,k) s_k. "
                     "Outputs of the real routines (all options, orders 0-10, precisions 30-300) are decided by the Lean checker.",
                note=TB_CALC + "Sampled; differint only for integer orders n >= 0 and n = -1."),
    "C34": dict(category="translation_validation",
                technique="exact solutions proved in Lean (satisfy the ODE and initial condition; uniqueness by Gronwall) + proofs about the model of odefun's segment store "
                          "(prefix property, unique segment off boundaries, termination, VALUE independence of history; segment choice at boundaries refuted) + sampled runs with closure inspection",
                text="Theorems: solRef denotes THE solution of y'=ay, the harmonic oscillator and y'=-y^2; the store after any query history is a prefix of one fixed segment sequence; the interpolant "
                     "value is history independent given exact continuity at the knots (which the code has: ser[0] = y0), although the answering segment at a boundary point is history dependent "
                     "(counterexample). odefun is run with random query orders, exact boundary points, repeats and caller-precision changes; values must be bit-identical across histories and "
                     "within 2^10*tol of the exact solution.",
                note=TB_CALC + "Sampled; ode_taylor is abstract in the model."),
    "C36": dict(category="translation_validation",
                technique="Lean-verified comparison checkers (coefficient-norm bound of the sup distance of two polynomials, scaled closeness, fourierval's defining sum with verified cos/sin/pi enclosures) + sampled runs",
                text="Theorems: sum|d_j-c_j|M^j bounds |fit(x)-P(x)| on [-M,M]; fourierRef is the defining sum of fourierval; checker verdicts are theorems. chebyfit of polynomials of degree < N "
                     "(reproduction, reported error), chebyfit error bound at the code's rational sample point x=b, fourier of planted trigonometric polynomials, fourierval on dyadic data are decided.",
                note=TB_CALC + "Sampled; orthogonality (that planted coefficients are the Fourier coefficients) is the property's premise and is not proved; cases where the coefficient-norm bound is "
                     "inconclusive are counted as undecided after 9 exact sample points."),
}

CHECKS.update(CHECKS_CALC)

CHECKS.update({
    "C18": dict(category="translation_validation", technique="closed-form references proved in Lean against Mathlib's Real.Gamma / factorial / Pochhammer / harmonic + Lean-verified comparison checker + model of gammaprod's pole bookkeeping (bit-exact) + sampled runs",
                text="Theorems: the references denote Gamma(h/2) (pole iff h/2 is a non-positive integer; 1/Gamma exactly 0 there), log Gamma for positive half-integers, x!, n!!, binomial = descPochhammer/k! (= Nat.choose at naturals), rf/ff, "
                     "beta and gammaprod as products of Real.Gamma, harmonic, superfactorial; gammaprod's zero/infinite/finite decision equals the pole count of Real.Gamma; a checker verdict is a theorem |y - ref| <= 2^(k-p)|ref| or its negation. "
                     "The real functions are run at half-integer/integer/rational arguments (precisions 10-2000, real and complex-typed) and each output, read exactly, is decided.",
                note=TB + "Only the sub-family with closed forms in Mathlib is decided (generic real/complex arguments, digamma/polygamma are counted as outside); the series code of mpf_gamma is not modelled."),
    "C19": dict(category='translation_validation', technique="closed-form references proved in Lean against Mathlib's riemannZeta / bernoulli polynomials / HasSum of the defining series + Lean-verified checker + sampled runs",
                text='Theorems: the reference equals riemannZeta s for s <= 0 and even s >= 2 (pole iff s = 1), HasSum of the Hurwitz series at even exponents and integer a >= 1, Polynomial.bernoulli at the point, HasSum of the polylog series for s = 1, s = -n (|z| < 1) and s = 2m at z = 1. zeta/altzeta/hurwitz/bernpoly/eulerpoly/polylog are run on these arguments and decided exactly. Props/C19b: zeta(n)/altzeta(n) at every integer n >= 2 (odd included) proportional to the precision are decided against the direct sum with the proved tail bound sum_{k<=N} k^-n <= zeta(n) <= sum + N^(1-n) (= riemannZeta n); n is generated around every precision-proportional switch-over literal of mpf_zeta_int (read with ast).',
                note="Trusted base: Lean 4.33 kernel; axioms propext/Classical.choice/Quot.sound only (audited by #print axioms on every run, no native_decide/bv_decide/sorry); Mathlib v4.33; the hand-written Lean model of the code, tied to /repo's working tree on every run by a bit-exact correspondence run through the compiled model driver; bitcount/trailing/isqrt are modelled by their mathematical meaning and tied by correspondence only; the Python harness. Small odd s (direct sum needs more than 2^13 terms) and non-integer s, polylog outside |z| < 1, lerchphi, primezeta, zeta derivatives are outside the decided sub-family (counted)."),
    "C22": dict(category='translation_validation', technique="terminating hypergeometric sums and orthogonal-polynomial recurrences as exact rational references proved in Lean (Chebyshev against Mathlib) + models of hypsum's pole test and parameter classification (bit-exact) + verified checker",
                text="Theorems: for a terminating pFq the finite Pochhammer sum is the value and a pole occurs iff a denominator parameter -m has m < n; chebyt/chebyu = Mathlib's Chebyshev T/U; legendre/hermite/laguerre/gegenbauer/jacobi equal their three-term recurrences; hypsum raises exactly when an integer denominator c <= 0 exceeds every integer numerator cc <= 0; convert_param's Z/Q/R/C classification. hyper/hyp2f1/hyp1f1/hyp2f0 and the polynomial families are run on terminating cases and decided exactly. Props/C22b: NON-terminating pFq series at rational parameters (p <= q: any dyadic z, in particular large negative z with heavy cancellation; p = q+1: |z| <= 3/4) are decided against the exact rational partial sum plus a geometric tail bound whose ratio condition is checked for every later index (proved: the series converges and the interval contains its sum); legendre/chebyt/chebyu at negative integer degree (P_n = P_(-n-1) by definition, Mathlib's integer-indexed Chebyshev T/U).",
                note="Trusted base: Lean 4.33 kernel; axioms propext/Classical.choice/Quot.sound only (audited by #print axioms on every run, no native_decide/bv_decide/sorry); Mathlib v4.33; the hand-written Lean model of the code, tied to /repo's working tree on every run by a bit-exact correspondence run through the compiled model driver; bitcount/trailing/isqrt are modelled by their mathematical meaning and tied by correspondence only; the Python harness. Analytic continuation of 2F1-type series outside |z| <= 3/4, complex parameters/arguments, hyperu, Whittaker, Meijer G, Appell, legenp/legenq, spherharm, pcf* are not decided."),
    "C35": dict(category="translation_validation", technique="Lean-verified acceptance checkers for integer relations (ok => the documented promise over the reals, violates => its negation) applied to every result the real pslq/findpoly/identify return",
                text="Theorems: pslqCheck ok implies a non-zero integer vector with max|c_k| < maxcoeff and |sum c_k x_k| <= tol*||x||_2; violates refutes it; same for findpoly with exact powers of x. identify's formulas are parsed and evaluated with the verified "
                     "interval evaluator. No claim that PSLQ finds relations (completeness is reported as information).",
                note=TB + "identify's promise is only 'roughly within the tolerance' in the documentation: decided at 2^10*tol; formulas outside the small grammar are undecided."),
    "C37": dict(category="proof", technique="Lean theorems that every pure-Python substitute of a GMP routine meets the documented GMP specification (bit length, lowest set bit, isqrt/sqrtrem, factorial, normalize) + AST site table regenerated per run + bit-exact correspondence",
                text="Theorems: python_bitcount = bit length (unconditionally below 2^299, above under the stated float hypothesis which is validated on every case), python_trailing = lowest set bit for every n (256-entry table by kernel decision + byte loop), "
                     "isqrt_small/sqrtrem/ifac/mpf_mul/mpf_mul_int/normalize/normalize1/from_man_exp variants equal their specification. Every site where BACKEND == 'gmpy' substitutes an implementation is enumerated from the AST on each run and compared with a baseline.",
                note=TB + "gmpy2 is not installed and cannot be: the two backends are never run against each other, so the property's own claim (bit-identical across backends) is decided only up to GMP's documentation; isqrt_fast and two algorithm cut-offs are listed as not covered."),
    "C38": dict(category="proof", technique="Lean frame theorems over a world model of contexts (one settings cell per context, shared caches) + state-by-state correspondence of every context's settings on random interleavings + value comparison with a pristine process",
                text="Theorems: a statement on context i leaves every field of every other context unchanged (single steps and programs); clone() creates a fresh cell with the parent's precision and writes no existing cell; evaluations write no cell and read only "
                     "their own cell and the caches; changing settings never touches the caches; the clone returns the parent's values when the shared caches are precision-correct (discharged from C33's constant_memo refinement). "
                     "Live objects (mp, clones, iv, fp) are scanned for shared mutable state and driven through random programs with every setting compared after every statement.",
                note=TB + "That the running objects have the shape of the world model is observed, not proved; functions keeping state in mutable default arguments are classified by an AST scan (a new one is a broken obligation)."),
})

NOT_YET = "not yet built in this round (see DESIGN.md section 6 staging); no check is claimed"
NOT_APPLICABLE = {
    "C20": "erf/Ei/Si/Ci/Fresnel/incomplete gamma and beta are not defined in Mathlib with computable bounds; no theorem can relate an output to the function, and an unverified reference would be testing under another name (DESIGN.md section 7)",
    "C21": "Bessel, Hankel, Airy, Struve, Kelvin, Scorer, Coulomb, Anger-Weber, Lommel functions and their zeros are not defined in Mathlib (DESIGN.md section 7)",
    "C23": "elliptic integrals, theta functions, Klein j, eta, AGM, q-functions are not defined in Mathlib; Lambert W only through a residual certificate covering 1 of 25 functions (DESIGN.md section 7)",
    "C41": "correctness of zero location/counting rests on Turing's method, Gram blocks and Rosser's rule, none formalised; no executable model can express 'the n-th zero' without them (DESIGN.md section 7)",
    "C42": "accuracy of heuristic Bromwich-contour quadrature against a transform-pair table; Mathlib has no inverse Laplace transform, so neither the reference nor the property can be stated (DESIGN.md section 7)",
}
NOTES = ("Each check: (1) lake build of the property's Lean modules, (2) forbidden-token grep and #print axioms audit of every theorem in Props/<id>.lean, "
         "(3) corpus of past failures, then a seeded correspondence run of the real code from /repo against the compiled Lean model, (4) exact decision of the property on the implementation's outputs. "
         "Exit 2 (no VIOLATION line) means an infrastructure problem.")
