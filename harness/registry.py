"""Registry of claimed checks (source of MANIFEST.json; see tools/gen_manifest.py)."""

TB = ("Trusted base: Lean 4.33 kernel; axioms propext/Classical.choice/Quot.sound only (audited by #print axioms on every run, "
      "no native_decide/bv_decide/sorry); Mathlib v4.33; the hand-written Lean model of the code, tied to /repo's working tree on "
      "every run by a bit-exact correspondence run through the compiled model driver; bitcount/trailing/isqrt are modelled by "
      "their mathematical meaning and tied by correspondence only; the Python harness. ")

CHECKS = {
    "C01": dict(category="proof", technique="Lean 4 theorems (canonical closure of the modelled core) + bit-exact model/implementation correspondence + canonicity monitor",
                text="Theorems: every modelled libmpf operation (normalize, from_man_exp, add/sub, mul, mul_int, div, neg/abs/pos) returns a canonical tuple for all "
                     "operands, precisions and modes; canonical encodings are injective in the value. The real code is tied to the model by a seeded bit-exact "
                     "correspondence run over structured operands, and every returned tuple is checked for canonical form.",
                note=TB + "Proved for the modelled core only; results of the wider public API are monitored on samples, not proved."),
    "C02": dict(category="proof", technique="Lean 4 theorems: relational correct-rounding spec (all five modes) proved for the model of libmpf arithmetic + bit-exact correspondence",
                text="Theorems (unbounded mantissas, exponents, precisions; five modes; exact mode): _normalize/_normalize1, from_man_exp, from_int, pos/neg/abs, add/sub "
                     "(every branch incl. the far-exponent perturbation shortcut, via a proved sticky-bit principle), mul (fast bit-count update), mul_int, div, rdiv_int, "
                     "from_rational return THE correctly rounded value (uniqueness proved), and x/0 raises. The model equals the code on a seeded bit-exact correspondence run; "
                     "the implementation output is additionally decided against an exact rational oracle.",
                note=TB + "sqrt and fsum are tied by correspondence and decided by the exact oracle in this round; their theorems are in progress. API-level glue (operators, keyword parsing) is sampled."),
    "C05": dict(category="proof", technique="Lean 4 theorems: mpf_cmp = exact comparison; mpf_hash/mpc_hash = CPython's documented numeric hash + correspondence + law monitor",
                text="Theorems: mpf_cmp/lt/le/gt/ge/eq agree with comparison of the exact rational values for all finite canonical operands (incl. the 5-bit subtraction fallback); nan unordered; "
                     "mpf_hash equals CPython's documented hash of the rational value for every exponent; mpc_hash (after the repair of defect D2) equals the documented complex hash; equal values have equal hashes. "
                     "The pre-repair mpc_hash is proved wrong on concrete witnesses. Correspondence: model vs code, the transcribed CPython spec vs CPython itself, and the law a == b => hash(a) == hash(b) on live objects.",
                note=TB + "CPython's hash algorithm is taken from its documentation and validated against the running interpreter; Fraction/mpq operands are outside the property's type list and only reported."),
    "C10": dict(category="proof", technique="Lean 4 theorems (bit length <= prec as corollary of the rounding contract) + correspondence + bit-length monitor",
                text="Theorems: results of add/sub/mul/div/pos/neg/abs at precision prec >= 1 have at most prec mantissa bits, for all operands (in particular operands longer than prec). "
                     "Correspondence run plus a monitor of the bit length of every result of the rounded core operations.",
                note=TB + "Proved for the modelled core; the wrapper layer (_wrap_specfun etc.) is sampled."),
}

NOT_YET = "not yet built in this round (see DESIGN.md section 6 staging); no check is claimed"
NOT_APPLICABLE = {
    "C20": "erf/Ei/Si/Ci/Fresnel/incomplete gamma and beta are not defined in Mathlib with computable bounds; no theorem can relate an output to the function, and an unverified reference would be testing under another name (DESIGN.md section 7)",
    "C21": "Bessel, Hankel, Airy, Struve, Kelvin, Scorer, Coulomb, Anger-Weber, Lommel functions and their zeros are not defined in Mathlib (DESIGN.md section 7)",
    "C23": "elliptic integrals, theta functions, Klein j, eta, AGM, q-functions are not defined in Mathlib; Lambert W only through a residual certificate covering 1 of 25 functions (DESIGN.md section 7)",
    "C41": "correctness of zero location/counting rests on Turing's method, Gram blocks and Rosser's rule, none formalised; no executable model can express 'the n-th zero' without them (DESIGN.md section 7)",
    "C42": "accuracy of heuristic Bromwich-contour quadrature against a transform-pair table; Mathlib has no inverse Laplace transform, so neither the reference nor the property can be stated (DESIGN.md section 7)",
}
NOTES = ("Each check: (1) lake build of the property's Lean modules, (2) forbidden-token grep and #print axioms audit of every theorem in Props/<id>.lean, "
         "(3) corpus of past failures, then a seeded correspondence run of the real code from /repo against the compiled Lean model, (4) exact decision of the property on the implementation's outputs. "
         "Exit 2 (no VIOLATION line) means an infrastructure problem.")
