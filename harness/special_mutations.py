"""Mutation check for harness/special_ops.py: each mutant is a scratch copy of /repo/mpmath with one realistic edit;
the harness must report failing inputs / disagreements at a site where the unchanged tree reports none (or many more).
usage: special_mutations.py [ncases]"""
import os, sys, shutil, subprocess, re, json

HERE = os.path.dirname(os.path.abspath(__file__))
MUT = os.environ.get("SPECIAL_MUT_DIR", "/tmp/w_special/mut")

MUTANTS = [
    # name, pid, file, old, new
    ("gamma_guard_bits", "C18", "libmp/gammazeta.py", "        wp = prec + bitcount(gamma_size) + 20\n", "        wp = prec + 2\n"),
    ("rgamma_pole_nonzero", "C18", "libmp/gammazeta.py", "            if type == 2:\n                return fzero\n", "            if type == 2:\n                return fone\n"),
    ("gammaprod_pole_count", "C18", "functions/factorials.py", "if len(poles_num) < len(poles_den): return ctx.zero", "if len(poles_num) <= len(poles_den): return ctx.zero"),
    ("harmonic_shift", "C18", "functions/functions.py", None, None),   # placeholder, replaced below if the text exists
    ("bernpoly_coeff", "C19", "functions/zeta.py", "if n == 3: return z*(z*(z-1.5)+0.5)", "if n == 3: return z*(z*(z-1.5)+0.25)"),
    ("zeta_neg_reflection", "C19", "libmp/gammazeta.py", None, None),
    ("hypsum_pole_convention", "C22", "ctx_mp.py", "if flags[ii] == 'Z' and cc <= 0 and c <= cc:", "if flags[ii] == 'Z' and cc <= 0 and c < cc:"),
    ("convert_param_exp", "C22", "ctx_mp_python.py", "                if exp >= -4:\n                    p, q = int(man), (1<<(-exp))", "                if exp >= -3:\n                    p, q = int(man), (1<<(-exp))"),
    ("hypsum_guard", "C22", "ctx_mp.py", "accurate = (cancel < extraprec-25-5 or not accurate_small)", "accurate = (cancel < extraprec+25 or not accurate_small)"),
    ("hermite_sign", "C22", "functions/orthogonal.py", None, None),
]


def run(pid, repo, n):
    env = dict(os.environ)
    env["MPMATH_NOGMPY"] = "1"
    if repo:
        env["MPMATH_REPO"] = repo
    p = subprocess.run([sys.executable, os.path.join(HERE, "special_ops.py"), pid, str(n), "0"], env=env,
                       stdout=subprocess.PIPE, stderr=subprocess.STDOUT, text=True, timeout=3000)
    sites = {}
    for m in re.finditer(r"FAIL site=(\S+) count=(\d+)", p.stdout):
        sites[m.group(1)] = int(m.group(2))
    for m in re.finditer(r"^(gpdec|hyppole|cvtparam) \{.*?\} (\d+) ", p.stdout, re.M):
        if int(m.group(2)):
            sites["T1:" + m.group(1)] = int(m.group(2))
    return sites, p.stdout


def main():
    n = int(sys.argv[1]) if len(sys.argv) > 1 else 500
    only = sys.argv[2:] 
    base = {pid: run(pid, None, n)[0] for pid in ("C18", "C19", "C22")}
    print("baseline", json.dumps(base))
    caught = 0
    total = 0
    for name, pid, rel, old, new in MUTANTS:
        if only and name not in only:
            continue
        src = open(os.path.join("/repo/mpmath", rel)).read()
        if old is None:
            # text-dependent mutants resolved here
            if name == "harmonic_shift":
                rel, old, new = "libmp/gammazeta.py", "def mpf_harmonic(x, prec, rnd):", "def mpf_harmonic(x, prec, rnd):\n    prec = max(4, prec - 12)"
            elif name == "zeta_neg_reflection":
                rel, old, new = "libmp/gammazeta.py", "        return mpf_div(mpf_bernoulli(-s+1, wp), from_int(s-1), prec, rnd)", "        return mpf_div(mpf_bernoulli(-s+1, wp), from_int(s-2), prec, rnd)"
            elif name == "hermite_sign":
                rel, old, new = "functions/orthogonal.py", "def hermite(ctx, n, z, **kwargs):", "def hermite(ctx, n, z, **kwargs):\n    z = -z"
            src = open(os.path.join("/repo/mpmath", rel)).read()
        if old not in src:
            print("MUTANT %-24s not applicable (text not found)" % name)
            continue
        total += 1
        d = os.path.join(MUT, name)
        shutil.rmtree(d, ignore_errors=True)
        shutil.copytree("/repo/mpmath", os.path.join(d, "mpmath"), ignore=shutil.ignore_patterns("__pycache__"))
        open(os.path.join(d, "mpmath", rel), "w").write(src.replace(old, new, 1))
        sites, out = run(pid, d, n)
        new_sites = {k: v for k, v in sites.items() if v > 2 * base[pid].get(k, 0) + 1 or (k not in base[pid])}
        ok = bool(new_sites)
        caught += ok
        print("MUTANT %-24s %s %s  new/raised sites: %s" % (name, pid, "CAUGHT" if ok else "MISSED", json.dumps(new_sites)))
        if not ok:
            print(out[-1500:])
    print("caught %d / %d" % (caught, total))


if __name__ == "__main__":
    main()
