"""Exact reference arithmetic for the complex cases of C19 / C22 that `mpdrv` has no reference for (special_ops.py).

Nothing here evaluates mpmath.  Everything is integer / `fractions.Fraction` arithmetic:

* `hyp_series_disc(A, B, z, bits)`: the DEFINING series of pFq at Gaussian-rational parameters and argument,
      F = sum_k t_k,   t_0 = 1,   t_(k+1) = t_k * prod(a_i + k) / prod(b_j + k) * z / (k + 1),
  summed exactly (common-denominator integers, no rounding at all) up to an index K, plus the geometric tail bound
      |sum_(k>K) t_k| <= |t_(K+1)| / (1 - rho),      rho >= |t_(k+1)/t_k| for EVERY k >= K+1,
  with rho = |z| * prod_pairs (|a|+k)/(k-|b|) * [max(1, (|a|+k)/(k+1)) | 1/(k+1)] * prod_unpaired 1/(k-|b|) evaluated at
  k = K+1 > max|b_j| (every factor is non-increasing in k, moduli are rounded UP to rationals).  Same scheme as
  `Mp.SpecRef.hypEncl` (lean/MpModel/SpecRef2.lean) but over Q(i); `special_ops.run_pyref_tie` compares the two on
  real and on purely imaginary arguments in every run.
* `decide_disc`, `decide_scaled`: |y - v| <= 2^(7-p)|v| (ok) / |y - v| > 2^(8-p)|v| (violates) for every v in a disc /
  in z*[lo, hi], decided with rational bounds of the square roots (rounded in the safe direction)."""
from fractions import Fraction
from math import isqrt

_S = 80          # bits of the rational square-root bounds


def sqrt_up(q):
    """rational >= sqrt(q), relative excess < 2^-_S"""
    q = Fraction(q)
    if q <= 0:
        return Fraction(0)
    n, d = q.numerator, q.denominator
    return Fraction(isqrt(n * d << (2 * _S)) + 1, d << _S)


def sqrt_down(q):
    q = Fraction(q)
    if q <= 0:
        return Fraction(0)
    n, d = q.numerator, q.denominator
    return Fraction(isqrt(n * d << (2 * _S)), d << _S)


def mod_up(w):
    re, im = w
    if im == 0:
        return abs(Fraction(re))
    if re == 0:
        return abs(Fraction(im))
    return sqrt_up(Fraction(re) ** 2 + Fraction(im) ** 2)


def _lcm(a, b):
    from math import gcd
    return a // gcd(a, b) * b


def _gint(w):
    """Gaussian rational (re, im) -> integers (nr, ni, d) with w = (nr + i ni)/d, d > 0"""
    re, im = Fraction(w[0]), Fraction(w[1])
    d = _lcm(re.denominator, im.denominator)
    return re.numerator * (d // re.denominator), im.numerator * (d // im.denominator), d


def ratio_bound(Amod, Bmod, zmod, k):
    """rho >= |t_(j+1)/t_j| for every j >= k  (None if k <= max|b| or more numerator than denominator+1 parameters)"""
    if len(Amod) > len(Bmod) + 1:
        return None
    if any(k <= b for b in Bmod):
        return None
    rho = Fraction(zmod)
    dens = list(Bmod) + [None]            # None stands for the factor (j+1) of the factorial
    for i, d in enumerate(dens):
        a = Amod[i] if i < len(Amod) else None
        if d is None:
            if a is None:
                rho /= (k + 1)
            else:
                f = (a + k) / (k + 1)
                rho *= f if f > 1 else 1
        else:
            if a is None:
                rho /= (k - d)
            else:
                rho *= (a + k) / (k - d)
    return rho


def hyp_series_disc(A, B, z, bits, maxterms=6000):
    """(Sre, Sim, rad): pFq(A; B; z) lies in the closed disc of radius rad around Sre + i Sim (Fractions).
    A, B: lists of (re, im) rationals (no b a non-positive integer); z = (re, im).  Stops when rad <= 2^-bits max(|Sre|,|Sim|)
    (or at maxterms: the disc is still valid, only wide).  None if no valid tail bound was reached."""
    Ai = [_gint(a) for a in A]
    Bi = [_gint(b) for b in B]
    zr, zi, zd = _gint(z)
    Amod = [mod_up(a) for a in A]
    Bmod = [mod_up(b) for b in B]
    zmod = mod_up(z)
    # t_k = (tr + i ti)/D,  S_k = sum_(j<=k) t_j = (sr + i si)/D
    tr, ti, D = 1, 0, 1
    sr, si = 1, 0
    k = 0
    while True:
        # t_(k+1) = t_k * prod(a+k)/prod(b+k) * z/(k+1)
        nr, ni, nd = tr, ti, 1
        for (ar, ai, ad) in Ai:
            xr, xi = ar + k * ad, ai
            nr, ni = nr * xr - ni * xi, nr * xi + ni * xr
            nd *= ad
        for (br, bi, bd) in Bi:
            xr, xi = br + k * bd, bi
            m = xr * xr + xi * xi
            if m == 0:
                return None
            # 1/((xr + i xi)/bd) = bd (xr - i xi)/m
            nr, ni = (nr * xr + ni * xi) * bd, (ni * xr - nr * xi) * bd
            nd *= m
        nr, ni = nr * zr - ni * zi, nr * zi + ni * zr
        nd *= zd * (k + 1)
        # new common denominator D*nd
        sr, si = sr * nd + nr, si * nd + ni
        tr, ti, D = nr, ni, D * nd
        k += 1
        # now S = S_k (terms 0..k), t = t_k; tail = sum_(j>k) t_j, |t_(j+1)/t_j| <= rho for j >= k
        if k >= 4 and (k % 4 == 0 or k >= maxterms):
            rho = ratio_bound(Amod, Bmod, zmod, k)
            if rho is not None and rho < 1:
                tmod = sqrt_up(Fraction(tr * tr + ti * ti, D * D))
                rad = tmod * rho / (1 - rho)
                big = Fraction(max(abs(sr), abs(si)), D)
                if rad * (1 << bits) <= big or k >= maxterms:
                    return Fraction(sr, D), Fraction(si, D), rad
            if k >= maxterms:
                return None


def dy(m, e):
    return Fraction(m) * (Fraction(2) ** e)


def decide_disc(yre, yim, c_re, c_im, rad, p, slack=7):
    """y = yre + i yim (Fractions); reference v anywhere in the disc (c, rad).
    'ok': |y - v| <= 2^(slack-p)|v| for every such v;  'violates': |y - v| > 2^(slack+1-p)|v| for every such v;
    else 'borderline'."""
    d2 = (yre - c_re) ** 2 + (yim - c_im) ** 2
    s2 = c_re ** 2 + c_im ** 2
    T = Fraction(2) ** (slack - p)
    d_up, d_dn = sqrt_up(d2), sqrt_down(d2)
    s_up, s_dn = sqrt_up(s2), sqrt_down(s2)
    if s_dn - rad >= 0 and d_up + rad <= T * (s_dn - rad):
        return "ok"
    if d_dn - rad > 2 * T * (s_up + rad):
        return "violates"
    return "borderline"


def decide_box(yre, yim, re_lo, re_hi, im_lo, im_hi, p, slack=7):
    """reference v anywhere in the rectangle [re_lo, re_hi] + i [im_lo, im_hi]"""
    c_re, c_im = (re_lo + re_hi) / 2, (im_lo + im_hi) / 2
    rad = sqrt_up(((re_hi - re_lo) / 2) ** 2 + ((im_hi - im_lo) / 2) ** 2)
    return decide_disc(yre, yim, c_re, c_im, rad, p, slack)


def decide_scaled(yre, yim, z, lo, hi, p, slack=7):
    """reference v = z*h with h anywhere in [lo, hi] (z, lo, hi rational)"""
    v1, v2 = z * lo, z * hi
    if v1 > v2:
        v1, v2 = v2, v1
    return decide_box(yre, yim, v1, v2, Fraction(0), Fraction(0), p, slack)


# ---- purely imaginary argument: even / odd parts are real hypergeometric series (for the tie with mpdrv) ----

def imag_axis_split(A, B, y):
    """pFq(A; B; i y) for real rational A, B, y:
         Re = 2pF(2q+1)(a/2, (a+1)/2; b/2, (b+1)/2, 1/2; w),     Im = y prod(a)/prod(b) 2pF(2q+1)((a+1)/2, (a+2)/2; (b+1)/2, (b+2)/2, 3/2; w)
       with w = -y^2 4^(p-q-1)   [(a)_(2m) = 4^m (a/2)_m ((a+1)/2)_m, (2m)! = 4^m (1/2)_m m!, (2m+1)! = 4^m (3/2)_m m!].
       Returns (A_even, B_even, A_odd, B_odd, w, factor_odd)."""
    A = [Fraction(a) for a in A]
    B = [Fraction(b) for b in B]
    y = Fraction(y)
    p, q = len(A), len(B)
    w = -y * y * Fraction(4) ** (p - q - 1)
    Ae = [x for a in A for x in (a / 2, (a + 1) / 2)]
    Be = [x for b in B for x in (b / 2, (b + 1) / 2)] + [Fraction(1, 2)]
    Ao = [x for a in A for x in ((a + 1) / 2, (a + 2) / 2)]
    Bo = [x for b in B for x in ((b + 1) / 2, (b + 2) / 2)] + [Fraction(3, 2)]
    fac = y
    for a in A:
        fac *= a
    for b in B:
        fac /= b
    return Ae, Be, Ao, Bo, w, fac
