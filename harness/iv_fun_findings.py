"""Known-finding predicates for the failing inputs produced by harness/iv_fun_ops.py (C14 / C15, transcendental part),
and the PROPOSED entries for /verif/known_findings.json (same format as the existing entries).

Importing this module registers the predicates in harness/findings.py (`findings.PREDICATES`), so the runner's
`findings.match` can use them.  Each predicate is a narrow, decidable description of ONE defect family of the unchanged
/repo; it is evaluated on the `input` dict of a failing input (fields: fun, prec, args (enc_mpf strings), class,
side, component, excess_log2_ulp = k: the exact value lies about 2^k ulps of the prec-bit grid beyond the violated
endpoint).
"""
from findings import predicate
from common import dec_mpf


def _sgn(s):
    """sign of an encoded mpf (-1, 0, 1); infinities count by their sign; nan -> None"""
    sign, man, exp, bc = dec_mpf(s)
    if man:
        return -1 if sign else 1
    if exp == 0:
        return 0
    if (sign, man, exp, bc) == (0, 0, -456, -2):
        return 1
    if (sign, man, exp, bc) == (1, 0, -789, -3):
        return -1
    return None


def _mag(s):
    """exponent g with |x| < 2^g (None for zero / specials)"""
    sign, man, exp, bc = dec_mpf(s)
    return exp + bc if man else None


def _k(inp):
    k = inp.get("excess_log2_ulp")
    return k if isinstance(k, int) else None


def _contain(inp):
    return inp.get("class") == "contain"


# ---- directed rounding applied to a value that was computed (truncated) with g guard bits ---------------------------
@predicate("ivfun_exp_upper_within_2^-11_ulp")
def _exp_upper(inp):
    """mpf_exp(x, prec, round_ceiling) rounds the TRUNCATED fixed-point value exp_basecase(t, prec+14): when that value
    has zeros below bit prec the result is below exp(x).  Only upper endpoints, excess at most 2^-11 ulp."""
    k = _k(inp)
    return _contain(inp) and inp.get("side") == "upper" and k is not None and k <= -11


@predicate("ivfun_log_within_2^-16_ulp")
def _log_tail(inp):
    k = _k(inp)
    return _contain(inp) and k is not None and k <= -16 and inp.get("component", 0) == 0


@predicate("ivfun_atan_within_2^-26_ulp")
def _atan_tail(inp):
    k = _k(inp)
    return _contain(inp) and k is not None and k <= -26


# ---- atan2 -----------------------------------------------------------------------------------------------------------
def _yx(inp):
    """(ya, yb, xa, xb) encoded, for atan2 (args = [y, x]) and for complex log / arg (args = [[re, im]])"""
    a = inp["args"]
    if inp.get("fun") == "atan2":
        return a[0][0], a[0][1], a[1][0], a[1][1]
    re, im = a[0]
    return im[0], im[1], re[0], re[1]


def _is_arg_component(inp):
    return inp.get("fun") in ("atan2", "carg") or (inp.get("fun") == "clog" and inp.get("component") == 1)


@predicate("ivfun_atan2_within_quarter_ulp")
def _atan2_round(inp):
    """mpf_atan2 computes atan(y/x) (and pi) rounded TO NEAREST at prec+4 bits and only then rounds in the requested
    direction: endpoints can be on the wrong side by up to 2^-3 ulp (2^-3 itself is reached: k = -2 in the magnitude convention
    of excess_bits means an excess in [2^-3, 2^-2) ulp, i.e. still "within a quarter ulp" as the name of the predicate says)"""
    k = _k(inp)
    return _contain(inp) and _is_arg_component(inp) and k is not None and k <= -2


@predicate("ivfun_atan2_zero_y_x_straddles_zero")
def _atan2_real_axis(inp):
    """mpi_atan2 with y = [0, 0]: returns [0, 0] if xa >= 0, otherwise pi -- for xa < 0 <= xb the value 0 (points x >= 0) is lost"""
    if not (_contain(inp) and _is_arg_component(inp)):
        return False
    ya, yb, xa, xb = _yx(inp)
    return _sgn(ya) == 0 and _sgn(yb) == 0 and _sgn(xa) == -1 and _sgn(xb) in (0, 1)


@predicate("ivfun_atan2_lower_half_plane_touching_negative_axis")
def _atan2_illformed(inp):
    """mpi_atan2 'lower half-plane' branch with yb = 0 and xa < 0: lower endpoint = atan2(0, xa) = +pi, upper endpoint <= 0"""
    if inp.get("class") != "wellformed":
        return False
    ya, yb, xa, xb = _yx(inp)
    return _sgn(yb) == 0 and _sgn(ya) == -1 and _sgn(xa) == -1


# ---- complex cos / sin: sinh of a small imaginary part ---------------------------------------------------------------------
@predicate("ivfun_sinh_small_imaginary_part")
def _small_imag(inp):
    """mpi_cosh_sinh forms (e^y - e^-y)/2 from mpi_exp at prec+44 bits: at points with |y| < 2^-40 the cancellation leaves a
    sinh interval that does not contain sinh(y) (even [0, 0] when |y| ~ 2^-(prec+44)).  Imaginary part of the result only,
    failing sample point with |Im| < 2^-40."""
    if not (_contain(inp) and inp.get("fun") in ("ccos", "csin") and inp.get("component") == 1):
        return False
    pm = inp.get("point_mag")
    return isinstance(pm, list) and len(pm) == 2 and pm[1] is not None and pm[1] <= -40


@predicate("ivfun_within_2^-11_ulp")
def _within_11(inp):
    """either side, excess at most 2^-11 ulp: an mpf_exp round_ceiling defect (IV1) that survives the outward rounding of the
    following exact product (e.g. e^x cos y with both factors short)"""
    k = _k(inp)
    return _contain(inp) and k is not None and k <= -11


PROPOSED_FINDINGS = [
    {"id": "IV1", "property": "C14", "status": "finding", "site": "iv.exp.contain",
     "predicate": "ivfun_exp_upper_within_2^-11_ulp",
     "what": "mpi_exp upper endpoint below exp(b): mpf_exp(..., round_ceiling) rounds the truncated (prec+14)-bit fixed-point "
             "value, so the direction is lost when the exact value is less than ~2^-11 ulp above a prec-bit number "
             "(always for tiny b with few bits: exp(3*2^-23) at 24 bits = 1+3*2^-23)",
     "witness": "iv.prec=53; iv.exp(iv.mpf(13057968*2**-17)).b < exp(13057968*2^-17)  (by 2^-15 ulp);  mpf_exp(from_man_exp(3,-23), 24, 'c') == 1+3*2^-23"},
    {"id": "IV2", "property": "C14", "status": "finding", "site": "iv.pow.contain",
     "predicate": "ivfun_exp_upper_within_2^-11_ulp",
     "what": "mpi_pow (non-integer exponent) = mpi_exp(t*mpi_log(s)): inherits the mpf_exp round_ceiling defect (IV1); upper endpoint "
             "below x**y by at most 2^-11 ulp",
     "witness": "iv.prec=53; (iv.mpf(5231035265782039*2**-46) ** iv.mpf(13610855*2**-29)).b < exact power (by 2^-13 ulp)"},
    {"id": "IV3", "property": "C14", "status": "finding", "site": "iv.log.contain",
     "predicate": "ivfun_log_within_2^-16_ulp",
     "what": "mpi_log endpoints on the wrong side: mpf_log rounds a (prec+20)-bit fixed-point value (error a few units) in the requested "
             "direction, so the direction is lost when log(x) is within ~2^-16 ulp of a prec-bit number; systematic for x = 1+eps with few "
             "bits (log(1+2^-23) at 24 bits returns eps-eps^2/2 exactly as UPPER endpoint); even point results for ordinary x",
     "witness": "mpf_log(from_man_exp(8388609,-23), 24, 'c') == (2^24-1)*2^-47 < log(1+2^-23);  "
                "iv.prec=127; iv.log(iv.mpf(14583909*2**-26)) is a point interval (a == b), log is irrational"},
    {"id": "IV4", "property": "C14", "status": "finding", "site": "iv.atan.contain",
     "predicate": "ivfun_atan_within_2^-26_ulp",
     "what": "mpi_atan endpoint equals x for small x with few bits (x^3/3 below the working precision prec+30+|mag|): "
             "upper endpoint for x<0 / lower endpoint for x>0 on the wrong side",
     "witness": "mpf_atan(from_man_exp(-1481,-111), 168, 'c') == -1481*2^-111 < atan(-1481*2^-111)"},
    {"id": "IV5", "property": "C14", "status": "finding", "site": "iv.atan2.contain",
     "predicate": "ivfun_atan2_within_quarter_ulp",
     "what": "mpi_atan2 endpoints come from mpf_atan2, which rounds atan(y/x) and pi TO NEAREST at prec+4 bits before the directed "
             "rounding: about 1 endpoint in 30 is on the wrong side (by up to 2^-3 ulp)",
     "witness": "iv.prec=99; iv.atan2(iv.mpf(-2**-99), iv.mpf(11953097*2.0**-1024)).a > -pi/2"},
    {"id": "IV6", "property": "C14", "status": "finding", "site": "iv.atan2.contain",
     "predicate": "ivfun_atan2_zero_y_x_straddles_zero",
     "what": "mpi_atan2 with y = [0,0] and xa < 0 <= xb returns the pi interval only: atan2(0, x) = 0 for the points x >= 0 is not contained",
     "witness": "iv.atan2(iv.mpf(0), iv.mpf([-1, 1])) == [pi_lo, pi_hi], does not contain atan2(0, 1) = 0"},
    {"id": "IV7", "property": "C14", "status": "finding", "site": "iv.atan2.wellformed",
     "predicate": "ivfun_atan2_lower_half_plane_touching_negative_axis",
     "what": "mpi_atan2 with yb = 0, ya < 0, xa < 0 returns [pi, negative]: lower endpoint above upper endpoint (contains nothing)",
     "witness": "iv.atan2(iv.mpf([-1,0]), iv.mpf([-2,-1])) == [3.14159..., -2.35619...]"},
    {"id": "IV8", "property": "C15", "status": "finding", "site": "iv.mpc.log.contain",
     "predicate": "ivfun_atan2_within_quarter_ulp",
     "what": "imaginary part of iv.log(ivmpc) = mpi_atan2: nearest rounding at prec+4 bits before the directed rounding (see IV5)",
     "witness": "see IV5"},
    {"id": "IV9", "property": "C15", "status": "finding", "site": "iv.mpc.log.contain",
     "predicate": "ivfun_atan2_zero_y_x_straddles_zero",
     "what": "iv.log of a rectangle [xa, xb] + 0j with xa < 0 <= xb: imaginary part is the pi interval, 0 (positive reals) not contained (see IV6)",
     "witness": "iv.log(iv.mpc(iv.mpf([-1, 1]), 0)).imag"},
    {"id": "IV10", "property": "C15", "status": "finding", "site": "iv.mpc.log.wellformed",
     "predicate": "ivfun_atan2_lower_half_plane_touching_negative_axis",
     "what": "iv.log of a rectangle in the closed lower half-plane touching the negative real axis: imaginary part [pi, negative] (see IV7)",
     "witness": "iv.log(iv.mpc([-2,-1],[-1,0])).imag == [3.14159..., -2.35619...]"},
    {"id": "IV11", "property": "C15", "status": "finding", "site": "iv.mpc.log.contain",
     "predicate": "ivfun_log_within_2^-16_ulp",
     "what": "real part of iv.log(ivmpc) = mpi_log(|z|): same Taylor-tail defect as IV3",
     "witness": "see IV3"},
    {"id": "IV12", "property": "C15", "status": "finding", "site": "iv.mpc.arg.contain",
     "predicate": "ivfun_atan2_within_quarter_ulp", "what": "iv.arg(ivmpc) = mpi_atan2 (see IV5)", "witness": "see IV5"},
    {"id": "IV13", "property": "C15", "status": "finding", "site": "iv.mpc.arg.contain",
     "predicate": "ivfun_atan2_zero_y_x_straddles_zero", "what": "iv.arg(ivmpc) = mpi_atan2 (see IV6)", "witness": "see IV6"},
    {"id": "IV14", "property": "C15", "status": "finding", "site": "iv.mpc.arg.wellformed",
     "predicate": "ivfun_atan2_lower_half_plane_touching_negative_axis", "what": "iv.arg(ivmpc) = mpi_atan2 (see IV7)", "witness": "see IV7"},
    {"id": "IV15", "property": "C15", "status": "finding", "site": "iv.mpc.sin.contain",
     "predicate": "ivfun_sinh_small_imaginary_part",
     "what": "iv.sin(x+iy) imaginary part cos(x)*sinh(y): mpi_cosh_sinh computes (e^y - e^-y)/2 by cancellation; for |y| < 2^-40 the sinh "
             "interval is wrong (it is [0,0] for |y| about 2^-(prec+44))",
     "witness": "iv.prec=5; iv.sin(iv.mpc(884279719003555*2**-47, iv.mpf([15*2**-54, 33*2**-55]))).imag == [0,0]; exact 8.3e-16"},
    {"id": "IV17", "property": "C15", "status": "finding", "site": "iv.mpc.exp.contain",
     "predicate": "ivfun_within_2^-11_ulp",
     "what": "iv.exp(x+iy) = mpi_exp(x)*cos/sin(y): the mpf_exp round_ceiling defect (IV1) is exposed when the product e^x*cos(y) needs no "
             "rounding (tiny x and y with few bits); excess below 2^-40 ulp in the observed cases",
     "witness": "iv.prec=113; iv.exp(iv.mpc(iv.mpf(2)**-51, -9752898313359545662512000995332273*iv.mpf(2)**-213)).real.b < e^x cos y"},
    {"id": "IV18", "property": "C15", "status": "finding", "site": "iv.mpc.sin.contain",
     "predicate": "ivfun_within_2^-11_ulp",
     "what": "iv.sin(x+iy): cosh/sinh are built from mpi_exp, so the mpf_exp round_ceiling defect (IV1) shows when no later rounding hides "
             "it (sinh(y) upper endpoint = y exactly for y = 3*2^-36 at 18 bits)",
     "witness": "iv.prec=18; iv.sin(iv.mpc(0, iv.mpf([0, 3*2**-36]))).imag.b == 3*2^-36 < sinh(3*2^-36)"},
    {"id": "IV19", "property": "C15", "status": "finding", "site": "iv.mpc.cos.contain",
     "predicate": "ivfun_within_2^-11_ulp",
     "what": "iv.cos(x+iy): same as IV18", "witness": "see IV18"},
    {"id": "IV16", "property": "C15", "status": "finding", "site": "iv.mpc.cos.contain",
     "predicate": "ivfun_sinh_small_imaginary_part",
     "what": "iv.cos(x+iy) imaginary part -sin(x)*sinh(y): same mpi_cosh_sinh cancellation defect as IV15",
     "witness": "iv.prec=4; iv.cos(iv.mpc(iv.mpf(-7073)*2**-1013, iv.mpf(7*2**-53))).imag == [0,0]; exact 6.26e-317"},
]
