"""Exact (rational-arithmetic) decisions of the specification on implementation outputs.
Used only to search for / decide failing inputs after a correspondence or proof obligation
breaks (and as an always-on monitor); it never stands in for a theorem."""
from fractions import Fraction

FZERO = (0, 0, 0, 0); FNAN = (0, 0, -123, -1); FINF = (0, 0, -456, -2); FNINF = (1, 0, -789, -3)
SPECIALS = (FNAN, FINF, FNINF)


def is_special(t):
    return (not t[1]) and t[2] != 0


def val(t):
    s, m, e, b = t
    assert not is_special(t)
    v = Fraction(m) * (Fraction(2) ** e if abs(e) < 200000 else _pow2(e))
    return -v if s else v


def _pow2(e):
    return Fraction(1 << e) if e >= 0 else Fraction(1, 1 << (-e))


def is_canonical(t):
    t = tuple(t)
    if t == FZERO or t in SPECIALS:
        return True
    s, m, e, b = t
    return s in (0, 1) and m > 0 and (m & 1) == 1 and b == m.bit_length()


def ilog2(x):
    """floor(log2 x) for a positive Fraction"""
    n, d = x.numerator, x.denominator
    k = n.bit_length() - d.bit_length()
    # 2^k <= x < 2^(k+1) ?  adjust
    if k >= 0:
        if n < (d << k):
            k -= 1
    else:
        if (n << (-k)) < d:
            k -= 1
    return k


def round_ref(prec, rnd, x):
    """the correctly rounded value (as (signed mantissa, exponent)) of the rational x to prec bits"""
    if x == 0:
        return (0, 0)
    neg = x < 0
    a = -x if neg else x
    k = ilog2(a)
    sc = k - prec + 1
    n, d = a.numerator, a.denominator
    if sc >= 0:
        d <<= sc
    else:
        n <<= (-sc)
    q, r = divmod(n, d)
    if rnd == 'n':
        c = 2 * r - d
        up = c > 0 or (c == 0 and (q & 1))
    elif rnd == 'd':
        up = False
    elif rnd == 'u':
        up = r != 0
    elif rnd == 'f':
        up = neg and r != 0
    elif rnd == 'c':
        up = (not neg) and r != 0
    else:
        raise ValueError(rnd)
    if up:
        q += 1
    return (-q if neg else q, sc)


def same_value(t, me):
    m, e = me
    if not t[1]:
        return m == 0 and tuple(t) == FZERO
    tm = -t[1] if t[0] else t[1]
    # compare tm*2^te with m*2^e exactly
    te = t[2]
    lo = min(te, e)
    return (tm << (te - lo)) == (m << (e - lo))


def round_ok(prec, rnd, x, r):
    """RoundOK prec rnd x r: r canonical; prec = 0 -> exact; else correctly rounded with bc <= prec"""
    r = tuple(r)
    if is_special(r) or not is_canonical(r):
        return False
    if prec == 0:
        return val(r) == x
    if r[3] > prec:
        return False
    return same_value(r, round_ref(prec, rnd, x))


def enclosing_ok(rnd, x, r):
    """directed-rounding side condition only: r on the correct side of x"""
    v = val(r)
    if rnd == 'f': return v <= x
    if rnd == 'c': return v >= x
    if rnd == 'd': return abs(v) <= abs(x) and (v == 0 or (v > 0) == (x > 0))
    if rnd == 'u': return abs(v) >= abs(x) and (x == 0 or (v > 0) == (x > 0))
    return True
