"""developer helper: run a check module in-process and list the failing inputs NOT matched by known_findings.json
usage: unmatched.py <PID> [seed]"""
import sys, os, types, json, importlib
sys.path.insert(0, os.path.dirname(os.path.abspath(__file__)))
from common import load_known_findings, import_repo
import findings
import_repo()
pid = sys.argv[1]; seed = int(sys.argv[2]) if len(sys.argv) > 2 else 0
cfg = importlib.import_module("props." + pid)
res = cfg.run(types.SimpleNamespace(seed=seed, quick=True, replay=None, pid=pid, tier="quick"))
known = [k for k in load_known_findings() if k.get("property") == pid and k.get("status") == "finding"]
hit, un = {}, []
for f in res["failing_inputs"]:
    k = findings.match(known, f)
    if k: hit[k["id"]] = hit.get(k["id"], 0) + 1
    else: un.append(f)
print("failing", len(res["failing_inputs"]), "known", hit, "unmatched", len(un), "disagreements", len(res["disagreements"]))
for f in un[:25]: print("  ", f["site"], "|", f["what"][:260])
