"""API-level correspondence: the PUBLIC objects of mpmath (mp, mpf, mpc, iv) against the proved Lean model.

The Lean theorems (Props/C01, C02, C05, C10) say that the modelled libmpf core returns THE correctly rounded /
canonical / exact answer.  Because that answer is unique, the compiled driver's answer for the exact operands is the
expected `_mpf_` tuple of every public operation the property text says is correctly rounded, whatever route the glue
code (operator dispatch, keyword parsing, convert()) takes.  This module generates public calls, expresses each one as
the driver request for the SAME exact operation (one rounding of the exact result), runs both, compares bit for bit and
additionally decides the property on the implementation output in exact rational arithmetic (spec.round_ok / specdec).

Families
  ApiArith  (C02)  operators, reflected operators, fadd/fsub/fmul/fdiv/fneg/fabs keywords, mpf() construction, sqrt,
                   unary + - abs, fsum / fdot under the property's hypothesis
  ApiCmp    (C05)  == != < <= > >= across mpf / int / float / mpc / complex, nan, exactness below the working precision
  ApiIntPart(C06)  floor ceil nint frac int() fmod % (real and componentwise complex)
  sweep     (C01/C10) broad call sweep in worker subprocesses with a hard per-call timeout

A case is a JSON-serialisable dict (replayable with `replay_case`).  All randomness comes from one random.Random(seed).

usage:  python api_ops.py [family] [ncases] [seed]        family in arith|cmp|intpart|sweep|sweep-strict|all
        python api_ops.py replay '<case or task json>'
"""
import os, sys, json, math, time, select, subprocess, threading, queue
from fractions import Fraction

sys.path.insert(0, os.path.dirname(os.path.abspath(__file__)))
from common import *  # noqa
import spec, specdec

RNDS5 = ["n", "f", "c", "u", "d"]


# ======================================================================================
# value specs: JSON-able descriptions of Python operands, their exact value, their exact mpf encoding
# ======================================================================================

def canon(m, e):
    """canonical raw mpf tuple of the dyadic m * 2**e (independent of libmp)"""
    if m == 0:
        return (0, 0, 0, 0)
    s = 1 if m < 0 else 0
    m = abs(m)
    t = (m & -m).bit_length() - 1
    m >>= t
    return (s, m, e + t, m.bit_length())


def _mods():
    import_repo()
    import mpmath
    import mpmath.libmp as L
    import mpmath.rational as RQ
    return mpmath, L, RQ


def float_spec(x):
    return ["float", x.hex() if x == x and abs(x) != float("inf") else repr(x)]


def _float_of(s):
    if s in ("nan", "inf", "-inf"):
        return float(s)
    return float.fromhex(s)


def build(ctx, v, RQ=None):
    """the Python object described by spec v (mpf/mpc objects belong to context ctx)"""
    k = v[0]
    if k == "int": return int(v[1])
    if k == "float": return _float_of(v[1])
    if k == "mpf": return ctx.make_mpf((int(v[1]), int(v[2]), int(v[3]), int(v[4])))
    if k == "frac": return Fraction(int(v[1]), int(v[2]))
    if k == "mpq":
        import mpmath.rational as R
        return R.mpq(int(v[1]), int(v[2]))
    if k == "str": return v[1]
    if k == "tuple2": return (int(v[1]), int(v[2]))
    if k == "tuple4": return (int(v[1]), int(v[2]), int(v[3]), int(v[4]))
    if k == "mpc": return ctx.make_mpc((tuple(int(a) for a in v[1]), tuple(int(a) for a in v[2])))
    if k == "complex": return complex(_float_of(v[1]), _float_of(v[2]))
    if k == "bool": return bool(v[1])
    if k == "list": return [build(ctx, a) for a in v[1]]
    if k == "tuple": return tuple(build(ctx, a) for a in v[1])
    if k == "matrix": return ctx.matrix([[build(ctx, a) for a in row] for row in v[1]])
    if k == "ivmpf": return _mk_iv(ctx, v)
    if k == "fn": return FUNCS[v[1]](ctx)
    if k == "none": return None
    if k == "const": return getattr(ctx, v[1])
    raise ValueError("bad spec %r" % (v,))


def _mk_iv(ctx, v):
    a = tuple(int(t) for t in v[1]); b = tuple(int(t) for t in v[2])
    return ctx.make_mpf((a, b))


SPECIAL = {"nan": spec.FNAN, "inf": spec.FINF, "-inf": spec.FNINF}


def raw_of(v):
    """exact raw mpf tuple of a real spec when it is dyadic or special, else None (non-dyadic rational)"""
    k = v[0]
    if k == "int": return canon(int(v[1]), 0)
    if k == "float":
        if v[1] in SPECIAL: return SPECIAL[v[1]]
        p, q = float.fromhex(v[1]).as_integer_ratio()
        return canon(p, -(q.bit_length() - 1))
    if k == "mpf": return (int(v[1]), int(v[2]), int(v[3]), int(v[4]))
    if k in ("frac", "mpq"):
        p, q = int(v[1]), int(v[2])
        f = Fraction(p, q)
        if f.denominator & (f.denominator - 1) == 0:
            return canon(f.numerator, -(f.denominator.bit_length() - 1))
        return None
    if k == "str":
        f = Fraction(v[1])
        if f.denominator & (f.denominator - 1) == 0:
            return canon(f.numerator, -(f.denominator.bit_length() - 1))
        return None
    if k == "tuple2": return canon(int(v[1]), int(v[2]))
    if k == "tuple4": return canon(-int(v[2]) if int(v[1]) else int(v[2]), int(v[3]))
    raise ValueError("not a real spec %r" % (v,))


def exact_of(v):
    """Fraction value of a finite real spec; None for specials"""
    k = v[0]
    if k in ("frac", "mpq"): return Fraction(int(v[1]), int(v[2]))
    if k == "str": return Fraction(v[1])
    t = raw_of(v)
    if spec.is_special(t): return None
    return spec.val(t)


def is_special_spec(v):
    t = raw_of(v) if v[0] not in ("frac", "mpq", "str") else None
    return t is not None and spec.is_special(t)


def enc_any(r):
    """canonical text of an arbitrary public result"""
    if isinstance(r, bool): return "B:%d" % r
    if isinstance(r, int): return "I:%d" % r
    if hasattr(r, "_mpf_"): return enc_mpf(r._mpf_)
    if hasattr(r, "_mpc_"): return "C:%s,%s" % (enc_mpf(r._mpc_[0]), enc_mpf(r._mpc_[1]))
    if r is NotImplemented: return "?:NotImplemented"
    return "?:" + type(r).__name__


def call_enc(thunk):
    try:
        return enc_any(thunk())
    except RecursionError:
        raise
    except Exception as e:  # noqa
        return enc_exc(e)


# ======================================================================================
# generators of operands
# ======================================================================================

class OpGen:
    def __init__(self, seed):
        self.g = Gen(seed)
        self.r = self.g.r
        self.mpm, self.L, self.RQ = _mods()

    def note(self, k, v):
        self.g.note(k, v)

    def prec(self):
        r = self.r
        p = r.choice([1, 2, 3, 5, 10, 24, 53, 53, 53, 64, 100, 113, 200]) if r.random() < 0.8 else r.randint(1, 260)
        return p

    def raw(self, prec, special_p=0.04, big=False):
        return self.g.mpf(prec, special_p=special_p, big_exp=big)

    def int_(self, prec):
        r = self.r
        k = r.random()
        if k < 0.35: return r.randint(-40, 40)
        if k < 0.45: return r.choice([0, 1, -1, 2, -2])
        if k < 0.6: return r.choice([1, -1]) * (1 << r.randint(0, 300))
        if k < 0.75: return r.choice([1, -1]) * r.choice([1023, 1025, 2 ** 31, 2 ** 53 + 1, 2 ** 64 - 1, 10 ** 9 + 7, 3 ** 40, 10 ** 30])
        return r.choice([1, -1]) * self.g.man(self.g.nbits(prec), prec) << r.choice([0, 0, 0, 3, 70])

    def float_(self):
        r = self.r
        k = r.random()
        if k < 0.08: return r.choice([0.0, -0.0])
        if k < 0.16: return r.choice([float("inf"), float("-inf"), float("nan")])
        if k < 0.28:   # subnormals
            return r.choice([1, -1]) * math.ldexp(r.choice([1, 3, r.getrandbits(52) | 1, (1 << 52) - 1, r.getrandbits(20) | 1]), -1074)
        if k < 0.40: return r.choice([1.0, -1.0, 0.5, 0.1, -0.1, 1e22, 1e23, 1e-5, 2.0 ** 1023, 1.7976931348623157e308, 2.2250738585072014e-308, 4.9e-324, 3.0, 1.5])
        m = self.g.man(r.randint(1, 53), None)
        e = r.choice([r.randint(-60, 60), r.randint(-1074, 960), -m.bit_length(), 0])
        try:
            x = math.ldexp(m, e)
        except OverflowError:
            x = float(m)
        return -x if r.random() < 0.5 else x

    def rational(self, prec, dyadic_p=0.2):
        """(p, q) with q > 0; mostly non-dyadic"""
        r = self.r
        if r.random() < dyadic_p:
            p = self.int_(prec) or 1
            return p, 1 << r.randint(0, 80)
        q = r.choice([3, 5, 7, 10, 6, 12, 30, 997, 10 ** 9 + 7, 3 ** 30, (1 << r.randint(1, 70)) * 3, (1 << r.randint(2, 120)) - 1,
                      self.g.man(self.g.nbits(prec), prec) | 1])
        if q in (1,): q = 3
        p = r.choice([1, 2, -1, -2, r.randint(-50, 50) or 1, self.int_(prec) or 1])
        return p, q

    def dyadic_str(self, prec):
        r = self.r
        k = max(1, min(prec, 16))
        m = (r.getrandbits(k) | 1) * r.choice([1, -1])
        e = r.randint(-8, 8)
        f = Fraction(m) * Fraction(2) ** e
        style = r.random()
        if style < 0.3 and f.denominator != 1:
            return "%d/%d" % (f.numerator, f.denominator)
        # exact finite decimal expansion
        n, d = f.numerator, f.denominator
        k2 = d.bit_length() - 1
        digits = abs(n) * 5 ** k2
        s = str(digits).rjust(k2 + 1, "0")
        txt = (s[:-k2] + "." + s[-k2:]) if k2 else s
        if style > 0.85:
            txt = txt + "e0"
        return ("-" if n < 0 else "") + txt

    def operand(self, typ, prec, special_p=0.04):
        """spec of one operand of the given Python type"""
        r = self.r
        if typ == "int": return ["int", self.int_(prec)]
        if typ == "float": return float_spec(self.float_())
        if typ == "mpf":
            t = self.raw(prec, special_p)
            return ["mpf"] + list(t)
        if typ == "frac":
            p, q = self.rational(prec); return ["frac", p, q]
        if typ == "mpq":
            p, q = self.rational(prec); return ["mpq", p, q]
        if typ == "str": return ["str", self.dyadic_str(prec)]
        raise ValueError(typ)

    def related(self, x, prec, typ):
        """an operand of type typ numerically related to the raw mpf x (cancellation, ties, carries)"""
        r = self.r
        if not x[1]:
            return self.operand(typ, prec)
        if typ == "mpf":
            return ["mpf"] + list(self.g.near(x, prec))
        if typ == "int":
            v = spec.val(x) if abs(x[2]) < 2000 else None
            if v is not None and abs(v) < 2 ** 400:
                return ["int", int(v) + r.choice([-1, 0, 1, 2])]
        if typ == "float":
            try:
                f = float(Fraction(-x[1] if x[0] else x[1]) * Fraction(2) ** x[2]) if abs(x[2]) < 1100 else None
            except OverflowError:
                f = None
            if f is not None and f == f and abs(f) != float("inf"):
                return float_spec(f * r.choice([1.0, -1.0, 1.0000000000000002, 0.9999999999999999, 0.5, 3.0]))
        return self.operand(typ, prec)


# ======================================================================================
# C02: arithmetic family
# ======================================================================================

OPSYM = {"+": "add", "-": "sub", "*": "mul", "/": "div"}
FOP = {"fadd": "add", "fsub": "sub", "fmul": "mul", "fdiv": "div"}


def make_ctx(mp, prec, rnd):
    c = mp.clone()
    c.prec = prec
    c._prec_rounding[1] = rnd      # the only knob for the context rounding of the operators
    return c


def _apply_binop(op, a, b):
    if op == "+": return a + b
    if op == "-": return a - b
    if op == "*": return a * b
    if op == "/": return a / b
    if op == "%": return a % b
    if op == "==": return a == b
    if op == "!=": return a != b
    if op == "<": return a < b
    if op == "<=": return a <= b
    if op == ">": return a > b
    if op == ">=": return a >= b
    raise ValueError(op)


def kw_effective(L, ctxprec, ctxrnd, kw):
    """(prec, rnd) an f*-style call is documented to use; prec 0 = exact"""
    if kw.get("exact"):
        return 0, "f"
    prec, rnd = ctxprec, ctxrnd
    if "rounding" in kw: rnd = kw["rounding"]
    if "prec" in kw:
        if kw["prec"] == "inf": return 0, "f"
        prec = int(kw["prec"])
    elif "dps" in kw:
        if kw["dps"] == "inf": return 0, "f"
        prec = L.dps_to_prec(kw["dps"])
    return prec, rnd


def build_kw(ctx, kw):
    out = {}
    for k, v in kw.items():
        out[k] = ctx.inf if v == "inf" else v
    return out


class ApiArith:
    """each gen_* returns a case dict; run_case executes it on the real public API; expect_case gives the driver line /
    exact value"""

    TYPES_BIN = ["int", "float", "mpf", "frac", "mpq"]

    def __init__(self, seed):
        self.og = OpGen(seed)
        self.r = self.og.r
        self.mpm, self.L, self.RQ = self.og.mpm, self.og.L, self.og.RQ
        self.mp = self.mpm.mp

    # ---- generators ------------------------------------------------------------------
    def gen_binop(self):
        og, r = self.og, self.r
        prec = og.prec()
        rnd = "n" if r.random() < 0.5 else r.choice(RNDS5)
        op = r.choice("+-*/")
        typ = r.choices(self.TYPES_BIN, [3, 3, 3, 2, 2])[0]
        refl = r.random() < 0.4 and typ != "mpf"
        a = og.raw(prec)
        if r.random() < 0.5 or typ in ("frac", "mpq"):
            b = og.operand(typ, prec)
        else:
            b = og.related(a, prec, typ)
        if typ in ("frac", "mpq") and spec.is_special(a):
            a = og.raw(prec, special_p=0)
        return {"kind": "binop", "op": op, "refl": refl, "a": ["mpf"] + list(a), "b": b, "prec": prec, "rnd": rnd,
                "key": "%s%s:%s" % ("r" if refl else "", op, typ)}

    def gen_fop(self):
        og, r = self.og, self.r
        prec = og.prec()
        rnd = "n"
        name = r.choice(["fadd", "fsub", "fmul", "fdiv", "fneg", "fabs"])
        kw = {}
        if name != "fabs":
            k = r.random()
            if k < 0.25: kw["prec"] = og.prec()
            elif k < 0.40: kw["dps"] = r.choice([1, 2, 3, 5, 15, 16, 30, 50])
            elif k < 0.50 and name != "fdiv": kw["exact"] = True
            elif k < 0.60 and name != "fdiv": kw["prec"] = "inf"
            elif k < 0.63 and name != "fdiv": kw["dps"] = "inf"
            if r.random() < 0.7: kw["rounding"] = r.choice(RNDS5)
        ta = r.choices(["int", "float", "mpf", "frac", "mpq", "str"], [3, 3, 4, 1, 1, 1])[0]
        a = og.operand(ta, prec)
        case = {"kind": "fop", "name": name, "a": a, "prec": prec, "rnd": rnd, "kw": kw}
        if name in FOP:
            tb = r.choices(["int", "float", "mpf", "frac", "mpq", "str"], [3, 3, 4, 1, 1, 1])[0]
            ra = raw_of(a)
            if ra is not None and r.random() < 0.5:
                b = og.related(ra, prec, tb)
            else:
                b = og.operand(tb, prec)
            case["b"] = b
            # exact mode with astronomically far apart exponents needs unbounded memory (documented OverflowError)
            case["key"] = "%s:%s,%s" % (name, ta, tb)
        else:
            case["key"] = "%s:%s" % (name, ta)
        kwk = "exact" if (kw.get("exact") or kw.get("prec") == "inf" or kw.get("dps") == "inf") else \
              ("prec" if "prec" in kw else ("dps" if "dps" in kw else "ctx"))
        case["kwkey"] = kwk + ("+rounding" if "rounding" in kw else "")
        return case

    def gen_ctor(self):
        og, r = self.og, self.r
        prec = og.prec()
        rnd = "n" if r.random() < 0.5 else r.choice(RNDS5)
        typ = r.choices(["int", "float", "mpf", "frac", "mpq", "tuple2", "tuple4", "str"], [3, 3, 3, 2, 1, 2, 1, 1])[0]
        if typ == "tuple2":
            m = og.g.man(og.g.nbits(prec), prec) * r.choice([1, -1]) << r.choice([0, 0, 1, 5])
            if r.random() < 0.05: m = 0
            a = ["tuple2", m, og.g.exp(big=r.random() < 0.3)]
        elif typ == "tuple4":
            m = og.g.man(og.g.nbits(prec), prec) << r.choice([0, 0, 1, 5])
            a = ["tuple4", r.randint(0, 1), m, og.g.exp(big=r.random() < 0.3), m.bit_length()]
        else:
            a = og.operand(typ, prec, special_p=0.08)
        kw = {}
        k = r.random()
        if k < 0.2: kw["prec"] = og.prec()
        elif k < 0.3: kw["dps"] = r.choice([1, 3, 15, 30])
        if r.random() < 0.3: kw["rounding"] = r.choice(RNDS5)
        return {"kind": "ctor", "a": a, "prec": prec, "rnd": rnd, "kw": kw, "key": "mpf(%s)" % typ}

    def gen_sqrt(self):
        og, r = self.og, self.r
        prec = og.prec()
        typ = r.choice(["int", "float", "mpf", "mpf"])
        k = r.random()
        if typ == "mpf":
            if k < 0.5:
                t = og.raw(prec, special_p=0.03)
                t = (0,) + tuple(t[1:]) if t[1] else (t if t != spec.FNINF else spec.FINF)
            else:
                nb = max(1, og.g.nbits(prec) // 2)
                a = og.g.man(nb, None)
                m = r.choice([a * a, a * a + 1, a * a - 1, a * a + 2 * a, 2 * a * a])
                t = canon(m, r.choice([0, 1, -1, 2, -2, r.randint(-50, 50)]))
            a = ["mpf"] + list(t)
        elif typ == "int":
            n = abs(og.int_(prec))
            if k < 0.4: n = n * n + r.choice([0, 0, 1, -1]) if n else 0
            a = ["int", max(0, n)]
        else:
            x = og.float_()
            x = abs(x) if x == x else x
            a = float_spec(x)
        kw = {}
        k = r.random()
        if k < 0.3: kw["prec"] = og.prec()
        elif k < 0.4: kw["dps"] = r.choice([1, 3, 15, 30])
        if r.random() < 0.6: kw["rounding"] = r.choice(RNDS5)
        return {"kind": "sqrt", "a": a, "prec": prec, "rnd": "n", "kw": kw, "key": "sqrt:%s" % typ}

    def gen_unary(self):
        og, r = self.og, self.r
        prec = og.prec()
        rnd = "n" if r.random() < 0.5 else r.choice(RNDS5)
        op = r.choice(["pos", "neg", "abs"])
        return {"kind": "unary", "op": op, "a": ["mpf"] + list(og.raw(prec, big=r.random() < 0.2)), "prec": prec, "rnd": rnd,
                "key": {"pos": "+x", "neg": "-x", "abs": "abs(x)"}[op]}

    def _hyp_terms(self, prec, n, maxbits, span):
        """n raw terms with <= maxbits-bit mantissas whose magnitudes (floor log2) span fewer than `span` bits"""
        r, g = self.r, self.og.g
        base = r.randint(-300, 300)
        out = []
        for _ in range(n):
            nb = r.randint(1, maxbits) if r.random() < 0.7 else maxbits
            m = g.man(nb, None)
            mag = base + r.randint(0, max(0, span - 1))
            t = canon(m * r.choice([1, -1]), mag - (nb - 1))
            out.append(t)
        if out and r.random() < 0.3:
            # heavy cancellation: add the negation of a term and a tiny survivor
            t = out[0]
            out.append((1 - t[0], t[1], t[2], t[3]))
        return out

    def gen_fsum(self):
        og, r = self.og, self.r
        prec = r.choice([2, 3, 5, 10, 24, 53, 53, 64, 100, 200])
        rnd = "n" if r.random() < 0.4 else r.choice(RNDS5)
        absolute = r.random() < 0.3
        squared = r.random() < 0.3
        n = r.choice([0, 1, 2, 3, 5, 8, 20])
        terms = self._hyp_terms(prec, n, prec, prec)
        specs = []
        for t in terms:
            k = r.random()
            v = spec.val(t)
            if k < 0.15 and v.denominator == 1 and abs(v) < 2 ** 200:
                specs.append(["int", int(v)])
            elif k < 0.3 and t[3] <= 53 and -1074 <= t[2] and t[2] + t[3] <= 1023:
                specs.append(float_spec(float(v)))
            else:
                specs.append(["mpf"] + list(t))
        return {"kind": "fsum", "terms": specs, "absolute": absolute, "squared": squared, "prec": prec, "rnd": rnd,
                "key": "fsum%s%s" % ("+abs" if absolute else "", "+sq" if squared else "")}

    def gen_fdot(self):
        og, r = self.og, self.r
        prec = r.choice([2, 3, 5, 10, 24, 53, 53, 64, 100, 200])
        rnd = "n" if r.random() < 0.4 else r.choice(RNDS5)
        n = r.choice([0, 1, 2, 3, 5, 8])
        hp = max(1, prec // 2)
        A = self._hyp_terms(prec, n, hp, hp)
        B = self._hyp_terms(prec, n, hp, max(1, prec - hp - 1))[:len(A)]
        A = A[:len(B)]
        style = r.choice(["two", "pairs"])
        return {"kind": "fdot", "A": [["mpf"] + list(t) for t in A], "B": [["mpf"] + list(t) for t in B], "style": style,
                "prec": prec, "rnd": rnd, "key": "fdot:" + style}

    GENS = [("binop", 8), ("fop", 6), ("ctor", 4), ("sqrt", 2), ("unary", 2), ("fsum", 2), ("fdot", 1)]

    def gen(self):
        kinds = [k for k, _ in self.GENS]
        w = [x for _, x in self.GENS]
        k = self.r.choices(kinds, w)[0]
        c = getattr(self, "gen_" + k)()
        og = self.og
        og.note("kind", k)
        og.note("ctx_prec", c["prec"] if c["prec"] in (1, 2, 3, 5, 10, 24, 53, 64, 100, 113, 200) else "other")
        og.note("ctx_rounding", c["rnd"])
        if "kwkey" in c: og.note("keywords", c["kwkey"])
        for kk in ("a", "b"):
            if kk in c:
                t = c[kk]
                cls = t[0]
                if t[0] == "float":
                    f = _float_of(t[1])
                    cls = "float:" + ("nan" if f != f else "inf" if abs(f) == float("inf") else "zero" if f == 0 else
                                      "subnormal" if abs(f) < 2.2250738585072014e-308 else "normal")
                elif t[0] == "mpf":
                    tt = tuple(t[1:])
                    cls = "mpf:" + ("special" if spec.is_special(tt) else "zero" if not tt[1] else
                                    ("longer-than-prec" if tt[3] > c["prec"] else "fits"))
                og.note("operand_class", cls)
        return c

    # ---- execution -------------------------------------------------------------------
    def run_case(self, c):
        mp = self.mp
        ctx = make_ctx(mp, c["prec"], c["rnd"])
        kind = c["kind"]
        if kind == "binop":
            a, b = build(ctx, c["a"]), build(ctx, c["b"])
            return call_enc((lambda: _apply_binop(c["op"], b, a)) if c["refl"] else (lambda: _apply_binop(c["op"], a, b)))
        if kind == "fop":
            f = getattr(ctx, c["name"])
            kw = build_kw(ctx, c["kw"])
            a = build(ctx, c["a"])
            if "b" in c:
                b = build(ctx, c["b"])
                return call_enc(lambda: f(a, b, **kw))
            return call_enc(lambda: f(a, **kw))
        if kind == "ctor":
            a = build(ctx, c["a"])
            kw = build_kw(ctx, c["kw"])
            return call_enc(lambda: ctx.mpf(a, **kw))
        if kind == "sqrt":
            a = build(ctx, c["a"])
            kw = build_kw(ctx, c["kw"])
            return call_enc(lambda: ctx.sqrt(a, **kw))
        if kind == "unary":
            a = build(ctx, c["a"])
            return call_enc({"pos": lambda: +a, "neg": lambda: -a, "abs": lambda: abs(a)}[c["op"]])
        if kind == "fsum":
            ts = [build(ctx, t) for t in c["terms"]]
            return call_enc(lambda: ctx.fsum(ts, absolute=c["absolute"], squared=c["squared"]))
        if kind == "fdot":
            A = [build(ctx, t) for t in c["A"]]; B = [build(ctx, t) for t in c["B"]]
            if c["style"] == "two":
                return call_enc(lambda: ctx.fdot(A, B))
            return call_enc(lambda: ctx.fdot(list(zip(A, B))))
        raise ValueError(kind)

    # ---- expectation -----------------------------------------------------------------
    def expect_case(self, c):
        """returns dict: line (driver request expressing the same exact operation) or None;
        exact (Fraction) when the operands are finite; prec, rnd effective; note"""
        L = self.L
        kind = c["kind"]
        prec, rnd = c["prec"], c["rnd"]
        if kind == "binop":
            a, b = c["a"], c["b"]
            if c["refl"]: a, b = b, a
            return self._bin_expect(OPSYM[c["op"]], a, b, prec, rnd)
        if kind == "fop":
            p, rd = kw_effective(L, prec, rnd, c["kw"])
            if c["name"] in FOP:
                return self._bin_expect(FOP[c["name"]], c["a"], c["b"], p, rd)
            op = "neg" if c["name"] == "fneg" else "abs"
            return self._un_expect(op, c["a"], p, rd)
        if kind == "ctor":
            p, rd = kw_effective(L, prec, rnd, c["kw"])
            return self._un_expect("pos", c["a"], p, rd)
        if kind == "sqrt":
            p, rd = kw_effective(L, prec, rnd, c["kw"])
            t = raw_of(c["a"])
            return {"line": "sqrt %s %d %s" % (enc_mpf(t), p, rd), "prec": p, "rnd": rd}
        if kind == "unary":
            return self._un_expect(c["op"], c["a"], prec, rnd)
        if kind == "fsum":
            ts = [raw_of(t) for t in c["terms"]]
            if c["squared"]:
                ts = [canon(t[1] * t[1], 2 * t[2]) for t in ts]
            ex = sum((abs(spec.val(t)) if c["absolute"] else spec.val(t)) for t in ts) if ts else Fraction(0)
            return {"line": "sum %d %s %d %s" % (prec, rnd, 1 if c["absolute"] else 0, " ".join(enc_mpf(t) for t in ts)),
                    "exact": Fraction(ex), "prec": prec, "rnd": rnd}
        if kind == "fdot":
            ts = []
            for x, y in zip(c["A"], c["B"]):
                x, y = raw_of(x), raw_of(y)
                ts.append(canon((-x[1] if x[0] else x[1]) * (-y[1] if y[0] else y[1]), x[2] + y[2]))
            ex = sum(spec.val(t) for t in ts) if ts else Fraction(0)
            return {"line": "sum %d %s 0 %s" % (prec, rnd, " ".join(enc_mpf(t) for t in ts)), "exact": Fraction(ex),
                    "prec": prec, "rnd": rnd}
        raise ValueError(kind)

    def _bin_expect(self, mop, a, b, prec, rnd):
        ra = raw_of(a) if a[0] != "str" or raw_of(a) is not None else None
        rb = raw_of(b) if b[0] != "str" or raw_of(b) is not None else None
        out = {"prec": prec, "rnd": rnd}
        if ra is not None and rb is not None:
            out["line"] = "%s %s %s %d %s" % (mop, enc_mpf(ra), enc_mpf(rb), prec, rnd)
            return out
        # a non-dyadic rational operand: the specification is ONE rounding of the exact rational result
        out["line"] = None
        if (ra is not None and spec.is_special(ra)) or (rb is not None and spec.is_special(rb)):
            out["nospec"] = True
            return out
        x, y = exact_of(a), exact_of(b)
        if mop == "add": out["exact"] = x + y
        elif mop == "sub": out["exact"] = x - y
        elif mop == "mul": out["exact"] = x * y
        else:
            if y == 0:
                out["raises"] = "E:ZeroDivisionError"
            else:
                out["exact"] = x / y
        return out

    def _un_expect(self, op, a, prec, rnd):
        out = {"prec": prec, "rnd": rnd}
        ra = raw_of(a)
        if ra is not None:
            out["line"] = "%s %s %d %s" % (op, enc_mpf(ra), prec, rnd)
            return out
        x = exact_of(a)
        out["line"] = None
        out["exact"] = x if op == "pos" else (-x if op == "neg" else abs(x))
        return out


SITE_ARITH = {
    "binop": "ctx_mp_python.mpf.operator", "fop": "ctx_mp.f_ops", "ctor": "ctx_mp_python.mpf.__new__",
    "sqrt": "ctx_mp.sqrt", "unary": "ctx_mp_python.mpf.unary", "fsum": "ctx_mp_python.fsum", "fdot": "ctx_mp_python.fdot",
}


def _has_rational(c):
    for k in ("a", "b"):
        if k in c and c[k][0] in ("frac", "mpq"):
            f = Fraction(int(c[k][1]), int(c[k][2]))
            return c[k][0], (f.denominator & (f.denominator - 1)) != 0
    return None, False


def site_arith(c):
    typ, nondy = _has_rational(c)
    if typ:
        if c["kind"] == "ctor":
            return "ctx_mp_python.mpf.__new__[%s]" % ("Fraction" if typ == "frac" else "mpq")
        return "ctx_mp_python.convert[rational]"
    return SITE_ARITH[c["kind"]]


def judge_arith(c, exp, impl, model):
    """-> (status, what)   status in ok | violates | nospec | disagree"""
    prec, rnd = exp["prec"], exp["rnd"]
    line = exp.get("line")
    if line is not None:
        if impl.startswith("C:") and c["kind"] == "sqrt":
            return ("violates", "sqrt of a non-negative real returned a complex number")
        if impl.startswith(("?:", "C:")):
            return ("violates", "call returned %s where the model expects %s" % (impl, model))
        if impl.startswith("E:") or (model or "").startswith("E:"):
            if impl == model:
                return ("ok", None)
            if impl == "E:OverflowError" and prec == 0:
                return ("nospec", None)          # documented: exact result does not fit in memory
            return ("violates", "call gives %s, the exact operation gives %s" % (impl, model))
        op = line.split()[0]
        if op == "sum":
            if "exact" in exp:
                r = dec_mpf(impl)
                if spec.is_special(r):
                    return ("violates", "finite sum returned a special value")
                ok = spec.round_ok(prec, rnd, exp["exact"], r)
                return ("ok", None) if ok else ("violates", "%s: %r is not the correctly rounded exact sum (prec=%d rnd=%s)" % (c["kind"], r, prec, rnd))
            return ("nospec", None)
        if op == "sqrt" and not impl.startswith(("E:", "?:")):
            # a perfect-square operand has a rational root: decide by the plain rounding oracle (this also covers
            # the degenerate tie at precision 1, which specdec.sqrt_ok gets wrong)
            t = dec_mpf(line.split()[1])
            if not spec.is_special(t) and t[1] and not t[0] and abs(t[2]) < 10 ** 6:
                m, e = (t[1], t[2]) if t[2] % 2 == 0 else (t[1] << 1, t[2] - 1)
                rt = math.isqrt(m)
                if rt * rt == m:
                    r = dec_mpf(impl)
                    root = Fraction(rt) * (Fraction(2) ** (e // 2))
                    if not spec.is_special(r) and spec.round_ok(prec, rnd, root, r):
                        return ("ok", None)
                    return ("violates", "sqrt: %r is not the exact root %s rounded to %d bits mode %s" % (r, _fr(root), prec, rnd))
        st, what = specdec.decide(line, impl)
        if st == "nospec" and impl != model:
            # special-value operands: the proved model's special-value branch is the reference
            return ("violates", "special-value rule: call gives %s, model gives %s" % (impl, model))
        return (st, what)
    if exp.get("nospec"):
        return ("nospec", None)
    if "raises" in exp:
        return ("ok", None) if impl == exp["raises"] else ("violates", "expected %s, got %s" % (exp["raises"], impl))
    if impl.startswith("E:"):
        return ("violates", "operand type named by the property is rejected: %s" % impl)
    if impl.startswith(("?:", "C:")):
        return ("violates", "call returned %s" % impl)
    r = dec_mpf(impl)
    if spec.is_special(r):
        return ("violates", "finite operands gave a special value")
    if spec.round_ok(prec, rnd, exp["exact"], r):
        return ("ok", None)
    how = ""
    if prec and rnd != "d" and spec.round_ok(prec, "d", exp["exact"], r):
        how = " (it is the value rounded toward zero)"
    return ("violates", "result %r is not the exact result %s rounded once to %d bits in mode %s%s" %
            (r, _fr(exp["exact"]), prec, rnd, how))


def _fr(x):
    s = "%d/%d" % (x.numerator, x.denominator)
    return s if len(s) < 80 else s[:77] + "..."


def run_family(fam, n, seed, cases=None):
    """generate (or take) cases, run the real API and the driver, judge.  Returns a result record."""
    cases = cases if cases is not None else [fam.gen() for _ in range(n)]
    impl = [fam.run_case(c) for c in cases]
    exps = [fam.expect_case(c) for c in cases]
    reqs, where = [], []
    for i, e in enumerate(exps):
        for l in ([e["line"]] if e.get("line") else e.get("lines2", [])):
            reqs.append(l); where.append(i)
    answers = Driver().ask(reqs)
    mod = {}
    for i, a in zip(where, answers):
        mod.setdefault(i, []).append(a)
    for i, al in list(mod.items()):
        e = exps[i]
        if e.get("lines2"):
            mod[i] = "C:" + ",".join(al)
        else:
            m = al[0]
            if e.get("neg") and m.startswith("B:"):
                m = "B:%d" % (1 - int(m[2:]))
            mod[i] = m
    res = {"cases": len(cases), "per_key": {}, "failing": [], "disagreements": [], "decided": {"ok": 0, "violates": 0, "nospec": 0},
           "with_model": len(mod), "rational_oracle_only": 0, "distinct": set(), "samples": [], "informational": {}}
    for i, c in enumerate(cases):
        m = mod.get(i)
        st, what = fam.judge(c, exps[i], impl[i], m)
        key = c.get("key", c["kind"])
        d = res["per_key"].setdefault(key, [0, 0]); d[0] += 1
        res["decided"][st] = res["decided"].get(st, 0) + 1
        if m is None and "exact" in exps[i]:
            res["rational_oracle_only"] += 1
        if fam.nontrivial(c):
            res["distinct"].add(json.dumps(c, sort_keys=True, default=str))
        if len(res["samples"]) < 6 and i % 997 == 13:
            res["samples"].append({"case": c, "impl": impl[i], "model": m})
        if st == "informational":
            e = res["informational"].setdefault(key, [0, None]); e[0] += 1
            if e[1] is None: e[1] = {"what": what, "case": c}
        if st == "violates":
            d[1] += 1
            site = fam.site(c)
            if site == "ctx_mp_python.convert[rational]" and impl[i] == "E:TypeError":
                site = "ctx_mp_python.mpf.mpf_convert_rhs[Fraction]"     # reflected - and / reject a Fraction outright
            res["failing"].append({"site": site, "what": "%s: %s" % (key, what),
                                   "input": {"case": c, "impl": impl[i], "model": m,
                                             "line": exps[i].get("line") or exps[i].get("lines2")}})
        elif m is not None and impl[i] != m:
            res["disagreements"].append({"name": "API:" + key, "op": key, "case": c, "line": exps[i].get("line") or exps[i].get("lines2"),
                                         "impl": impl[i], "model": m, "spec": st})
    res["hist"] = fam.og.g.hist if hasattr(fam, "og") else {}
    return res


def _nontrivial_arith(c):
    for k in ("a", "b"):
        if k in c and c[k][0] in ("mpf", "int", "float", "frac", "mpq", "tuple2", "tuple4", "str"):
            t = raw_of(c[k]) if c[k][0] not in ("frac", "mpq") else (0, 1, 0, 1)
            if t is None or t[1]:
                return True
    return bool(c.get("terms") or c.get("A"))


ApiArith.judge = staticmethod(judge_arith)
ApiArith.site = staticmethod(site_arith)
ApiArith.nontrivial = staticmethod(_nontrivial_arith)



# ======================================================================================
# C05: comparison family
# ======================================================================================

CMPOPS = ["==", "!=", "<", "<=", ">", ">="]
CMPDRV = {"==": "eq", "!=": "eq", "<": "lt", "<=": "le", ">": "gt", ">=": "ge"}


def _tiny_neighbour(t, r, far):
    """raw value differing from finite nonzero raw t by one unit `far` bits below its last bit"""
    s, m, e, b = t
    m2 = (m << far) + r.choice([1, -1])
    return canon(-m2 if s else m2, e - far)


class ApiCmp:
    def __init__(self, seed):
        self.og = OpGen(seed)
        self.r = self.og.r
        self.mpm, self.L = self.og.mpm, self.og.L
        self.mp = self.mpm.mp

    def _mpf_side(self, other_raw, prec):
        """raw mpf operand related to the exact raw value of the other operand"""
        r, og = self.r, self.og
        k = r.random()
        if other_raw is None or spec.is_special(other_raw):
            return og.raw(None, special_p=0.3), "independent"
        if k < 0.30:
            return other_raw, "equal"
        if not other_raw[1]:
            return og.raw(None, special_p=0.1), "independent"
        if k < 0.60:
            return _tiny_neighbour(other_raw, r, r.choice([1, 2, 60, 200, 1000, 3000])), "far-below-precision"
        if k < 0.80:
            return og.g.near(other_raw, None), "near"
        if k < 0.88:
            return og.g.special(), "special"
        return og.raw(None, special_p=0.05), "independent"

    def gen_real(self):
        r, og = self.r, self.og
        prec = r.choice([1, 5, 10, 53, 53, 100])
        typ = r.choice(["int", "float", "mpf"])
        if typ == "mpf":
            t = og.raw(None, special_p=0.1, big=r.random() < 0.15)
            b = ["mpf"] + list(t)
        else:
            b = og.operand(typ, 53)
        a, rel = self._mpf_side(raw_of(b), prec)
        og.note("cmp_relation", rel)
        op = r.choice(CMPOPS)
        refl = r.random() < 0.4
        return {"kind": "cmp", "op": op, "a": ["mpf"] + list(a), "b": b, "refl": refl, "prec": prec,
                "key": "%s%s:mpf,%s" % ("r" if refl else "", op, typ)}

    def _cpx_parts(self):
        r, og = self.r, self.og
        def part():
            k = r.random()
            if k < 0.25: return (0, 0, 0, 0)
            if k < 0.35: return og.g.special()
            if k < 0.7:
                f = og.float_()
                return raw_of(float_spec(f))
            return og.raw(None, special_p=0)
        return part(), part()

    def gen_complex(self):
        r, og = self.r, self.og
        prec = r.choice([1, 5, 10, 53, 53, 100])
        lhs = r.choice(["mpc", "mpc", "mpf"])
        re_, im_ = self._cpx_parts()
        typ = r.choice(["complex", "mpc"] if lhs == "mpf" else ["complex", "mpc", "int", "float", "mpf"])
        # the other operand, built from (re_, im_) when representable, possibly perturbed
        k = r.random()
        rel = "equal"
        re2, im2 = re_, im_
        if k < 0.35 and re2[1]:
            re2 = _tiny_neighbour(re2, r, r.choice([1, 60, 1000])); rel = "re-far-below"
        elif k < 0.6 and im2[1]:
            im2 = _tiny_neighbour(im2, r, r.choice([1, 60, 1000])); rel = "im-far-below"
        elif k < 0.7:
            im2 = og.raw(None, special_p=0.1); rel = "im-independent"
        og.note("cmp_relation_complex", rel)

        def as_float(t):
            if t == spec.FNAN: return "nan"
            if t == spec.FINF: return "inf"
            if t == spec.FNINF: return "-inf"
            if t[3] <= 53 and t[2] >= -1074 and t[2] + t[3] <= 1024:
                try:
                    f = math.ldexp(-t[1] if t[0] else t[1], t[2])
                except OverflowError:
                    return None
                return float_spec(f)[1]
            return None

        if lhs == "mpc":
            a = ["mpc", list(re_), list(im_)]
        else:
            a = ["mpf"] + list(re_)
            im_ = (0, 0, 0, 0)
        if typ == "mpc":
            b = ["mpc", list(re2), list(im2)]
        elif typ == "complex":
            fr, fi = as_float(re2), as_float(im2)
            if fr is None or fi is None:
                b = ["mpc", list(re2), list(im2)]; typ = "mpc"
            else:
                b = ["complex", fr, fi]
        elif typ == "mpf":
            b = ["mpf"] + list(re2)
        elif typ == "float":
            fr = as_float(re2)
            b = ["float", fr] if fr is not None else ["mpf"] + list(re2)
            typ = "float" if fr is not None else "mpf"
        else:
            if not spec.is_special(re2) and re2[2] >= 0 and re2[2] < 2000:
                b = ["int", (-re2[1] if re2[0] else re2[1]) << re2[2]]
            else:
                b = ["int", r.randint(-3, 3)]
        op = r.choice(["==", "!=", "==", "!=", "<", ">="])
        refl = r.random() < 0.4
        return {"kind": "cmp", "op": op, "a": a, "b": b, "refl": refl, "prec": prec,
                "key": "%s%s:%s,%s" % ("r" if refl else "", op, lhs, typ)}

    def gen(self):
        return self.gen_real() if self.r.random() < 0.65 else self.gen_complex()

    def run_case(self, c):
        ctx = make_ctx(self.mp, c["prec"], "n")
        a, b = build(ctx, c["a"]), build(ctx, c["b"])
        if c["refl"]: a, b = b, a
        return call_enc(lambda: _apply_binop(c["op"], a, b))

    @staticmethod
    def _parts(v):
        if v[0] == "mpc": return tuple(v[1]), tuple(v[2])
        if v[0] == "complex": return raw_of(["float", v[1]]), raw_of(["float", v[2]])
        return raw_of(v), (0, 0, 0, 0)

    def expect_case(self, c):
        a, b = c["a"], c["b"]
        if c["refl"]: a, b = b, a
        cpx = a[0] in ("mpc", "complex") or b[0] in ("mpc", "complex")
        if not cpx:
            ra, rb = raw_of(a), raw_of(b)
            return {"line": "%s %s %s" % (CMPDRV[c["op"]], enc_mpf(ra), enc_mpf(rb)), "neg": c["op"] == "!=", "ra": ra, "rb": rb}
        (ar, ai), (br, bi) = self._parts(a), self._parts(b)
        return {"line": None, "complex": True, "parts": (ar, ai, br, bi)}


def _ext_cmp(x, y):
    """exact three-way comparison of two non-nan raw values (infinities allowed), without building huge integers"""
    def cls(t):
        if t == spec.FINF: return 2
        if t == spec.FNINF: return -2
        return 0
    cx, cy = cls(x), cls(y)
    if cx or cy:
        return (cx > cy) - (cx < cy)
    sx = 0 if not x[1] else (-1 if x[0] else 1)
    sy = 0 if not y[1] else (-1 if y[0] else 1)
    if sx != sy:
        return (sx > sy) - (sx < sy)
    if sx == 0:
        return 0
    # same sign, both nonzero: compare magnitudes by top-bit position then mantissas
    tx, ty = x[2] + x[3], y[2] + y[3]
    if tx != ty:
        c = (tx > ty) - (tx < ty)
    else:
        lo = min(x[2], y[2])
        mx, my = x[1] << (x[2] - lo), y[1] << (y[2] - lo)
        c = (mx > my) - (mx < my)
    return c * sx


def _exact_rel(op, x, y):
    """truth value of `x op y` for raw extended reals with IEEE-style nan"""
    if x == spec.FNAN or y == spec.FNAN:
        return op == "!="
    c = _ext_cmp(x, y)
    return {"==": c == 0, "!=": c != 0, "<": c < 0, "<=": c <= 0, ">": c > 0, ">=": c >= 0}[op]


def judge_cmp(c, exp, impl, model):
    if exp.get("complex"):
        ar, ai, br, bi = exp["parts"]
        if c["op"] in ("==", "!="):
            eq = _exact_rel("==", ar, br) and _exact_rel("==", ai, bi)
            want = "B:%d" % (eq if c["op"] == "==" else (not eq))
            return ("ok", None) if impl == want else ("violates", "complex %s gives %s, exact componentwise answer %s" % (c["op"], impl, want))
        # ordering against a complex operand is outside the property (only complex EQUALITY is specified): record only
        return ("nospec", None) if impl == "E:TypeError" else ("informational", "ordering with a complex operand gives %s" % impl)
    want = "B:%d" % _exact_rel(c["op"], exp["ra"], exp["rb"])
    if impl != want:
        return ("violates", "%s gives %s, comparison of the exact values gives %s" % (c["op"], impl, want))
    return ("ok", None)


def _model_cmp_mismatch(c, exp, impl, model):
    """model answer (B:x of eq/lt/...) vs implementation, accounting for != being `not eq`"""
    if model is None:
        return False
    if exp.get("neg") and model.startswith("B:"):
        model = "B:%d" % (1 - int(model[2:]))
    return impl != model


ApiCmp.judge = staticmethod(judge_cmp)
ApiCmp.site = staticmethod(lambda c: "ctx_mp_python.mpc.__eq__" if (c["a"][0] == "mpc") else "ctx_mp_python.mpf.compare")
ApiCmp.nontrivial = staticmethod(lambda c: True)


# ======================================================================================
# C06: integer-part family
# ======================================================================================

def _nint(a):
    fl = math.floor(a); d = a - fl
    if d < Fraction(1, 2): return fl
    if d > Fraction(1, 2): return fl + 1
    return fl if fl % 2 == 0 else fl + 1


def _ip_exact(op, a):
    if op == "floor": return Fraction(math.floor(a))
    if op == "ceil": return Fraction(math.ceil(a))
    if op == "nint": return Fraction(_nint(a))
    if op == "frac": return a - math.floor(a)
    raise ValueError(op)


class ApiIntPart:
    def __init__(self, seed):
        self.og = OpGen(seed)
        self.r = self.og.r
        self.mpm, self.L = self.og.mpm, self.og.L
        self.mp = self.mpm.mp
        import core_ops
        self.co = core_ops.CoreOps()

    def _arg(self):
        """raw finite/special argument around the binary point (reuses the raw-core generator)"""
        t = self.co._intpart_arg(self.og.g)
        return t

    def _as(self, t, typ):
        """present raw t as the Python type typ when exactly representable, else as mpf"""
        if typ == "int" and not spec.is_special(t) and t[2] >= 0 and t[2] < 3000:
            return ["int", (-t[1] if t[0] else t[1]) << t[2]]
        if typ == "float":
            if spec.is_special(t):
                return ["float", {spec.FNAN: "nan", spec.FINF: "inf", spec.FNINF: "-inf"}[t]]
            if t[3] <= 53 and t[2] >= -1074 and t[2] + t[3] <= 1023:
                return float_spec(math.ldexp(-t[1] if t[0] else t[1], t[2]))
        return ["mpf"] + list(t)

    def gen_ip(self):
        r, og = self.r, self.og
        prec = og.prec()
        op = r.choice(["floor", "ceil", "nint", "frac"])
        cpx = r.random() < 0.25
        kw = {}
        k = r.random()
        if k < 0.2: kw["prec"] = og.prec()
        if r.random() < 0.3: kw["rounding"] = r.choice(RNDS5)
        if cpx:
            a = ["mpc", list(self._arg()), list(self._arg())]
            typ = "mpc"
        else:
            typ = r.choice(["mpf", "mpf", "int", "float"])
            a = self._as(self._arg(), typ)
            typ = a[0]
        return {"kind": "ip", "op": op, "a": a, "prec": prec, "kw": kw, "key": "%s:%s" % (op, typ)}

    def gen_int(self):
        r = self.r
        t = self._arg() if r.random() < 0.8 else self.og.raw(None, big=False)
        f = r.choice(["int", "int", "math.floor", "math.ceil"])
        return {"kind": "toint", "f": f, "a": ["mpf"] + list(t), "prec": self.og.prec(), "key": f + "(mpf)"}

    def gen_mod(self):
        r, og = self.r, self.og
        prec = og.prec()
        how = r.choice(["%", "%", "fmod"])
        x = og.g.mpf(prec, special_p=0.03, big_exp=False)
        k = r.random()
        if k < 0.35 and x[1]:
            y = og.g.near(x, prec)
        elif k < 0.5:
            y = canon(r.choice([1, -1]), r.randint(-80, 80))       # power-of-two divisor shortcut
        elif k < 0.65 and x[1]:
            y = canon(og.g.man(og.g.nbits(prec), prec) * r.choice([1, -1]), x[2] + x[3] + r.choice([-1, 0, 1, 2, 5]))  # divisor larger
        else:
            y = og.g.mpf(prec, special_p=0.03, big_exp=False)
        if r.random() < 0.02:
            y = (0, 0, 0, 0)
        tx = r.choice(["mpf", "mpf", "int", "float"])
        ty = r.choice(["mpf", "mpf", "int", "float"])
        a, b = self._as(x, tx), self._as(y, ty)
        if how == "%" and a[0] != "mpf" and b[0] != "mpf":
            a = ["mpf"] + list(x)
        return {"kind": "mod", "how": how, "a": a, "b": b, "prec": prec, "key": "%s:%s,%s" % (how, a[0], b[0])}

    def gen(self):
        k = self.r.random()
        if k < 0.45: return self.gen_ip()
        if k < 0.6: return self.gen_int()
        return self.gen_mod()

    def run_case(self, c):
        ctx = make_ctx(self.mp, c["prec"], "n")
        if c["kind"] == "ip":
            a = build(ctx, c["a"]); kw = build_kw(ctx, c["kw"])
            return call_enc(lambda: getattr(ctx, c["op"])(a, **kw))
        if c["kind"] == "toint":
            a = build(ctx, c["a"])
            f = {"int": int, "math.floor": math.floor, "math.ceil": math.ceil}[c["f"]]
            return call_enc(lambda: f(a))
        if c["kind"] == "mod":
            a, b = build(ctx, c["a"]), build(ctx, c["b"])
            if c["how"] == "fmod":
                return call_enc(lambda: ctx.fmod(a, b))
            return call_enc(lambda: a % b)
        raise ValueError(c["kind"])

    def expect_case(self, c):
        L = self.L
        if c["kind"] == "ip":
            p, rd = kw_effective(L, c["prec"], "n", c["kw"])
            if c["a"][0] == "mpc":
                return {"line": None, "prec": p, "rnd": rd, "complex": True,
                        "lines2": ["%s %s %d %s" % (c["op"], enc_mpf(tuple(t)), p, rd) for t in (c["a"][1], c["a"][2])]}
            return {"line": "%s %s %d %s" % (c["op"], enc_mpf(raw_of(c["a"])), p, rd), "prec": p, "rnd": rd}
        if c["kind"] == "toint":
            if c["f"] == "int":
                return {"line": "to_int %s -" % enc_mpf(raw_of(c["a"]))}
            return {"line": None, "informational": True}
        if c["kind"] == "mod":
            return {"line": "mod %s %s %d n" % (enc_mpf(raw_of(c["a"])), enc_mpf(raw_of(c["b"])), c["prec"]),
                    "prec": c["prec"], "rnd": "n"}
        raise ValueError(c["kind"])


def _judge_ip_real(op, t, prec, rnd, impl):
    """decide one real floor/ceil/nint/frac result (text) against the mathematical definition"""
    t = tuple(t)
    if spec.is_special(t):
        return ("nospec", None)
    if impl.startswith(("E:", "?:", "C:")):
        return ("violates", "%s of a finite real gives %s" % (op, impl))
    r = dec_mpf(impl)
    if spec.is_special(r):
        return ("violates", "%s of a finite real gives a special value" % op)
    e = _ip_exact(op, spec.val(t))
    if spec.round_ok(prec, rnd, e, r):
        return ("ok", None)
    return ("violates", "%s: %r is not %s (exact definition) rounded to %d bits mode %s" % (op, r, _fr(e), prec, rnd))


def judge_intpart(c, exp, impl, model):
    kind = c["kind"]
    if kind == "ip":
        if exp.get("complex"):
            if not impl.startswith("C:"):
                return ("violates", "%s of an mpc gives %s" % (c["op"], impl))
            parts = impl[2:].split(",")
            worst = ("ok", None)
            for t, im in zip((c["a"][1], c["a"][2]), parts):
                st = _judge_ip_real(c["op"], t, exp["prec"], exp["rnd"], im)
                if st[0] == "violates": return st
                if st[0] == "nospec": worst = st
            return worst
        t = raw_of(c["a"])
        st = _judge_ip_real(c["op"], t, exp["prec"], exp["rnd"], impl)
        if st[0] == "nospec" and model is not None and impl != model:
            return ("violates", "special-value rule: call gives %s, model gives %s" % (impl, model))
        return st
    if kind == "toint":
        t = raw_of(c["a"])
        if spec.is_special(t):
            if c["f"] == "int":
                return ("ok", None) if impl == model else ("violates", "int() of a special value gives %s, model %s" % (impl, model))
            return ("nospec", None)
        a = spec.val(t)
        want = {"int": math.trunc, "math.floor": math.floor, "math.ceil": math.ceil}[c["f"]](a)
        if impl == "I:%d" % want:
            return ("ok", None)
        if exp.get("informational"):
            return ("informational", "%s goes through float(): %s, exact %d" % (c["f"], impl, want))
        return ("violates", "int(x) gives %s, truncation toward zero gives %d" % (impl, want))
    if kind == "mod":
        x, y = raw_of(c["a"]), raw_of(c["b"])
        if spec.is_special(x) or spec.is_special(y):
            return ("nospec", None) if impl == model else ("violates", "special-value rule: %s vs model %s" % (impl, model))
        if not y[1]:
            # zero divisors are outside the property's quantifier ("all nonzero divisors"): record only
            return ("nospec", None) if impl == "E:ZeroDivisionError" else ("informational", "x %% 0 gives %s instead of raising" % impl)
        if impl.startswith(("E:", "?:", "C:")):
            return ("violates", "x %% y gives %s" % impl)
        r = dec_mpf(impl)
        if spec.is_special(r):
            return ("violates", "finite x %% y gives a special value")
        a, b = spec.val(x), spec.val(y)
        e = a - b * math.floor(a / b)
        assert e == 0 or ((e > 0) == (b > 0) and abs(e) < abs(b))
        if not spec.round_ok(exp["prec"], "n", e, r):
            return ("violates", "x %% y: %r is not the exact remainder %s rounded to %d bits" % (r, _fr(e), exp["prec"]))
        v = spec.val(r)
        if v != 0 and (v > 0) != (b > 0):
            return ("violates", "x %% y has the wrong sign")
        return ("ok", None)
    raise ValueError(kind)


ApiIntPart.judge = staticmethod(judge_intpart)
ApiIntPart.site = staticmethod(lambda c: {"ip": "ctx_mp." + c.get("op", "?"), "toint": "ctx_mp_python.mpf.__int__",
                                          "mod": "ctx_mp_python.mpf.__mod__"}[c["kind"]])
ApiIntPart.nontrivial = staticmethod(lambda c: True)



# ======================================================================================
# C01 / C10: broad sweep of the public namespaces in worker subprocesses
# ======================================================================================
# A task is {"id", "ctx": "mp"|"iv", "fn": name, "args": [specs], "kw": {...}, "prec": p}.  The worker builds a FRESH
# context (mp.clone() / a new interval context), sets the precision, builds the arguments from their specs (raw
# tuples carrying more bits than the precision), calls the public function and returns every real number found in
# the result.  The parent decides canonicity (spec.is_canonical) and the bit-length bound.

FUNCS = {   # callables handed to functions that need a callback; resolved in the worker
    "exp": lambda ctx: ctx.exp,
    "sin": lambda ctx: ctx.sin,
    "cos": lambda ctx: ctx.cos,
    "invsq": lambda ctx: (lambda k: 1 / ctx.mpf(k) ** 2),
    "inv1px2": lambda ctx: (lambda x: 1 / (1 + x * x)),
    "onepinvsq": lambda ctx: (lambda k: 1 + 1 / ctx.mpf(k) ** 2),
    "cosmx": lambda ctx: (lambda x: ctx.cos(x) - x),
    "lap": lambda ctx: (lambda p: 1 / (p + 1)),
    "sinc": lambda ctx: (lambda x: ctx.sin(x) / x),
    "ode": lambda ctx: (lambda x, y: y),
    "x2y": lambda ctx: (lambda x, y: x * x + y),
}

OPERATORS = {
    "operator.add": lambda a, b: a + b, "operator.sub": lambda a, b: a - b, "operator.mul": lambda a, b: a * b,
    "operator.truediv": lambda a, b: a / b, "operator.pow": lambda a, b: a ** b, "operator.mod": lambda a, b: a % b,
    "operator.pos": lambda a: +a, "operator.neg": lambda a: -a, "operator.abs": lambda a: abs(a),
    "method.conjugate": lambda a: a.conjugate(), "method.sqrt": lambda a: a.sqrt(),
    "attr.real": lambda a: a.real, "attr.imag": lambda a: a.imag,
    "attr.mid": lambda a: a.mid, "attr.delta": lambda a: a.delta, "attr.a": lambda a: a.a, "attr.b": lambda a: a.b,
    "ctor.mpf": None, "ctor.mpc": None,
}

# documented-exact operations, from the C10 property text ONLY: "ldexp, frexp, mpmathify/convert of int/float/mpf,
# exact f* operations, and component access"
C10_EXACT = {"ldexp", "frexp", "mpmathify", "convert",                 # named operations
             "re", "im", "attr.real", "attr.imag", "attr.a", "attr.b"}  # component access
SKIP = {"plot", "cplot", "splot", "nprint", "clone", "default", "warn", "bad_domain", "init_builtins", "memoize", "maxcalls",
        "autoprec", "extraprec", "extradps", "workprec", "workdps", "oldzetazero", "npconvert", "constant", "make_mpf",
        "make_mpc", "hypsum", "hypercomb", "adaptive_extrapolation", "sum_accurately", "mul_accurately", "diffun", "odefun",
        "levin", "cohen_alt", "mpq", "nstr", "to_fixed", "ComplexResult", "NoConvergence", "default_color_function",
        "phase_color_function", "pretty", "identify", "findpoly", "pslq", "rand", "randmatrix", "zetazero_memoized",
        "multiplicity", "jacobian", "eig_sort", "swap_row", "extend", "list_primes", "secondzeta", "quadosc", "sumap", "diffs_prod",
        "diffs_exp", "square_exp_arg"}
INT_ARGS = {"isprime", "moebius", "mangoldt", "primepi", "bernfrac", "eulernum", "stirling1", "stirling2", "bernoulli",
            "airyaizero", "airybizero", "zetazero", "nzeros", "stieltjes", "unitroots", "hilbert", "eye", "zeros", "ones",
            "unitvector", "gauss_quadrature", "grampoint", "fib", "fibonacci", "bell", "cyclotomic", "primepi2"}
INT_PARAMS = {"n", "m", "k", "l", "N", "j", "derivative", "degree"}
RECIPES = {   # name -> list of slot codes (see Sweep.slot) and fixed keyword arguments
    "polyval": (["L5", "x"], {}), "polyroots": (["L4"], {}), "chebyfit": (["f:exp", "I01", "i3"], {}),
    "fourier": (["f:exp", "I01", "i3"], {}), "diff": (["f:exp", "x"], {}), "diffs": (["f:exp", "x", "i3"], {}),
    "differint": (["f:exp", "p"], {}), "taylor": (["f:exp", "x", "i4"], {}), "pade": (["L5", "i2", "i2"], {}),
    "quad": (["f:inv1px2", "I01"], {}), "quadgl": (["f:inv1px2", "I01"], {}), "quadts": (["f:inv1px2", "I01"], {}),
    "nsum": (["f:invsq", "I1inf"], {}), "nprod": (["f:onepinvsq", "I1inf"], {}), "sumem": (["f:invsq", "I1inf"], {}),
    "limit": (["f:sinc", "i0"], {}), "findroot": (["f:cosmx", "p"], {}), "richardson": (["Lseq"], {}), "shanks": (["Lseq"], {}),
    "invertlaplace": (["f:lap", "p"], {"method": "talbot"}), "difference": (["L5", "i2"], {}),
    "linspace": (["x", "x", "i5"], {}), "arange": (["u", "p", "u"], {}), "matrix": (["LL3"], {}), "diag": (["L4"], {}),
    "fsum": (["L5"], {}), "fdot": (["L4", "L4"], {}), "fprod": (["L5"], {}), "norm": (["V3"], {}),
    "det": (["M3"], {}), "inverse": (["M3"], {}), "expm": (["M3"], {}), "sqrtm": (["S3"], {}), "logm": (["S3"], {}),
    "cosm": (["M3"], {}), "sinm": (["M3"], {}), "powm": (["S3", "u"], {}), "mnorm": (["M3"], {}), "cond": (["M3"], {}),
    "lu": (["M3"], {}), "qr": (["M3"], {}), "cholesky": (["S3"], {}), "lu_solve": (["M3", "V3"], {}),
    "qr_solve": (["M3", "V3"], {}), "cholesky_solve": (["S3", "V3"], {}), "eig": (["M3"], {}), "eigsy": (["S3"], {}),
    "eigh": (["S3"], {}), "eighe": (["S3"], {}), "svd": (["M3"], {}), "svd_r": (["M3"], {}), "svd_c": (["M3"], {}),
    "hessenberg": (["M3"], {}), "schur": (["M3"], {}), "residual": (["M3", "V3", "V3"], {}), "LU_decomp": (["M3"], {}),
    "lu_solve_mat": (["M3", "M3"], {}), "improve_solution": (["M3", "V3", "V3"], {}), "householder": (["M34"], {}),
    "L_solve": (["Mlow", "V3"], {}), "U_solve": (["Mup", "V3"], {}),
    "hyper": (["L2", "L1", "u"], {}), "bihyper": (["L1", "L1", "u"], {}), "qhyper": (["L1", "L1", "q", "u"], {}),
    "meijerg": (["meijer_a", "meijer_b", "u"], {}), "hyper2d": (["h2d_a", "h2d_b", "u", "u"], {}),
    "ellipfun": (["s:sn", "u", "u"], {}), "jtheta": (["i13", "u", "q"], {}), "kleinj": (["tau"], {}),
    "qfrom": ([], {"m": "u"}), "mfrom": ([], {"q": "q"}), "kfrom": ([], {"q": "q"}), "taufrom": ([], {"q": "q"}), "qbarfrom": ([], {"q": "q"}),
    "qp": (["u", "q"], {}), "qgamma": (["p", "q"], {}), "qfac": (["p", "q"], {}),
    "ldexp": (["x", "ii"], {}), "root": (["x", "i3"], {}), "nthroot": (["x", "i3"], {}), "binomial": (["x", "i3"], {}),
    "ff": (["x", "i3"], {}), "rf": (["x", "i3"], {}), "almosteq": (["x", "x"], {}), "chop": (["x"], {}),
    "gammaprod": (["L2p", "L1p"], {}), "unitroots": (["i5"], {}), "besseljzero": (["i1", "i2"], {}), "besselyzero": (["i1", "i2"], {}),
    "polar": (["x"], {}), "rect": (["p", "x"], {}), "spherharm": (["i2", "i1", "u", "u"], {}),
    "dirichlet": (["p2", "Lchi"], {}), "fourierval": (["fser", "I01", "u"], {}),
    "operator.add": (["x", "x"], {}), "operator.sub": (["x", "x"], {}), "operator.mul": (["x", "x"], {}),
    "operator.truediv": (["x", "x"], {}), "operator.pow": (["x", "x"], {}), "operator.mod": (["r", "r"], {}),
    "operator.pos": (["x"], {}), "operator.neg": (["x"], {}), "operator.abs": (["x"], {}), "method.conjugate": (["x"], {}),
    "method.sqrt": (["x"], {}), "attr.real": (["x"], {}), "attr.imag": (["x"], {}), "ctor.mpf": (["r"], {}), "ctor.mpc": (["x", "r"], {}),
    "attr.mid": (["x"], {}), "attr.delta": (["x"], {}), "attr.a": (["x"], {}), "attr.b": (["x"], {}),
}
MOODS = ["pos", "real", "complex", "unit", "mixed"]


class Sweep:
    def __init__(self, seed):
        import random as _r
        self.r = _r.Random(seed)
        self.mpm, self.L, self.RQ = _mods()
        self.g = Gen(seed ^ 0x5eed)
        self.g.r = self.r

    # ---- numbers carrying more bits than the precision ----------------------------------
    def rawnum(self, prec, lo=-1, hi=2, sign=None):
        r = self.r
        nb = prec + r.choice([7, 17, 30, 64])
        m = (1 << (nb - 1)) | r.getrandbits(nb - 1) | 1
        mag = r.randint(lo, hi)
        s = r.randint(0, 1) if sign is None else sign
        return (s, m, mag - nb + 1, nb)

    def num(self, ctxname, mood, prec):
        r = self.r
        if ctxname == "iv":
            if mood == "complex":
                mood = "real"
            a = self.rawnum(prec, -1, 1, 0 if mood in ("pos", "unit") else None)
            if mood == "unit":
                a = self.rawnum(prec, -3, -2, 0)
            w = canon(1, a[2] + a[3] - 1 - r.choice([3, prec + 5, 8]))
            va = spec.val(a) + spec.val(w)
            b = canon(va.numerator, -(va.denominator.bit_length() - 1))
            lo, hi = (a, b) if spec.val(a) <= spec.val(b) else (b, a)
            return ["ivmpf", list(lo), list(hi)]
        if mood == "mixed":
            mood = r.choice(["pos", "real", "complex", "int", "float"])
        if mood == "int":
            return ["int", r.randint(-4, 9)]
        if mood == "float":
            return float_spec(r.uniform(-3, 5))
        if mood == "pos":
            return ["mpf"] + list(self.rawnum(prec, -1, 2, 0))
        if mood == "unit":
            return ["mpf"] + list(self.rawnum(prec, -3, -1, 0))
        if mood == "real":
            return ["mpf"] + list(self.rawnum(prec, -1, 2))
        if mood == "complex":
            return ["mpc", list(self.rawnum(prec, -1, 1)), list(self.rawnum(prec, -1, 1))]
        raise ValueError(mood)

    def slot(self, code, ctxname, mood, prec):
        r = self.r
        num = lambda m=mood: self.num(ctxname, m, prec)
        if code == "x": return num()
        if code == "r": return num("real" if mood == "complex" else mood)
        if code == "p": return num("pos")
        if code == "p2": return ["mpf"] + list(self.rawnum(prec, 1, 2, 0)) if ctxname == "mp" else num("pos")
        if code == "u": return num("unit")
        if code == "q": return num("unit")
        if code == "tau": return ["mpc", list(self.rawnum(prec, -2, 0)), list(self.rawnum(prec, 0, 1, 0))]
        if code.startswith("i") and code[1:].isdigit():
            k = code[1:]
            if len(k) == 2: return ["int", r.randint(int(k[0]), int(k[1]))]
            return ["int", int(k)]
        if code == "ii": return ["int", r.randint(-40, 40)]
        if code == "n": return ["int", r.randint(0, 5)]
        if code.startswith("f:"): return ["fn", code[2:]]
        if code.startswith("s:"): return ["str", code[2:]]
        if code == "I01": return ["list", [["int", 0], ["int", 1]]]
        if code == "I1inf": return ["list", [["int", 1], ["const", "inf"]]]
        if code[0] == "L" and code[1:].isdigit(): return ["list", [num() for _ in range(int(code[1:]))]]
        if code == "L2p": return ["list", [num("pos"), num("pos")]]
        if code == "L1p": return ["list", [num("pos")]]
        if code == "Lchi": return ["list", [["int", 0], ["int", 1], ["int", -1]]]
        if code == "Lseq":
            return ["list", [["frac", sum(Fraction((-1) ** k, 2 * k + 1) for k in range(n)).numerator,
                              sum(Fraction((-1) ** k, 2 * k + 1) for k in range(n)).denominator] for n in range(1, 9)]]
        if code == "LL3": return ["list", [["list", [num() for _ in range(3)]] for _ in range(3)]]
        if code in ("M3", "M34", "S3", "Mlow", "Mup"):
            rows, cols = (3, 4) if code == "M34" else (3, 3)
            M = [[num("real" if code in ("S3",) else mood) for _ in range(cols)] for _ in range(rows)]
            if code == "S3":      # symmetric, diagonally dominant: positive definite
                for a in range(3):
                    for b in range(a):
                        M[a][b] = M[b][a]
                    M[a][a] = ["int", 9 + a] if ctxname == "mp" else ["int", 9 + a]
            if code == "Mlow":
                for a in range(3):
                    for b in range(a + 1, 3): M[a][b] = ["int", 0]
            if code == "Mup":
                for a in range(3):
                    for b in range(a): M[a][b] = ["int", 0]
            return ["matrix", M]
        if code == "V3": return ["matrix", [[num()] for _ in range(3)]]
        if code == "meijer_a": return ["list", [["list", [num("unit")]], ["list", []]]]
        if code == "meijer_b": return ["list", [["list", [num("unit")]], ["list", [["int", 0]]]]]
        if code == "h2d_a": return ["dict", {"m+n": [num("unit")]}]
        if code == "h2d_b": return ["dict", {"m": [num("pos")], "n": [num("pos")]}]
        if code == "fser": return ["tuple", [["list", [num("unit"), num("unit")]], ["list", [["int", 0], num("unit")]]]]
        raise ValueError("slot " + code)

    # ---- target table by introspection --------------------------------------------------
    def targets(self):
        """[(ctxname, name, slots or None, fixed kw, flags)] for every public callable worth calling"""
        import inspect
        from mpmath.functions.functions import SpecialFunctions
        mp, iv = self.mpm.mp, self.mpm.iv
        out = []
        for ctxname, ctx in (("mp", mp), ("iv", iv)):
            for name in sorted(dir(ctx)):
                if name.startswith("_") or name in SKIP:
                    continue
                f = getattr(ctx, name)
                if not callable(f) or inspect.isclass(f):
                    continue
                doc = f.__doc__ or (getattr(getattr(mp, name, None), "__doc__", None) if ctxname == "iv" else None)
                wrapped_libmp = "_wrap_libmp_function" in getattr(f, "__qualname__", "")
                is_const = isinstance(f, getattr(ctx, "constant", ())) if ctxname == "mp" else False
                if not doc and not wrapped_libmp and not is_const and name not in ("atan2", "bernoulli", "psi", "polygamma", "cos_sin",
                                                                                 "cospi_sinpi", "absmin", "absmax", "mpf", "mpc", "mpmathify"):
                    continue
                fn0 = getattr(f, "__func__", f)
                module = getattr(fn0, "__module__", "") or ""
                scope = "entry-point" if (module.startswith(("mpmath.calculus", "mpmath.matrices", "mpmath.identification", "mpmath.visualization"))
                                          or name in UTILITIES) else "statement"
                flags = {"libmp": wrapped_libmp, "const": is_const, "scope": scope, "module": module}
                if name in RECIPES:
                    out.append((ctxname, name, RECIPES[name][0], RECIPES[name][1], flags)); continue
                if is_const:
                    out.append((ctxname, name, [], {}, flags)); continue
                raw = SpecialFunctions.defined_functions.get(name, (None,))[0]
                try:
                    sig = inspect.signature(raw) if raw is not None else inspect.signature(f)
                    params = [p for p in sig.parameters.values()]
                    if raw is not None:
                        params = params[1:]
                except (TypeError, ValueError):
                    continue
                slots, bad = [], False
                for p in params:
                    if p.kind in (p.VAR_POSITIONAL, p.VAR_KEYWORD) or p.default is not p.empty:
                        continue
                    if p.name in ("f", "F", "g", "function", "update", "emfun", "fdiffs", "factors"):
                        bad = True; break
                    if name in INT_ARGS or p.name in INT_PARAMS:
                        slots.append("n")
                    elif p.name == "q": slots.append("q")
                    elif p.name == "tau": slots.append("tau")
                    elif p.name in ("A", "B", "a_s", "b_s", "coeffs", "seq", "terms", "interval", "series", "diagonal", "E"):
                        bad = True; break
                    else:
                        slots.append("x")
                if bad or (not slots and any(p.kind == p.VAR_POSITIONAL for p in params)):
                    continue
                out.append((ctxname, name, slots, {}, flags))
            for name in sorted(OPERATORS):
                if ctxname == "iv" and name in ("operator.mod", "method.sqrt", "method.conjugate", "ctor.mpc"):
                    continue
                if ctxname == "mp" and name in ("attr.mid", "attr.delta", "attr.a", "attr.b"):
                    continue
                out.append((ctxname, name, RECIPES[name][0], {}, {"op": True, "scope": "statement", "module": "operator"}))
        return out

    def tasks(self, precs=(10, 53, 100), sample=None, moods_per=2):
        """seeded task list; sample = number of function targets to draw (None: all)"""
        tg = self.targets()
        core = [t for t in tg if t[4].get("op") or t[4].get("libmp") or t[1] in ALWAYS]
        rest = [t for t in tg if t not in core]
        if sample is not None and sample < len(rest):
            rest = self.r.sample(rest, sample)
        chosen = core + rest
        tasks = []
        for (ctxname, name, slots, fkw, flags) in chosen:
            for prec in precs:
                moods = ["pos"] + self.r.sample(MOODS[1:], moods_per - 1) if slots else ["pos"]
                if flags.get("op"):
                    moods = ["real", "complex", "mixed"]
                if flags.get("const"):
                    moods = ["pos"]
                for mood in moods:
                    try:
                        args = [self.slot(c, ctxname, mood, prec) for c in slots]
                        kw = {k: (self.slot(v, ctxname, mood, prec) if isinstance(v, str) and v in ("u", "q", "p") else ["raw", v])
                              for k, v in fkw.items()}
                    except ValueError:
                        continue
                    if flags.get("op") and mood == "mixed" and len(args) == 2:
                        # one mpc/ivmpf operand against mpf / int / float
                        args[0] = self.num(ctxname, "complex" if ctxname == "mp" else "real", prec)
                        if ctxname == "iv":
                            args[1] = self.r.choice([["int", self.r.randint(1, 7)], float_spec(self.r.uniform(0.5, 3))])
                        else:
                            args[1] = self.num(ctxname, self.r.choice(["real", "int", "float"]), prec)
                            if self.r.random() < 0.5 and name != "operator.pow":
                                args.reverse()
                    t = {"id": len(tasks), "ctx": ctxname, "fn": name, "args": args, "kw": kw, "prec": prec, "mood": mood,
                         "scope": flags.get("scope", "statement")}
                    tasks.append(t)
                    if (flags.get("libmp") or flags.get("const")) and mood == "pos":
                        # the prec= / dps= keyword of the libmp wrappers and constants
                        kp = self.r.choice([5, 20, 70])
                        t2 = dict(t); t2["id"] = len(tasks); t2["kw"] = dict(kw); t2["kw"]["prec"] = ["raw", kp]; t2["kwprec"] = kp
                        tasks.append(t2)
        return tasks, chosen, len(tg)


# utilities of ctx_base / ctx_mp that are neither operators, constructors nor elementary/special functions
UTILITIES = {"chop", "linspace", "arange", "almosteq", "fsum", "fdot", "fprod", "polyval", "polyroots", "chebyfit", "fourier", "fourierval",
             "matrix", "zeros", "ones", "eye", "diag", "hilbert", "unitvector", "mag", "nint_distance", "fraction", "isnan", "isinf",
             "isint", "isnormal", "isfinite", "isnpint"}

ALWAYS = {"fabs", "fadd", "fsub", "fmul", "fdiv", "fneg", "fmod", "fsum", "fdot", "fprod", "hypot", "atan2", "log", "log10",
          "power", "root", "nthroot", "cbrt", "agm", "re", "im", "conj", "arg", "sign", "ldexp", "frexp", "convert", "mpmathify",
          "chop", "linspace", "arange", "matrix", "polyval", "chebyfit", "bernoulli", "zeta", "gamma", "psi", "binomial",
          "cos_sin", "cospi_sinpi", "degrees", "radians", "inverse", "lu_solve", "det", "norm", "nint_distance", "mag",
          "besselj", "erf", "polar", "rect", "polyroots", "fraction", "unitroots"}


# ---- worker side ----------------------------------------------------------------------------

def _collect(x, path, out, depth=0):
    """every real number inside a public result as (path, raw tuple)"""
    if len(out) >= 300 or depth > 6:
        return
    if hasattr(x, "_mpi_"):
        a, b = x._mpi_
        out.append((path + ".a", a)); out.append((path + ".b", b)); return
    if hasattr(x, "_mpci_"):
        (a, b), (c, d) = x._mpci_
        out.extend([(path + ".re.a", a), (path + ".re.b", b), (path + ".im.a", c), (path + ".im.b", d)]); return
    if hasattr(x, "_mpc_"):
        re_, im_ = x._mpc_
        out.append((path + ".re", re_)); out.append((path + ".im", im_)); return
    if hasattr(x, "_mpf_"):
        out.append((path, x._mpf_)); return
    if hasattr(x, "rows") and hasattr(x, "cols") and hasattr(x, "__getitem__"):
        for i in range(min(x.rows, 6)):
            for j in range(min(x.cols, 6)):
                _collect(x[i, j], "%s[%d,%d]" % (path, i, j), out, depth + 1)
        return
    if isinstance(x, dict):
        for k in list(x)[:20]:
            _collect(x[k], "%s[%r]" % (path, k), out, depth + 1)
        return
    if isinstance(x, (list, tuple)):
        for i, y in enumerate(x[:40]):
            _collect(y, "%s[%d]" % (path, i), out, depth + 1)
        return
    if hasattr(x, "__next__"):
        import itertools
        for i, y in enumerate(itertools.islice(x, 5)):
            _collect(y, "%s<%d>" % (path, i), out, depth + 1)


def _wbuild(ctx, v):
    if v[0] == "raw": return v[1]
    if v[0] == "dict": return {k: [_wbuild(ctx, a) for a in vs] for k, vs in v[1].items()}
    if v[0] in ("list", "tuple"):
        xs = [_wbuild(ctx, a) for a in v[1]]
        return xs if v[0] == "list" else tuple(xs)
    if v[0] == "matrix": return ctx.matrix([[_wbuild(ctx, a) for a in row] for row in v[1]])
    return build(ctx, v)


def worker_call(task, mpmath):
    import traceback
    if task["ctx"] == "mp":
        ctx = mpmath.mp.clone()
    else:
        ctx = type(mpmath.iv)()
    ctx.prec = task["prec"]
    name = task["fn"]
    res = {"id": task["id"]}
    try:
        args = [_wbuild(ctx, a) for a in task["args"]]
        kw = {k: _wbuild(ctx, v) for k, v in task["kw"].items()}
        if name == "ctor.mpf": r = ctx.mpf(*args, **kw)
        elif name == "ctor.mpc": r = ctx.mpc(*args, **kw)
        elif name in OPERATORS: r = OPERATORS[name](*args)
        elif name.startswith("probe."): r = PROBES[name](ctx, *args)
        else: r = getattr(ctx, name)(*args, **kw)
        out = []
        _collect(r, "", out)
        res["status"] = "ok"
        res["type"] = type(r).__name__
        res["reals"] = [[p, int(t[0]), "%x" % int(t[1]), int(t[2]), int(t[3])] for p, t in out]
        res["prec_after"] = ctx.prec
    except BaseException as e:  # noqa
        if isinstance(e, (KeyboardInterrupt, SystemExit)):
            raise
        res["status"] = "exc"
        res["exc"] = type(e).__name__
        tb = traceback.extract_tb(e.__traceback__)
        res["strict"] = any(fr.name in ("strict_normalize", "strict_normalize1") for fr in tb)
        res["where"] = "%s:%d" % (os.path.basename(tb[-1].filename), tb[-1].lineno) if tb else ""
    return res


def _probe_bernoulli(ctx, n):
    a = ctx.bernoulli(n); b = ctx.bernoulli(n)
    return [a, b]


def _probe_decorator(kind):
    def run(ctx, n):
        mgr = getattr(ctx, kind)(n, normalize_output=True)
        f = mgr(lambda: ctx.mpf(1) / 3)
        g = mgr(lambda: (ctx.mpf(2) / 3, ctx.sqrt(2)))
        return [f(), g()]
    return run


PROBES = {"probe.bernoulli_first_call": _probe_bernoulli,
          "probe.workprec_normalize_output": _probe_decorator("workprec"),
          "probe.extraprec_normalize_output": _probe_decorator("extraprec"),
          "probe.workdps_normalize_output": _probe_decorator("workdps"),
          "probe.extradps_normalize_output": _probe_decorator("extradps")}


def probe_tasks(r, start_id):
    """stateful probes; each runs first in a worker of its own (caches empty)"""
    out = []
    for prec in (10, 53, 60, 100):
        for n in (r.choice([2, 4, 6]), 8, r.choice([10, 12, 20, 30])):
            out.append({"ctx": "mp", "fn": "probe.bernoulli_first_call", "args": [["int", n]], "kw": {}, "prec": prec, "mood": "probe", "fresh": True, "scope": "statement"})
        for nm, n in (("workprec", 200), ("extraprec", 64), ("workdps", 50), ("extradps", 20)):
            out.append({"ctx": "mp", "fn": "probe.%s_normalize_output" % nm, "args": [["int", n]], "kw": {}, "prec": prec, "mood": "probe", "fresh": True, "scope": "statement"})
    for i, t in enumerate(out):
        t["id"] = start_id + i
    return out


def worker_main():
    import_repo()
    import mpmath
    for line in sys.stdin:
        line = line.strip()
        if not line:
            continue
        task = json.loads(line)
        res = worker_call(task, mpmath)
        sys.stdout.write(json.dumps(res) + "\n")
        sys.stdout.flush()


# ---- parent side ----------------------------------------------------------------------------

class _Worker:
    def __init__(self, strict):
        self.strict = strict
        self.p = None

    def start(self):
        env = dict(os.environ)
        env["MPMATH_NOGMPY"] = "1"
        env["PYTHONHASHSEED"] = "0"
        if self.strict:
            env["MPMATH_STRICT"] = "Y"
        else:
            env.pop("MPMATH_STRICT", None)
        self.p = subprocess.Popen([sys.executable, os.path.abspath(__file__), "--worker"], stdin=subprocess.PIPE,
                                  stdout=subprocess.PIPE, stderr=subprocess.DEVNULL, env=env, text=True, bufsize=1)

    def stop(self):
        if self.p is not None:
            try:
                self.p.kill(); self.p.wait(timeout=5)
            except Exception:  # noqa
                pass
            self.p = None

    def call(self, task, timeout):
        if self.p is None or self.p.poll() is not None:
            self.start()
        try:
            self.p.stdin.write(json.dumps(task) + "\n"); self.p.stdin.flush()
        except (BrokenPipeError, OSError):
            self.stop()
            return {"id": task["id"], "status": "crash"}
        rl, _, _ = select.select([self.p.stdout], [], [], timeout)
        if not rl:
            self.stop()
            return {"id": task["id"], "status": "timeout"}
        line = self.p.stdout.readline()
        if not line:
            self.stop()
            return {"id": task["id"], "status": "crash"}
        return json.loads(line)


def run_pool(tasks, nworkers=6, timeout=4.0, strict=False, budget=None):
    """static round-robin assignment (deterministic cache history per worker); returns results by task id.
    Tasks not started when the wall-clock budget runs out are reported as 'not-run'."""
    results = {}
    t0 = time.time()
    lanes = [[] for _ in range(nworkers)]
    k = 0
    for t in tasks:
        if t.get("fresh"):
            continue
        lanes[k % nworkers].append(t); k += 1
    fresh = [t for t in tasks if t.get("fresh")]

    def lane(ts):
        w = _Worker(strict)
        try:
            for t in ts:
                if budget is not None and time.time() - t0 > budget:
                    results[t["id"]] = {"id": t["id"], "status": "not-run"}
                    continue
                results[t["id"]] = w.call(t, timeout)
        finally:
            w.stop()

    def fresh_lane(ts):
        for t in ts:
            w = _Worker(strict)
            try:
                results[t["id"]] = w.call(t, timeout + 4)
            finally:
                w.stop()

    threads = [threading.Thread(target=lane, args=(l,)) for l in lanes if l]
    nf = max(1, min(3, len(fresh)))
    threads += [threading.Thread(target=fresh_lane, args=(fresh[i::nf],)) for i in range(nf) if fresh[i::nf]]
    for th in threads: th.start()
    for th in threads: th.join()
    return results


def bound_of(task):
    """the precision the property promises for this call"""
    return task.get("kwprec") or task["prec"]


def judge_sweep(tasks, results):
    """-> record with per-function coverage and the C01 / C10 failing inputs"""
    per = {}
    c01, c10, strict_fail = [], [], []
    nreals = 0
    long_exact = {}
    for t in tasks:
        r = results.get(t["id"], {"status": "missing"})
        key = "%s.%s" % (t["ctx"], t["fn"])
        d = per.setdefault(key, {"calls": 0, "ok": 0, "exc": 0, "timeout": 0, "reals": 0})
        d["calls"] += 1
        st = r["status"]
        if st == "ok":
            d["ok"] += 1
        elif st == "exc":
            d["exc"] += 1
            if r.get("strict"):
                strict_fail.append({"site": "sweep." + key, "what": "MPMATH_STRICT assertion in normalize failed during %s (%s)" % (key, r.get("where")),
                                    "input": {"task": t}})
            continue
        else:
            d["timeout"] += 1
            continue
        p = bound_of(t)
        for path, s, man, e, bc in r["reals"]:
            tup = (s, int(man, 16), e, bc)
            nreals += 1; d["reals"] += 1
            if not spec.is_canonical(tup):
                c01.append({"site": "sweep." + key, "what": "%s returns a non-canonical real %r at result%s" % (key, tup, path),
                            "input": {"task": t, "path": path, "value": list(r["reals"][0])}})
            if tup[1] and bc > p:
                if t["fn"] in C10_EXACT:
                    long_exact[key] = long_exact.get(key, 0) + 1
                else:
                    c10.append({"site": "sweep." + key, "what": "%s at precision %d returns a %d-bit mantissa (result%s)" % (key, p, bc, path),
                                "input": {"task": t, "path": path, "bc": bc, "prec": p, "scope": t.get("scope", "statement")}})
    return {"per_function": per, "c01": c01, "c10": c10, "strict": strict_fail, "reals": nreals, "documented_exact_long": long_exact}


def run_sweep(seed, quick=True, strict=False, nworkers=6, timeout=None, sample=None, budget=None, extra_tasks=None):
    sw = Sweep(seed)
    tasks, chosen, total = sw.tasks(sample=sample if sample is not None else (110 if quick else None), moods_per=2 if quick else 4)
    tasks += probe_tasks(sw.r, len(tasks))
    for t in (extra_tasks or []):        # replayed failing inputs run first, each in a worker of its own
        t = dict(t); t["id"] = len(tasks); t["fresh"] = True
        tasks.insert(0, t)
    timeout = timeout or (3.0 if quick else 20.0)
    t0 = time.time()
    results = run_pool(tasks, nworkers, timeout, strict, budget)
    rec = judge_sweep(tasks, results)
    rec["tasks"] = len(tasks)
    rec["targets_total"] = total
    rec["targets_covered"] = sorted({"%s.%s" % (c[0], c[1]) for c in chosen})
    rec["wall"] = time.time() - t0
    rec["strict"] = rec["strict"]
    rec["strict_mode"] = strict
    rec["status_counts"] = {}
    for r in results.values():
        rec["status_counts"][r["status"]] = rec["status_counts"].get(r["status"], 0) + 1
    rec["samples"] = [{"task": t, "result": {k: v for k, v in results[t["id"]].items() if k != "reals"},
                       "first_reals": results[t["id"]].get("reals", [])[:2]} for t in tasks[5:400:97]]
    return rec


def family_of(case):
    k = case.get("kind")
    if k in ("binop", "fop", "ctor", "sqrt", "unary", "fsum", "fdot"): return ApiArith
    if k == "cmp": return ApiCmp
    if k in ("ip", "toint", "mod"): return ApiIntPart
    raise ValueError("unknown case kind %r" % (k,))


def replay_case(case):
    """re-run one recorded case (dict) or sweep task (dict with 'fn'); returns a printable record"""
    if "fn" in case:
        t = dict(case); t["id"] = 0; t["fresh"] = True
        results = run_pool([t], 1, 60.0, False)
        rec = judge_sweep([t], results)
        return {"result": results[0], "c01": [f["what"] for f in rec["c01"]], "c10": [f["what"] for f in rec["c10"]]}
    fam = family_of(case)(0)
    fr = run_family(fam, 0, 0, cases=[case])
    return {"decided": fr["decided"], "failing": fr["failing"], "disagreements": fr["disagreements"], "samples": fr["samples"]}


# ======================================================================================
# command line
# ======================================================================================

def _report(name, res):
    print("%s: cases %d  with-model %d  rational-oracle-only %d  decided %s  failing %d  disagreements %d" %
          (name, res["cases"], res["with_model"], res["rational_oracle_only"], res["decided"], len(res["failing"]),
           len(res["disagreements"])))
    for k, v in sorted(res["per_key"].items()):
        print("   %-28s %6d%s" % (k, v[0], ("   VIOLATIONS %d" % v[1]) if v[1] else ""))
    seen = {}
    for f in res["failing"]:
        seen.setdefault(f["site"], []).append(f)
    for s_, fl in seen.items():
        print("  site %s: %d failing, e.g. %s" % (s_, len(fl), json.dumps(fl[0], default=str)[:700]))
    for d in res["disagreements"][:5]:
        print("  DISAGREE", json.dumps(d, default=str)[:600])


if __name__ == "__main__":
    if len(sys.argv) > 1 and sys.argv[1] == "--worker":
        worker_main()
        sys.exit(0)
    if len(sys.argv) > 2 and sys.argv[1] == "replay":
        print(json.dumps(replay_case(json.loads(sys.argv[2])), indent=1, default=str))
        sys.exit(0)
    fam = sys.argv[1] if len(sys.argv) > 1 else "all"
    n = int(sys.argv[2]) if len(sys.argv) > 2 else 5000
    seed = int(sys.argv[3]) if len(sys.argv) > 3 else 0
    t0 = time.time()
    if fam in ("arith", "all"):
        _report("arith", run_family(ApiArith(seed), n, seed))
    if fam in ("cmp", "all"):
        _report("cmp", run_family(ApiCmp(seed), n, seed))
    if fam in ("intpart", "all"):
        _report("intpart", run_family(ApiIntPart(seed), n, seed))
    if fam in ("sweep", "sweep-strict"):
        rec = run_sweep(seed, quick=(n <= 5000), strict=(fam == "sweep-strict"))
        print("sweep: tasks %d  status %s  reals %d  wall %.1fs  targets %d of %d" % (rec["tasks"], rec["status_counts"], rec["reals"],
              rec["wall"], len(rec["targets_covered"]), rec["targets_total"]))
        noresult = [k for k, v in rec["per_function"].items() if not v["ok"]]
        print("  functions with at least one result: %d; without any: %d %s" % (len(rec["per_function"]) - len(noresult), len(noresult), noresult))
        for nm in ("c01", "c10", "strict"):
            seen = {}
            for f in rec[nm]:
                seen.setdefault(f["site"], []).append(f)
            for s_, fl in sorted(seen.items()):
                print("  %s %s: %d, e.g. %s" % (nm.upper(), s_, len(fl), fl[0]["what"]))
        print("  documented-exact long results:", rec["documented_exact_long"])
    print("time %.1fs" % (time.time() - t0))
