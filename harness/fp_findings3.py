"""Known-finding predicates of C43 found by the structured families of round 3 (harness/props/C43.py imports this module).

Inputs are the `case` dictionaries of harness/props/C43.py: {"kind": "fp1", "fun", "x", "class", "fp"} for one-argument
functions, {"kind": "fp2", "fun": "power", "x", "y", "class", "fp"} for power; x, y, fp are `repr` strings of Python floats /
complex numbers (the TYPE of the operand is visible in the repr).
"""
import math, cmath
from findings import predicate


def _num(s):
    return eval(s, {"__builtins__": {}}, {"inf": float("inf"), "nan": float("nan")})


@predicate("fp_sinpi_cospi_argument_at_least_2^1023")
def _fp_sinpi_overflow(inp):
    """math2._sinpi_real/_cospi_real/_sinpi_complex/_cospi_complex start with divmod(x, 0.5): for |x| >= 2^1023 the quotient
    2x overflows to inf, `n %= 4` is nan, no branch of the if-chain is taken and the function returns None (cospi, sinpi of a
    positive argument) or raises TypeError (-None, sinpi of a negative argument).  Every such double is a multiple of 4:
    cospi = 1, sinpi = 0."""
    c = inp["case"]
    if c.get("fun") not in ("sinpi", "cospi"):
        return False
    x = complex(_num(c["x"]))
    return abs(x.real) >= 2.0 ** 1023


def _power_operands(inp):
    c = inp["case"]
    if c.get("fun") != "power" or "y" not in c:
        return None
    return _num(c["x"]), _num(c["y"])


@predicate("fp_power_complex_operand_accumulated_or_polar_error")
def _fp_cpow(inp):
    """math2.pow with a complex-typed operand is CPython's complex ** complex:
     * an integer exponent |n| <= 100 is evaluated by repeated multiplication (binary powering); the relative error grows
       like n*2^-53 (measured against exact Gaussian-rational arithmetic: up to 0.9*2^-48 at |n| = 25, 3*2^-48 at |n| = 90),
       above the 2^-48 of the property from |n| ~ 26 on;
     * every other exponent goes through the polar form hypot(a)^Re(b) e^{-Im(b) arg a} (cos p, sin p) with the phase
       p = Re(b) arg(a) + Im(b) ln|a|, all in double: the rounding of hypot(a) costs |Re b|*2^-53, that of arg(a) and ln|a|
       (|Re b| + |Im b|) |arg a|*2^-53 and |Im b| |ln|a||*2^-53; with M = |Re b|(1 + |arg a|) + |Im b|(|ln|a|| + |arg a|) the
       relative error is about M*2^-53, above 2^-48 once M exceeds ~32.
    The predicate holds for integer exponents 24 <= |n| <= 100 and for polar-form evaluations with M >= 16."""
    ab = _power_operands(inp)
    if ab is None:
        return False
    a, b = ab
    if type(a) is not complex and type(b) is not complex:
        return False
    a, b = complex(a), complex(b)
    if a == 0:
        return False
    if b.imag == 0 and b.real == math.floor(b.real) and abs(b.real) <= 100:
        return abs(b.real) >= 24
    th = abs(math.atan2(a.imag, a.real))
    return abs(b.real) * (1 + th) + abs(b.imag) * (abs(math.log(abs(a))) + th) >= 16


@predicate("fp_power_complex_base_on_branch_cut")
def _fp_pow_cut(inp):
    """a complex-typed base on the negative real axis with a non-integer (or complex) exponent: CPython takes
    arg(a) = atan2(-0.0, a.real) = -pi for an imaginary part -0.0, mp has no signed zero and uses +pi.  (C43.py reports a
    case at this site only when fp's value agrees with exp(b*conj(log a)), the value across the cut.)"""
    ab = _power_operands(inp)
    if ab is None:
        return False
    a, b = ab
    if type(a) is not complex or a.imag != 0 or not a.real < 0:
        return False
    b = complex(b)
    return not (b.imag == 0 and b.real == math.floor(b.real))


@predicate("mp_power_half_integer_exponent_sqrt_guard_bits")
def _mp_pow_half(inp):
    """libelefun.mpf_pow / libmpc.mpc_pow_mpf evaluate s**t for a half-integer t = n/2 as sqrt(s)**n with the square root
    rounded at prec+10 bits: the relative error n*2^-(prec+10) exceeds 2^-48 at 53 bits for |n| > 2^15 (the result stays
    inside the double range only for bases next to the unit circle).  Same defect as C12's
    pow_fractional_exponent_result_exponent_above_2^13; here the 53-bit mp value is the inaccurate side (fp agrees with mp at
    200 bits)."""
    ab = _power_operands(inp)
    if ab is None:
        return False
    a, b = ab
    b = complex(b)
    if b.imag != 0 or a == 0:
        return False
    t = 2 * b.real
    return t == math.floor(t) and b.real != math.floor(b.real) and abs(b.real) >= 2.0 ** 13


@predicate("fp_reciprocal_of_overflowing_cosh_sinh")
def _fp_sech_overflow(inp):
    """functions.sech/csch (sec/csc) are 1/cosh, 1/sinh (1/cos, 1/sin) in double arithmetic: for 710.4758 < |Re z| < 745.14
    (|Im z| for sec/csc) the inner function overflows and OverflowError is raised, although the value (about 1e-309 ... 5e-324)
    is a subnormal double; seen whenever mp's 53-bit value happens to be exactly representable as a subnormal."""
    c = inp["case"]
    f = c.get("fun")
    if f not in ("sech", "csch", "sec", "csc") or "fp" in c:
        return False
    x = complex(_num(c["x"]))
    t = abs(x.real) if f in ("sech", "csch") else abs(x.imag)
    return 710.4758 < t < 746


@predicate("fp_complex_pow_base_modulus_outside_normal_range")
def _fp_cpow_modulus(inp):
    """CPython's complex ** complex (math2.pow with a complex-typed operand; math2.cbrt = z**(1./3)) starts the polar form
    with vabs = hypot(re, im) in double: for a base with both parts inside the binary64 range but |a| >= 2^1024 (up to
    sqrt(2)*max double) hypot overflows and OverflowError / ZeroDivisionError is raised although the result is an ordinary
    number; for |a| < 2^-1022 hypot is a subnormal with fewer than 53 bits and the result loses the same number of bits.
    Decided exactly on re^2 + im^2."""
    from fractions import Fraction
    c = inp["case"]
    f = c.get("fun")
    if f == "cbrt":
        a = _num(c["x"])
        if type(a) is not complex:
            return False
    elif f == "power":
        ab = _power_operands(inp)
        if ab is None:
            return False
        a, b = ab
        if type(a) is not complex and type(b) is not complex:
            return False
        a = complex(a)
        b = complex(b)
        if b.imag == 0 and b.real == math.floor(b.real) and abs(b.real) <= 100:
            return False                                   # multiplied out, no polar form
    else:
        return False
    m2 = Fraction(a.real) ** 2 + Fraction(a.imag) ** 2
    if m2 == 0:
        return False
    top = Fraction(2) ** 1024 - Fraction(2) ** 970         # hypot rounds to inf from here on
    return m2 >= top * top or m2 < Fraction(1, 2 ** 2044)


@predicate("fp_trig_libm_huge_argument_near_multiple_of_half_pi_complex")
def _fp_libm_complex(inp):
    """the complex-argument form of finding D27 (fp_trig_libm_huge_argument_near_multiple_of_half_pi): cmath.sin/cos/tan of
    x + iy call libm's sin/cos of the real part; for |x| >= 2^20 extremely close to a multiple of pi/2 (result below 2^-30
    or above 2^30) and a tiny |y| <= 2^-10 the ~43 correct bits of libm (glibc 2.36) show in the result"""
    c = inp["case"]
    if c.get("fun") not in ("sin", "cos", "tan", "cot", "sec", "csc") or "fp" not in c:
        return False
    x = complex(_num(c["x"]))
    if x.imag == 0 or abs(x.imag) > 2.0 ** -10 or abs(x.real) < 2.0 ** 20:
        return False
    w = complex(_num(c["fp"]))
    return abs(w) < 2.0 ** -30 or abs(w) > 2.0 ** 30
