"""Matching of failing inputs against /verif/known_findings.json (never written at run time).

An entry: {"id", "property", "status": "finding"|"fixed", "site", "predicate", "witness", "what"}.
A failing input {"site":..., "input":...} matches a *finding* entry when the sites are equal and the
entry's named predicate (a decidable, narrow description of the defect family) holds of the input.
"""

PREDICATES = {}


def predicate(name):
    def deco(f):
        PREDICATES[name] = f
        return f
    return deco


@predicate("always")
def _always(inp):
    return True


def match(known, failing):
    for k in known:
        if k.get("status") != "finding":
            continue
        if k.get("site") != failing.get("site"):
            continue
        p = PREDICATES.get(k.get("predicate", ""))
        if p is None:
            continue
        try:
            if p(failing.get("input")):
                return k
        except Exception:
            continue
    return None


@predicate("sweep_path_im")
def _sweep_path_im(inp):
    return str(inp.get("path", "")).endswith(".im")


@predicate("from_str_approx_branch")
def _from_str_approx(inp):
    return abs(int(inp.get("decimal_exponent", 0))) > 400


@predicate("nstr_long_mantissa")
def _nstr_long(inp):
    n = int(inp.get("n", 0))
    return int(inp.get("bc", 0)) > int((n + 3) * 3.3219280948873626) + 10
