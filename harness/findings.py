"""Matching of failing inputs against /verif/known_findings.json (never written at run time).

An entry: {"id", "property", "status": "finding"|"fixed", "site", "predicate", "witness", "what"}.
A failing input {"site":..., "input":...} matches a *finding* entry when the sites are equal and the
entry's named predicate (a decidable, narrow description of the defect family) holds of the input.
"""

PREDICATES = {}


def predicate(name):
    def deco(f):
        PREDICATES[name] = f
        return f
    return deco


@predicate("always")
def _always(inp):
    return True


def match(known, failing):
    for k in known:
        if k.get("status") != "finding":
            continue
        if k.get("site") != failing.get("site"):
            continue
        p = PREDICATES.get(k.get("predicate", ""))
        if p is None:
            continue
        try:
            if p(failing.get("input")):
                return k
        except Exception:
            continue
    return None
