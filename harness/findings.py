"""Matching of failing inputs against /verif/known_findings.json (never written at run time).

An entry: {"id", "property", "status": "finding"|"fixed", "site", "predicate", "witness", "what"}.
A failing input {"site":..., "input":...} matches a *finding* entry when the sites are equal and the
entry's named predicate (a decidable, narrow description of the defect family) holds of the input.
"""

PREDICATES = {}


def predicate(name):
    def deco(f):
        PREDICATES[name] = f
        return f
    return deco


@predicate("always")
def _always(inp):
    return True


def match(known, failing):
    for k in known:
        if k.get("status") != "finding":
            continue
        if k.get("site") != failing.get("site"):
            continue
        p = PREDICATES.get(k.get("predicate", ""))
        if p is None:
            continue
        try:
            if p(failing.get("input")):
                return k
        except Exception:
            continue
    return None


@predicate("sweep_path_im")
def _sweep_path_im(inp):
    return str(inp.get("path", "")).endswith(".im")


@predicate("from_str_approx_branch")
def _from_str_approx(inp):
    return abs(int(inp.get("decimal_exponent", 0))) > 400


@predicate("nstr_long_mantissa")
def _nstr_long(inp):
    n = int(inp.get("n", 0))
    return int(inp.get("bc", 0)) > int((n + 3) * 3.3219280948873626) + 10
# ---- C11 (precision restore): inputs are produced by harness/props/C11.py::_failing ---------------------------------
def _c11_changed(inp):
    return list(inp["before"]) != list(inp["after"])


@predicate("c11_restored_via_dps")
def _c11_restored_via_dps(inp):
    """normal return, dps unchanged, prec changed: the function saved/restored dps instead of prec"""
    return (inp["fault"] == "none" and inp["outcome"] == "ok" and inp["after"][1] == inp["before"][1]
            and inp["after"][0] != inp["before"][0])


@predicate("c11_exception_leaves_prec_raised")
def _c11_exception_leaves_prec_raised(inp):
    """an injected exception (callback or libmp primitive) propagates and the raised working precision stays"""
    return (inp["fault"] in ("callback", "libmp") and str(inp["outcome"]).startswith("injected")
            and inp["after"][0] > inp["before"][0])


@predicate("c11_libmp_fault_leaves_prec_changed")
def _c11_libmp_fault(inp):
    """only an exception from inside the library (not from user code) exposes the missing try/finally"""
    return inp["fault"] == "libmp" and str(inp["outcome"]).startswith("injected") and _c11_changed(inp)


@predicate("c11_own_exception_leaves_prec_changed")
def _c11_own_exception(inp):
    """the function raises (its own NotImplementedError, or an injected fault) and leaves its internal precision"""
    o = str(inp["outcome"])
    return (o == "exc:NotImplementedError" or o.startswith("injected")) and _c11_changed(inp)


@predicate("c11_manager_reentered")
def _c11_manager_reentered(inp):
    return inp["entry"] == "extraprec_reentrant" and _c11_changed(inp)
def _case_x(inp):
    c = inp["case"]
    return c, int(c["x"][0]), int(c["x"][1])


@predicate("acosh_arg_within_2^-34_of_one")
def _acosh_near_one(inp):
    """libelefun.mpf_acosh adds x + sqrt(x^2-1) at prec+15 bits: for 1 < x < 1 + 2^-34 the small term loses more
    than 4 bits beyond the guard bits (violations observed from x - 1 = 2^-37 downwards, at every precision)."""
    c, m, e = _case_x(inp)
    if c.get("fun") != "acosh" or m <= 0 or e >= 0:
        return False
    one = 1 << -e
    return one < m and (m - one) << 34 < one


@predicate("log_arg_in_quarter_half_binade_close_to_quarter")
def _log_quarter(inp):
    """libelefun.mpf_log tests `abs_mag <= 1` for "x close to 1", which also admits mag = -1 (1/4 <= x < 1/2); for
    x = (1+eps)/4 with bc - bitcount(man - 2^(bc-1)) > prec + 20 it returns ~eps instead of log x."""
    c, m, e = _case_x(inp)
    if c.get("fun") not in ("ln", "log") or m <= 0:
        return False
    while not m & 1:
        m >>= 1
        e += 1
    bc = m.bit_length()
    if e + bc != -1 or m == 1:
        return False
    t = m - (1 << (bc - 1))
    return bc - t.bit_length() > int(c["prec"]) + 20


@predicate("pow_fractional_exponent_result_exponent_above_2^13")
def _pow_big(inp):
    """libelefun.mpf_pow computes exp(t*log(s)) with log(s) at prec+10 bits (and sqrt(s)^n for half-integers with sqrt at
    prec+10 bits): the relative error is about |t*ln s|*2^-(prec+10), above 2^(4-p) once |t*ln s| exceeds ~2^14."""
    import math
    c = inp["case"]
    if c.get("fun") != "pow" or "y" not in c:
        return False
    mx, ex = int(c["x"][0]), int(c["x"][1])
    my, ey = int(c["y"][0]), int(c["y"][1])
    if mx <= 0 or my == 0:
        return False
    while not my & 1:
        my >>= 1
        ey += 1
    if ey >= 0:
        return False                                   # integer exponent: mpf_pow_int, a different routine
    from fractions import Fraction
    d = Fraction(mx) * Fraction(2) ** ex - 1
    if abs(d) < Fraction(1, 2):
        lnx = math.log1p(float(d))                      # no cancellation for bases close to 1
    else:
        lnx = math.log(mx) + ex * math.log(2.0)
    lny = math.log(abs(my)) + ey * math.log(2.0)
    return lnx != 0 and lny + math.log(abs(lnx)) >= 13 * math.log(2.0)


@predicate("nthroot_uses_pow_branch")
def _nthroot_pow(inp):
    """libelefun.mpf_nthroot computes x**(1/n) through mpf_pow when n > 20 and (n >= 20000 or prec < 233 + 28.3 n^0.62):
    roots of perfect n-th powers are then not exact."""
    c = inp["case"]
    n, prec = int(c.get("n", 0)), int(c["prec"])
    return c.get("fun") == "root" and n > 20 and (n >= 20000 or prec < int(233 + 28.3 * n ** 0.62))


@predicate("nthroot_newton_branch_directed_rounding")
def _nthroot_directed(inp):
    """libelefun.mpf_nthroot (Newton branch, also behind mpf_cbrt): with a directed rounding mode the fixed-point root of an
    exact n-th power can come out one unit off in the rounding direction (about 0.4% of perfect powers); exact in mode n."""
    c = inp["case"]
    return c.get("fun") in ("root", "cbrt") and c.get("rnd") in ("f", "c", "d", "u") and int(c.get("n", 0)) >= 3


# ---- C43 (fp context) -------------------------------------------------------------------------------------------

def _c43(inp):
    c = inp["case"]
    x = complex(eval(c["x"], {"__builtins__": {}}, {"inf": float("inf"), "nan": float("nan")})) if "x" in c else None
    return c, x


@predicate("fp_inverse_hyperbolic_missing")
def _fp_missing(inp):
    """fp has no asinh / acosh / atanh; acoth, asech, acsch exist but raise AttributeError because they call them"""
    return inp["case"].get("fun") in ("asinh", "acosh", "atanh", "acoth", "asech", "acsch")


@predicate("fp_inverse_trig_conjugate_branch_outside_real_domain")
def _fp_conj(inp):
    """math2.asin/acos use cmath's value on the cut (imaginary part of the opposite sign to mp's) for real x > 1;
    asec/acsc inherit it for real 0 < x < 1"""
    c, x = _c43(inp)
    if x is None or x.imag != 0:
        return False
    if c.get("fun") in ("asin", "acos"):
        return x.real > 1
    if c.get("fun") in ("asec", "acsc"):
        return 0 < x.real < 1 or (x.real == 0 and False)
    return False


@predicate("fp_log_of_zero_raises")
def _fp_log0(inp):
    c, x = _c43(inp)
    return c.get("fun") in ("log", "ln") and x == 0


@predicate("fp_cbrt_is_pow_one_third")
def _fp_cbrt(inp):
    """math2.cbrt is x**(1./3): the rounded exponent costs |ln x| * 1.85e-17 relative, above 2^-48 for |log2 |x|| > ~270"""
    import math
    c, x = _c43(inp)
    return c.get("fun") == "cbrt" and x != 0 and abs(math.log2(abs(x))) >= 200


@predicate("fp_sinpi_cospi_reduced_argument_times_pi")
def _fp_sinpi(inp):
    """math2._sinpi/_cospi multiply the reduced argument by the double pi: real results smaller than 2^-3 in magnitude lose
    relative accuracy; complex arguments with |Im| > 8 lose |pi*Im| * 2^-53"""
    c, x = _c43(inp)
    if c.get("fun") not in ("sinpi", "cospi"):
        return False
    w = complex(eval(c["fp"], {"__builtins__": {}}, {}))
    return abs(x.imag) > 8 or abs(w) < 0.125


@predicate("fp_trig_libm_huge_argument_near_multiple_of_half_pi")
def _fp_libm(inp):
    """libm (glibc 2.36 here) at |x| >= 2^60 extremely close to a multiple of pi/2 (result below 2^-40 or above 2^40)"""
    c, x = _c43(inp)
    if c.get("fun") not in ("sin", "cos", "tan", "cot", "sec", "csc") or x.imag != 0 or abs(x.real) < 2.0 ** 20:
        return False
    w = complex(eval(c["fp"], {"__builtins__": {}}, {}))
    return abs(w) < 2.0 ** -30 or abs(w) > 2.0 ** 30


@predicate("fp_power_negative_base_large_exponent")
def _fp_pow(inp):
    c = inp["case"]
    if c.get("fun") != "power":
        return False
    a = float(c["x"]); b = float(c["y"])
    return a < 0 and abs(b) >= 8


@predicate("mp_atan_small_imaginary_argument")
def _mp_atan(inp):
    """libmpc.mpc_atan loses all accuracy in the imaginary part for tiny complex arguments with a non-zero imaginary part
    (mp.atan(1e-20j) = 8.47e-21j at 53 bits)"""
    c, x = _c43(inp)
    return c.get("fun") == "atan" and x.imag != 0 and abs(x) < 2.0 ** -20


@predicate("fp_complex_argument_on_branch_cut")
def _fp_cut(inp):
    """complex argument with a zero real or imaginary part lying on a branch cut: cmath follows the sign of the zero
    (and continuity conventions of C99), mp has no signed zero"""
    c, x = _c43(inp)
    if c.get("class") != "complex" or x is None:
        return False
    return (x.real == 0 or x.imag == 0) and c.get("fun") in ("asin", "acos", "atan", "acot", "asec", "acsc", "log", "ln", "sqrt", "cbrt")


@predicate("fp_derived_inverse_function_ill_conditioned_composition")
def _fp_derived(inp):
    """fp's asec/acsc/acot/acoth/asech/acsch are compositions f(1/x) in double arithmetic: 1/x is rounded before the inverse
    function is applied, which is ill-conditioned for |x| within 2^-6 of 1 (asec, acsc, asech, acoth), for x within 2^-6
    of +-i (acot), and overflows for subnormal x"""
    c, x = _c43(inp)
    f = c.get("fun")
    if f not in ("asec", "acsc", "acot", "acoth", "asech", "acsch") or x is None:
        return False
    if x != 0 and abs(x) < 2.0 ** -1021:
        return True
    if f == "acot":
        return abs(x - 1j) < 2.0 ** -6 or abs(x + 1j) < 2.0 ** -6
    return abs(abs(x) - 1) < 2.0 ** -6


@predicate("mp_asin_acos_complex_near_branch_point")
def _mp_acos_bp(inp):
    """libmpc.acos_asin at 53 bits for a complex argument within 2^-20 of +-1 with a tiny imaginary part: the mp value (not
    the fp value) is off by more than 2^-48 (judged against mp at 200 bits)"""
    c, x = _c43(inp)
    return c.get("fun") in ("acos", "asin") and x is not None and x.imag != 0 and min(abs(x - 1), abs(x + 1)) < 2.0 ** -20


@predicate("mp_asin_acos_tiny_complex_argument")
def _mp_asin_tiny(inp):
    """libmpc.acos_asin at 53 bits drops the (much smaller) second component of a tiny complex argument:
    mp.asin(4e-123 - 9.7e-31j) = 4e-123 + 0j"""
    c, x = _c43(inp)
    return c.get("fun") in ("asin", "acos") and x is not None and x.imag != 0 and x.real != 0 and abs(x) < 2.0 ** -20


@predicate("pow_base_hits_log_quarter_branch")
def _pow_log_quarter(inp):
    """mpf_pow calls mpf_log(s, prec+10): the mpf_log defect for s = (1+eps)/4 (see log_arg_in_quarter_half_binade_close_to_quarter)
    propagates to s**t"""
    c = inp["case"]
    if c.get("fun") not in ("pow", "powm1"):
        return False
    m, e = int(c["x"][0]), int(c["x"][1])
    if m <= 0:
        return False
    while not m & 1:
        m >>= 1
        e += 1
    bc = m.bit_length()
    if e + bc != -1 or m == 1:
        return False
    t = m - (1 << (bc - 1))
    return bc - t.bit_length() > int(c["prec"]) + 30



@predicate("findpoly_rounded_powers_ok")
def _findpoly_rounded_powers_ok(inp):
    """C35: the returned polynomial passes the acceptance test against the rounded powers that were handed to pslq"""
    return inp.get("rounded_powers_ok") is True



@predicate("nsum_levin_zero_weight")
def _nsum_levin_zero_weight(inp):
    """C27: doubly infinite / multi-series nsum with method='levin' aborts with ValueError('levin: zero weight')"""
    return inp.get("method") == "levin" and str(inp.get("outcome", "")).startswith("raised ValueError: levin: zero weight")



@predicate("pow_half_integer_exponent_above_2^13")
def _pow_half_big(inp):
    """libelefun.mpf_pow with t = n/2 (n odd) computes mpf_pow_int(sqrt(s) at prec+10 bits, n): the relative error of the square
    root is amplified by n, whatever ln s is: about n*2^-(prec+10), above 2^(4-p) once n exceeds ~2^14."""
    c = inp["case"]
    if c.get("fun") != "pow" or "y" not in c:
        return False
    my, ey = int(c["y"][0]), int(c["y"][1])
    if my == 0:
        return False
    while not my & 1:
        my >>= 1
        ey += 1
    return ey == -1 and abs(my) >= 2 ** 13



@predicate("qr_no_convergence_repeated_eigenvalues")
def _qr_no_conv(inp):
    """C31: the shifted QR iteration of eigen.py gives up (RuntimeError 'qr: failed to converge') on matrices with repeated
    eigenvalues at some precisions"""
    res = inp.get("result") or {}
    return inp.get("cls") == "repeated" and res.get("exc") == "RuntimeError" and str(res.get("msg", "")).startswith("qr: failed to converge")



@predicate("nthroot_newton_branch_high_precision")
def _nthroot_highprec(inp):
    """libelefun.mpf_nthroot, Newton branch (n <= 20, or n > 20 at precisions above 233 + 28.3 n^0.62) at precisions above ~1000 bits:
    the fixed-point root of an exact n-th power comes out one unit off even in round-to-nearest (10 extra bits do not scale with
    the 10% precision supplement used for n > 10)"""
    c = inp["case"]
    n, prec = int(c.get("n", 0)), int(c["prec"])
    return c.get("fun") == "root" and n >= 7 and prec >= 1000 and not (n > 20 and (n >= 20000 or prec < int(233 + 28.3 * n ** 0.62)))


@predicate("ivfun_rgamma_large_integer_point")
def _iv_rgamma_big(inp):
    """iv.rgamma / iv.gamma at large arguments: mpf_gamma with a directed mode rounds an approximation (the Stirling series value),
    so the endpoint can be on the wrong side by ~2^-15 ulp"""
    if inp.get("fun") not in ("rgamma", "gamma", "factorial", "loggamma") or inp.get("class") != "contain":
        return False
    pm = inp.get("point_mag") or [0]
    return isinstance(pm[0], int) and pm[0] >= 7


@predicate("c24_expint_asymptotic_loop")
def _c24_expint_asymptotic_loop(inp):
    """the call is stuck in the first loop of libmp.libhyper.mpf_expint (the asymptotic series `while m and t:`), reached through
    the integer-order entry points only"""
    return inp.get("loop_key") == "libmp/libhyper.py::mpf_expint#0" and inp.get("fn") in ("expint", "gammainc", "e1", "ei")


@predicate("mp_trap_complex_reaches_rs_coef")
def _mp_trap_rs(inp):
    """C38: the GLOBAL mp has trap_complex on, the observed outcome is ComplexResult where the reference is a value"""
    obs, ref = inp.get("observed") or [], inp.get("reference") or []
    return ("st:0:1" in str(inp.get("program", "")).split() and obs[:2] == ["exc", "ComplexResult"] and ref[:1] == ["v"])



@predicate("nsum_tiny_sum_absolute_tolerance")
def _nsum_tiny(inp):
    """nsum's convergence test is absolute (eps): a multi-dimensional sum whose finite geometric factors make it tiny (here
    below 2^-20) is returned with an absolute error near eps, i.e. a relative error far above 2^(10-p)"""
    from fractions import Fraction
    if inp.get("shape") != "fin_fin_inf":
        return False
    d = (inp.get("sers") or [{}])[0]
    if d.get("ser") != "geom":
        return False
    r_, c_ = abs(Fraction(d["r"])), abs(Fraction(d["c"]))
    return 0 < r_ < 1 and c_ * r_ ** (int(inp["a"]) + int(inp["a2"])) < Fraction(1, 2 ** 20)



@predicate("eigsy_complex_typed_matrix")
def _eigsy_cplx(inp):
    t = inp.get("task") or {}
    res = inp.get("result") or {}
    return t.get("op") == "eigsy" and bool(t.get("cplx")) and res.get("exc") == "AttributeError"


@predicate("identify_inverse_transform_amplifies")
def _identify_inverse_transform_amplifies(inp):
    """C35: the relation holds for the transformed value t = f(x, c) within 2^10*tol*max(1,|t|) (so pslq did return a genuine
    relation) and the miss in x comes from pushing the tolerance through the inverse transformation"""
    e = inp.get("explanation") or {}
    return e.get("transformed_residual_ok") is True and e.get("transform") not in (None, "$y")


@predicate("identify_double_root_quadratic")
def _identify_double_root_quadratic(inp):
    """C35: the quadratic found for the transformed value has discriminant 0 (printed as sqrt(0)): its residual c (t - r)^2 is
    within the tolerance while |t - r| is only ~ sqrt(tol)"""
    e = inp.get("explanation") or {}
    return e.get("double_root_residual_ok") is True and "sqrt(0)" in str(inp.get("expression", ""))


@predicate("quad_half_infinite_gaussian_tail_early_stop")
def _quad_gauss_tail(inp):
    """C26: tanh-sinh quad of a Gaussian c*exp(-b x^2) split at a POSITIVE finite point a, i.e. containing the tail integral over
    [a, inf): for about 1% of (a, b, prec) the error extrapolation of quad accepts a level too early and the tail is off by
    2^11 .. 2^25 ulp (its own error estimate is smaller than the actual error).  Matches only when the unsplit variant over the
    whole line agrees with every split variant to 2^(30-p) relative (a dropped sub-interval or a wrong transformation is far above
    that) and every split point is positive."""
    from fractions import Fraction
    if inp.get("kind") != "quad" or inp.get("method") not in ("quad", "quadts") or inp.get("rule") not in (None, "tanh-sinh"):
        return False
    fams = [f.get("fam") for f in inp.get("factors") or []]
    if fams not in (["gaussFull"], ["gaussHalf"]):
        return False
    vs = [v.get("re") for v in (inp.get("result") or {}).get("vs") or []]
    variants = inp.get("variants") or []
    if len(vs) != len(variants) or not vs or any(v is None for v in vs):
        return False
    vals = [Fraction(int(m)) * Fraction(2) ** int(e) for m, e in vs]
    ref = abs(vals[0])
    if ref == 0:
        return False
    p = int(inp.get("prec", 53))
    split_ok = False
    for var, v in zip(variants, vals):
        pts = [q for q in var[0] if q not in ("inf", "-inf")]
        if abs(abs(v) - ref) > ref * Fraction(2) ** (30 - p):
            return False
        if abs(abs(v) - ref) > ref * Fraction(2) ** (9 - p):
            if not pts or any(Fraction(q) <= 0 for q in pts):
                return False
            split_ok = True
    return split_ok


import special_findings  # noqa: E402  (C18/C19/C22 predicates; must stay at the end of this file)
