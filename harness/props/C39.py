"""C39 — magnitude, nearest-integer and classification helpers are exact."""
from props import _helpers
import helpers_ops

LEVEL = "proof"
LEAN_MODULES = ["Props.C39"]
ASSUMPTIONS = [
    "the theorems are about the Lean model MpModel/Helpers.lean; it is tied to mpmath by the bit-exact correspondence "
    "run through the public mp API (mag, nint_distance, isint, isnpint, isnormal, isinf, isnan, isfinite, ldexp, frexp on "
    "mpf / mpc / int / float / mpq / str operands)",
    "'|x - n| close to 2^d' is decided as 2^(d-1) <= |x - n| < 2^(d+1) (the theorems give the sharper per-branch slack); "
    "'m at most 2 above optimal' as 2^(m-3) < |x| <= 2^m",
    "str operands: the value is that of ctx.convert(str) (decimal conversion is properties C07/C08)",
    "not claimed by the text, hence not decided: mag(nan), frexp of inf/nan, the tie direction of nint_distance, "
    "mpq objects with denominator 0, the Python type (bool or int) of a truth value",
]

RULE = ("helpers_ops.py C39 streams: structured operands (integers, half-integers, n +- 2^-j, |x| < 1/2, huge and tiny "
        "exponents, specials, floats by bit pattern, reduced rationals, decimal strings) through the public mp API; a case "
        "is non-trivial when the property text fixes the answer and it was decided exactly with integer/Fraction arithmetic")


def run(ctx):
    res = _helpers.run_streams(ctx, helpers_ops.C39_OPS, 40000, 1500000, _helpers.decide_c39, _helpers.site_c39, RULE)
    return res
