"""C33 — cached state never leaks stale or wrong results into later calls."""
import os, json, time
import cache_ops
import odeseg_ops

LEVEL = "proof"
LEAN_MODULES = ["MpProofs.Cache", "MpProofs.CacheOld", "Props.C33", "MpProofs.OdeSeg", "Props.C33ode"]
ASSUMPTIONS = [
    "crash points are the calls that can raise (the memoised computation and the primitives inside it), not the gap between "
    "two plain assignments: an asynchronous interrupt between `f.memo_val = ...` and `f.memo_prec = ...` breaks the invariant "
    "(Mp.constantMemo_async_counterexample) and is outside the property's quantifier",
    "each cache machine is parametrised by the pure function it memoises; the run ties the machines to /repo by comparing the real "
    "cache state (module globals, function attributes, A._LU, closures) with the model state after EVERY request of every history, "
    "with the real underlying function as F, and a final probe with a fresh process",
    "`prec <= int(prec*1.05+10)` is proved for prec < 4200 (Mp.newprec_ge_small) and is a hypothesis of constantMemo_refines beyond; "
    "the binary64 model of that expression is validated against CPython (C17)",
    "ifac/ifib/eulernum caches (C25) are not part of this check",
    "odefun segment cache (Props/C33ode.lean): abscissae are finite (x = nan / +inf make the real extension loop run forever and are "
    "not queried); every ode_taylor step moves the boundary strictly to the right (hypothesis Incr, checked on every real step of the "
    "run); F is a pure function apart from the injected transient faults; the crash points are the calls of F inside ode_taylor — an "
    "asynchronous interrupt between `series_boundaries.append(xb)` and `series_data.append(...)` breaks the cache "
    "(Mp.odeSeg_async_counterexample) and is outside the quantifier",
    "`rounding-level differences` are accepted as the property states: fixed-point constants that differ by one unit in the last "
    "place, bernoulli numbers from mpf_bernoulli_huge versus the recurrence (<= 1 ulp)",
]

PARTS = ["keys", "memo", "const", "logint", "bern", "exact", "quad", "lu", "memoize", "hyp", "matfun"]

WITNESSES = [
    ("matrices.linalg.LU_decomp:_LU-precision",
     "A._LU computed at a lower precision is served by LU_decomp(A)/lu(A) at a higher precision",
     "mp.prec = 20; A = mp.matrix([[1,3],[7,9]])/3; mp.LU_decomp(A)\n"
     "mp.prec = 200; P, L, U = mp.lu(A); P3, L3, U3 = mp.lu(A.copy())\n"
     "result = {'stale': not (L == L3 and U == U3), 'max_bits_served': max(x._mpf_[3] for x in U), 'max_bits_fresh': max(x._mpf_[3] for x in U3),"
     " 'residual_served': mp.nstr(mp.mnorm(P.T*L*U - A, 1), 5), 'residual_fresh': mp.nstr(mp.mnorm(P3.T*L3*U3 - A, 1), 5)}"),
    ("matrices.matrices.matrix:_LU-resize",
     "A._LU survives A.rows=/A.cols=: LU_decomp(A)/lu(A) serve the decomposition of the old contents",
     "A = mp.matrix([[4,1,2],[1,5,3],[2,3,6]]); mp.LU_decomp(A)\n"
     "A.rows = 2; A.cols = 2\n"
     "P, L, U = mp.lu(A); P3, L3, U3 = mp.lu(A.copy())\n"
     "result = {'stale': (L.rows, L.cols) != (L3.rows, L3.cols), 'A_dims': (A.rows, A.cols), 'served_L_dims': (L.rows, L.cols), 'fresh_L_dims': (L3.rows, L3.cols)}"),
]


def _replay_inputs(ctx):
    if not ctx.replay:
        return []
    try:
        rp = json.load(open(ctx.replay))
    except (OSError, ValueError):
        return []
    return [f for f in [rp.get("failing_input") or {}] + list(rp.get("others") or []) if f.get("input")]


def run(ctx):
    os.environ["CACHE_NEWPREC_EXHAUSTIVE"] = "0"
    n = 30 if ctx.quick else 1200
    t0 = time.time()
    H = cache_ops.CacheHarness(ctx.seed)
    H.run(n, PARTS)            # closes H.fresh
    fails, dis = [], []
    for d in H.dis:
        dis.append({"name": "T1:cache:" + d["part"], "op": d["part"], "line": d["line"], "impl": str(d["impl"])[:300],
                    "model": str(d["model"])[:300], "note": d.get("note", "")})
    for f in H.findings:
        fails.append({"site": f["site"], "what": f["what"], "input": json.loads(json.dumps(f["input"], default=str))})
    # deterministic public-API witnesses (fresh process each), and recorded replays
    fr = cache_ops.Fresh()
    wit = {}
    for site, what, code in WITNESSES:
        out = fr.eval(code)
        wit[site] = out
        if out.startswith("{'stale': True"):
            fails.append({"site": site, "what": what, "input": {"kind": "witness", "code": code, "observed": out}})
    for f in _replay_inputs(ctx):
        inp_ = f.get("input") or {}
        if inp_.get("kind") == "lu-history" and cache_ops.replay_lu(inp_):
            fails.append({"site": f.get("site"), "what": f.get("what"), "input": inp_})
        if inp_.get("kind") == "history-vs-fresh" and cache_ops.replay_matfun(inp_):
            fails.append({"site": f.get("site"), "what": f.get("what"), "input": inp_})
        if inp_.get("kind") == "odeseg-history" and odeseg_ops.replay(inp_):
            fails.append({"site": f.get("site"), "what": f.get("what"), "input": inp_})
        code = inp_.get("code")
        if code:
            out = fr.eval(code)
            if out.startswith("{'stale': True"):
                fails.append({"site": f.get("site"), "what": f.get("what"), "input": {"kind": "replay", "code": code, "observed": out}})
    fr.close()
    # odefun segment cache (series_boundaries / series_data)
    ode_cov, ode_fails, ode_dis = odeseg_ops.run_odeseg(ctx)
    fails += ode_fails
    dis += ode_dis
    steps = sum(v for k, v in H.count.items() if k.endswith("_steps"))
    probes = sum(v for k, v in H.count.items() if k.endswith("_probes"))
    cov = {
        "evaluations": steps + probes + H.count.get("keys", 0),
        "distinct_nontrivial": H.count.get("histories_with_hit_miss_or_fault", steps // 3),
        "rule": "seeded request histories per cache (precision sequences ascending/descending/repeated/random/cache-limit±1, several "
                "constants/arguments/matrices interleaved, element assignment, slice assignment (row / column / block, matrix or scalar "
                "value), resizing, precision changes), a fault injected into the "
                "memoised computation on ~15% of the requests (k-th raising call for the bernoulli recurrence and the quadrature rule); "
                "after EVERY request the real cache state is compared with the model state; a history is non-trivial when it contains "
                "at least one cache hit, one miss or one injected fault (counted per request: every request is one of the three); "
                "one probe per history is compared with a fresh process forked from a zygote that only imported mpmath; matrix "
                "functions (sqrtm, logm, powm, expm on matrices taking every branch of sqrtm) as a black box: history + probe in one "
                "fresh process against the probe alone in another, compared exactly (rounding level: 2^(8-p) relative)",
        "samples": [d["line"][:160] for d in H.dis[:2]] + ["memo: history of (prec, fault) pairs over 1-3 leaf constants, e.g. seed %d" % ctx.seed,
                    "lu: 'lu 53 D 1 0 P 200 D 1 0 R 1 D 1 0' = decomp, set precision, decomp (served stale), resize, decomp (served stale)",
                    "lu: 'lu 53 D 1 0 L 1 D 1 0' = decomp, slice assignment (new contents 1), decomp (must be computed from contents 1)"],
        "requests_compared_state_by_state": steps,
        "probes_compared_with_fresh_process": probes,
        "per_part": {k: v for k, v in sorted(H.count.items()) if not k.startswith("time_")},
        "time_per_part_s": {k[5:]: v for k, v in sorted(H.count.items()) if k.startswith("time_")},
        "input_distribution": {k: {str(a): b for a, b in v.items()} for k, v in H.g.hist.items()},
        "rounding_level_differences_accepted": json.loads(json.dumps(H.soft, default=str)),
        "stale_LU_served_in_random_histories": dict(H.lu_stale),
        "public_api_witnesses": wit,
        "failing_per_site": {},
        "undecided": 0,
    }
    cov["distinct_nontrivial"] = steps + ode_cov["distinct_nontrivial"]
    cov["evaluations"] += ode_cov["evaluations"]
    cov["odefun_segment_cache"] = ode_cov
    for f in fails:
        cov["failing_per_site"][f["site"]] = cov["failing_per_site"].get(f["site"], 0) + 1
    return {"coverage": cov, "failing_inputs": fails, "disagreements": dis}
