"""C16 — interval comparisons are sound three-valued predicates."""
from props import _civ
import cplx_iv_ops as CI

LEVEL = "proof"
LEAN_MODULES = ["Props.C16"]
ASSUMPTIONS = ["theorems are for intervals with finite endpoints; infinite endpoints and number operands are bit-exactly modelled and decided per case"]


def run(ctx):
    return _civ.run_civ(ctx, "C16", CI.CMP_OPS + ["malformed"], 40000, 1500000)
