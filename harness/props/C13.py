"""C13 — exact cases and special values of elementary functions are exact.

Decisions taken from the property text
 * exact points (exp(0)=1, log(1)=0, sin(0)=0, cos(0)=1, atan(0)=0, and the analogous zeros/ones of the other
   functions): the verified evaluator is asked for an enclosure; when it returns a POINT enclosure [v, v] the real value is
   exactly v (theorem C13_exact_of_point_enclosure) and the implementation must return exactly v in every rounding mode
   and at every precision.  A non-point enclosure is counted `undecided`.
 * sqrt / cbrt / root of perfect powers: for x = r^n * 2^(n j) with r of at most p bits the result must be exactly
   r * 2^j; decided in integers by the driver op `rootexact` (theorem C13_root_exact_sound).
 * sinpi / cospi at integers and half-integers of any size: the exact values 0, +-1 by k mod 4
   (theorem C13_sinpi_cospi_half_int); the implementation must return exactly these.
 * powm1(x, y) = 0 "exactly when x**y = 1": for real x > 0 this means (x = 1 or y = 0) -> exactly 0, and
   (x != 1 and y != 0) -> a non-zero result; x = -1 with an even integer y -> 0.
 * tan, cot, sec, csc are finite at every finite argument where the function is finite: a non-zero dyadic number is never
   a multiple of pi/2, and the evaluator certifies it per input (an enclosure is only returned when the denominator
   enclosure excludes 0, theorem C13_finite_value_enclosed); the implementation must then return a finite real number.
   Arguments: p-bit and double numbers nearest to k*pi/2 (continued fraction of the verified pi enclosure), +-1 ulp.
 * inf/nan arguments "follow the documented limits": the table LIMITS below (the three limits named by the text and the
   unambiguous real limits of the same functions); atan(+-inf) = +-pi/2 is decided with the verified pi enclosure at the
   C12 tolerance; nan arguments must give a result with a nan component.
"""
import json, time, random
from fractions import Fraction
import encl_check as EC
from encl_check import RNDS, mp, mk, tup, dy_of, guarded, is_finite_tuple, libelefun, libmpf
from encl_ops import ask, acc_decide, encl_frac

LEVEL = "translation_validation"
LEAN_MODULES = ["Props.C13", "Props.C13sqrt"]
ASSUMPTIONS = [
    "exactness is decided per sampled input (perfect powers, half-integers, special points; all rounding modes, precisions "
    "10..600); the Lean theorems make each decision rigorous, they are not a forall-statement about mpmath's code",
    "the table of inf/nan limits is the reading of 'documented limits' described in the module docstring",
]

# (function, argument, expected) ; expected: 'inf' '-inf' 'nan' 'zero' 'one' '-one' 'pi/2' '-pi/2'
LIMITS = [
    ("exp", "inf", "inf"), ("exp", "-inf", "zero"), ("ln", "inf", "inf"), ("ln", "zero", "-inf"),
    ("sqrt", "inf", "inf"), ("atan", "inf", "pi/2"), ("atan", "-inf", "-pi/2"),
    ("sin", "inf", "nan"), ("sin", "-inf", "nan"), ("cos", "inf", "nan"), ("cos", "-inf", "nan"), ("tan", "inf", "nan"),
    ("sinh", "inf", "inf"), ("sinh", "-inf", "-inf"), ("cosh", "inf", "inf"), ("cosh", "-inf", "inf"),
    ("tanh", "inf", "one"), ("tanh", "-inf", "-one"), ("asinh", "inf", "inf"), ("asinh", "-inf", "-inf"),
    ("acosh", "inf", "inf"), ("expm1", "inf", "inf"), ("expm1", "-inf", "-one"), ("log1p", "inf", "inf"),
]
NAN_FUNS = ["exp", "ln", "sqrt", "atan", "sin", "cos", "tan", "sinh", "cosh", "tanh", "asin", "acos", "asinh", "atanh",
            "expm1", "log1p", "sinpi", "cospi", "cbrt"]

# exact points: (function, (m, e)) -- the evaluator must certify the value with a point enclosure
EXACT_POINTS = [("exp", (0, 0)), ("ln", (1, 0)), ("sin", (0, 0)), ("cos", (0, 0)), ("atan", (0, 0)), ("tan", (0, 0)),
                ("sinh", (0, 0)), ("cosh", (0, 0)), ("tanh", (0, 0)), ("asin", (0, 0)), ("asinh", (0, 0)), ("atanh", (0, 0)),
                ("acosh", (1, 0)), ("acos", (1, 0)), ("expm1", (0, 0)), ("log1p", (0, 0)), ("sec", (0, 0)), ("sqrt", (0, 0)),
                ("sqrt", (1, 0)), ("sinpi", (0, 0)), ("cospi", (0, 0))]

SITE_ROOT = {"sqrt": "libmpf.mpf_sqrt", "cbrt": "libelefun.mpf_nthroot", "root": "libelefun.mpf_nthroot"}   # mpf_cbrt = mpf_nthroot(s, 3)


def _frac(t):
    m, e = dy_of(t)
    return Fraction(m) * Fraction(2) ** e


def _prec(r, quick):
    return r.choice([10, 11, 24, 53, 64, 113, 200, r.randint(10, 300), r.randint(10, 600 if quick else 3000)])


def run(ctx):
    t0 = time.time()
    r = random.Random(ctx.seed * 104729 + 13)
    fails, disagreements = [], []
    cov = {"evaluations": 0, "distinct_nontrivial": 0, "undecided": 0, "families": {}}
    samples = []

    def fam(name):
        return cov["families"].setdefault(name, {"cases": 0, "decided": 0, "undecided": 0, "failing": 0})

    def fail(family, site, what, inp):
        fam(family)["failing"] += 1
        fails.append({"site": site, "what": what, "input": inp})

    # ---------------------------------------------------------------- exact points
    takes = {n: EC.api_takes_rounding(n) for n in EC.FUN1}
    lines, meta = [], []
    for fun, (m, e) in EXACT_POINTS:
        lines.append("encl %s 80 %d %d" % (EC.FUN1[fun][0], m, e)); meta.append((fun, m, e))
    cert = {}
    for (fun, m, e), a in zip(meta, ask(lines)):
        E = encl_frac(a)
        cert[(fun, m, e)] = E[0] if (E is not None and E[0] == E[1]) else None
    nrep = 12 if ctx.quick else 200
    for fun, (m, e) in EXACT_POINTS:
        v = cert[(fun, m, e)]
        for _ in range(nrep):
            p = _prec(r, ctx.quick)
            drv, raw, site, dom = EC.FUN1[fun]
            via = "raw" if (raw and r.random() < 0.5) else "api"
            rnd = r.choice(RNDS) if (via == "raw" or takes[fun]) else "n"
            f = fam("exact_points"); f["cases"] += 1; cov["evaluations"] += 1
            if v is None:
                f["undecided"] += 1; cov["undecided"] += 1
                continue
            st, y = EC.call1(fun, m, e, p, rnd, via)
            f["decided"] += 1
            if st != "ok" or not is_finite_tuple(y) or _frac(y) != v:
                fail("exact_points", site, "%s(%d*2^%d) at prec %d rnd %s [%s] is not exactly %s: got %s" %
                     (fun, m, e, p, rnd, via, v, (st, y)), {"case": {"kind": "exact", "fun": fun, "x": [m, e], "prec": p, "rnd": rnd, "via": via}})
    cov["exact_points_certified_by_point_enclosure"] = sorted("%s(%s)" % (k[0], Fraction(k[1]) * Fraction(2) ** k[2]) for k, v in cert.items() if v is not None)
    cov["exact_points_not_certified"] = sorted("%s(%s)" % (k[0], Fraction(k[1]) * Fraction(2) ** k[2]) for k, v in cert.items() if v is None)

    # ---------------------------------------------------------------- perfect powers
    nroot = 5000 if ctx.quick else 60000
    lines, meta = [], []
    for i in range(nroot):
        p = _prec(r, ctx.quick)
        which = r.choice(["sqrt", "sqrt", "cbrt", "root", "root"])
        n = {"sqrt": 2, "cbrt": 3}.get(which) or r.choice([2, 3, 4, 5, 7, 10, 13, 32, 50])
        nb = r.choice([1, 2, 3, p // 2, p - 1, p, p, r.randint(1, p)])
        nb = max(1, min(nb, p, 8000 // n))          # keep r^n below ~8000 bits (decimal line protocol)
        if i % 80 == 79:
            # full-length bases at high precision: the Newton branch of mpf_nthroot takes many precision-doubling steps there,
            # and a deficit in its step schedule only shows after several of them (r^n up to ~30000 bits on the line)
            which = "root"
            n = r.choice([3, 5, 6, 7, 9, 10, 11, 17, 20])
            p = r.randint(600, min(2600, 30000 // n))
            nb = p - r.choice([0, 0, 1, 3])
        base = (1 << (nb - 1)) | r.getrandbits(nb - 1) if nb > 1 else 1
        if r.random() < 0.2:
            base = (1 << nb) - 1
        j = r.randint(-60, 60) if r.random() < 0.8 else r.randint(-3000, 3000)
        x = (base ** n, n * j)
        via = r.choice(["api", "raw"])
        rnd = r.choice(RNDS) if (via == "raw" or which == "sqrt") else "n"
        c = {"kind": "root", "fun": which, "n": n, "x": [x[0], x[1]], "prec": p, "rnd": rnd, "via": via}

        def thunk(c=c, x=x, p=p, rnd=rnd, which=which, n=n, via=via):
            if via == "raw":
                xt = tup(*x)
                if which == "sqrt":
                    return libmpf.mpf_sqrt(xt, p, rnd)
                if which == "cbrt":
                    return libelefun.mpf_cbrt(xt, p, rnd)
                return libelefun.mpf_nthroot(xt, n, p, rnd)
            old = mp.prec
            try:
                mp.prec = p
                xm = mk(*x)
                if which == "sqrt":
                    y = mp.sqrt(xm, prec=p, rounding=rnd)
                elif which == "cbrt":
                    y = mp.cbrt(xm)
                else:
                    y = mp.root(xm, n)
                return y._mpf_ if not isinstance(y, mp.mpc) else None
            finally:
                mp.prec = old
        st, y = guarded(thunk)
        f = fam("perfect_powers"); f["cases"] += 1; cov["evaluations"] += 1
        if st != "ok" or y is None or not is_finite_tuple(y):
            fail("perfect_powers", SITE_ROOT[which], "%s of the perfect power %d^%d*2^%d at prec %d [%s]: %s" % (which, base, n, n * j, p, via, (st, y)), {"case": c})
            continue
        my, ey = dy_of(y)
        lines.append("rootexact %d %d %d %d %d" % (n, x[0], x[1], my, ey)); meta.append((c, base, j, y))
    for (c, base, j, y), a in zip(meta, ask(lines)):
        f = fam("perfect_powers"); f["decided"] += 1
        py_exact = _frac(y) == Fraction(base) * Fraction(2) ** j
        if (a == "B:1") != py_exact:
            disagreements.append({"name": "rootexact-vs-python", "case": c, "driver": a})
        if a != "B:1":
            fail("perfect_powers", SITE_ROOT[c["fun"]], "%s(%d^%d * 2^%d) at prec %d rnd %s [%s] is not the exact root %d*2^%d: got %d*2^%d" %
                 (c["fun"], base, c["n"], c["n"] * j, c["prec"], c["rnd"], c["via"], base, j, dy_of(y)[0], dy_of(y)[1]), {"case": c, "returned": list(dy_of(y))})
        elif len(samples) < 3 and base > 7:
            samples.append({"family": "perfect_powers", "case": {k: (str(v)[:80]) for k, v in c.items()}, "verdict": "exact"})

    # ---------------------------------------------------------------- sinpi / cospi at half-integers
    nhalf = 5000 if ctx.quick else 60000
    lines, meta = [], []
    for i in range(nhalf):
        p = _prec(r, ctx.quick)
        nb = r.choice([1, 2, 3, 10, 53, p, 2 * p, 300])
        k = ((1 << (nb - 1)) | r.getrandbits(nb - 1)) if nb > 1 else r.randint(0, 1)
        k *= r.choice([1, -1])
        sh = r.choice([-1, -1, -1, 0, 0, 1, 5, 200])          # x = k * 2^sh : half-integers, integers, even integers
        fun = r.choice(["sinpi", "cospi"])
        via = r.choice(["api", "raw"])
        rnd = r.choice(RNDS)
        K = k if sh == -1 else k * 2 ** (sh + 1)               # x = K/2
        q = K % 4
        exp_sin = [0, 1, 0, -1][q]
        exp_cos = [1, 0, -1, 0][q]
        want = exp_sin if fun == "sinpi" else exp_cos
        st, y = EC.call1(fun, k, sh, p, rnd, via)
        f = fam("sinpi_cospi_half_integers"); f["cases"] += 1; f["decided"] += 1; cov["evaluations"] += 1
        c = {"kind": "halfint", "fun": fun, "x": [k, sh], "prec": p, "rnd": rnd, "via": via}
        if st != "ok" or not is_finite_tuple(y) or _frac(y) != want:
            fail("sinpi_cospi_half_integers", "libelefun.mpf_cos_sin", "%s(%d*2^%d) at prec %d rnd %s [%s] must be exactly %d: got %s" %
                 (fun, k, sh, p, rnd, via, want, (st, y)), {"case": c})
        if i < 300 and abs(k).bit_length() + max(0, sh) < 400:
            lines.append("encl %s 64 %d %d" % (fun, k, sh)); meta.append((c, want))
    for (c, want), a in zip(meta, ask(lines)):      # the evaluator agrees with the theorem's table
        E = encl_frac(a)
        if E is None or E[0] != E[1] or E[0] != want:
            disagreements.append({"name": "evaluator-vs-halfint-table", "case": c, "driver": a, "table": want})

    # ---------------------------------------------------------------- powm1
    npw = 3000 if ctx.quick else 30000
    for i in range(npw):
        p = _prec(r, ctx.quick)
        kind = r.choice(["x=1", "y=0", "x=-1,even", "nonzero_near_one", "nonzero_tiny_y", "nonzero"])
        nb = r.choice([1, 3, 53, p])
        m = ((1 << (nb - 1)) | r.getrandbits(nb - 1)) if nb > 1 else 1
        if kind == "x=1":
            x, y, zero = (1, 0), (m * r.choice([1, -1]), r.randint(-80, 30) - nb), True
        elif kind == "y=0":
            x, y, zero = (m, r.randint(-80, 80) - nb), (0, 0), True
        elif kind == "x=-1,even":
            x, y, zero = (-1, 0), (2 * m * r.choice([1, -1]), r.randint(0, 40)), True
        elif kind == "nonzero_near_one":
            k = max(1, r.choice([1, p // 2, p - 1, p, p + 1, 2 * p, 3 * p]))
            x, y, zero = ((1 << k) + r.choice([1, -1]), -k), (r.choice([1, -1, 2, 3, 5]), r.choice([0, -1, -2])), False
        elif kind == "nonzero_tiny_y":
            x, y, zero = (r.choice([2, 3, 10]), 0), (r.choice([1, -1, 3]), -r.choice([p, 2 * p, 3 * p, 1000])), False
        else:
            x, y, zero = (m | 2, -nb + r.randint(-3, 3)), (r.choice([1, -1, 3, 7]), r.randint(-6, 2)), False
            if Fraction(x[0]) * Fraction(2) ** x[1] == 1:
                x = (3, -1)
        c = {"kind": "powm1", "x": list(x), "y": list(y), "prec": p, "class": kind}

        def thunk(x=x, y=y, p=p):
            old = mp.prec
            try:
                mp.prec = p
                return mp.powm1(mk(*x), mk(*y))
            finally:
                mp.prec = old
        st, v = guarded(thunk)
        f = fam("powm1"); f["cases"] += 1; f["decided"] += 1; cov["evaluations"] += 1
        if st != "ok":
            fail("powm1", "functions.powm1", "powm1(%s) at prec %d: %s %s" % (c, p, st, v), {"case": c})
            continue
        iszero = (v == 0)
        if zero and not iszero:
            fail("powm1", "functions.powm1", "powm1(x,y) with x**y = 1 (%s) is not exactly 0: %s" % (kind, mp.nstr(v, 8)), {"case": c})
        if (not zero) and iszero:
            fail("powm1", "functions.powm1", "powm1(x,y) = 0 although x**y != 1 (%s): x=%d*2^%d y=%d*2^%d prec %d" % (kind, x[0], x[1], y[0], y[1], p), {"case": c})

    # ---------------------------------------------------------------- tan/cot/sec/csc finite near k*pi/2
    nfin = 2500 if ctx.quick else 30000
    lines, meta = [], []
    for i in range(nfin):
        p = r.choice([10, 24, 53, 53, 64, 113, r.randint(10, 300)])
        nb = r.choice([p, 53, 24])
        e = r.randint(-nb - 2, -nb + r.choice([3, 10, 40, 200, 1000]))
        t = EC.nearest_to_k_pi_2(nb, e)
        if t is None:
            continue
        m = t[0] + r.choice([0, 0, 1, -1])
        if m <= 0:
            m = t[0]
        m *= r.choice([1, -1])
        fun = r.choice(["tan", "cot", "sec", "csc"])
        via = "raw" if (fun == "tan" and r.random() < 0.5) else "api"
        rnd = r.choice(RNDS) if fun == "tan" else "n"
        st, y = EC.call1(fun, m, e, p, rnd, via)
        c = {"kind": "finite", "fun": fun, "x": [m, e], "prec": p, "rnd": rnd, "via": via, "k_bits": t[1].bit_length()}
        lines.append("encl %s %d %d %d" % (fun, p + 40, m, e)); meta.append((c, st, y))
    for (c, st, y), a in zip(meta, ask(lines)):
        f = fam("finite_near_poles"); f["cases"] += 1; cov["evaluations"] += 1
        if a == "N:":
            f["undecided"] += 1; cov["undecided"] += 1
            continue
        f["decided"] += 1
        if st != "ok" or not is_finite_tuple(y):
            fail("finite_near_poles", EC.FUN1[c["fun"]][2], "%s(%d*2^%d) at prec %d [%s] is finite (verified enclosure %s) but the result is %s" %
                 (c["fun"], c["x"][0], c["x"][1], c["prec"], c["via"], a[:80], (st, y)), {"case": c})
        elif len(samples) < 6:
            samples.append({"family": "finite_near_poles", "case": {k: str(v)[:60] for k, v in c.items()}, "enclosure": a[:70]})

    # ---------------------------------------------------------------- inf / nan
    special = {"inf": mp.inf, "-inf": -mp.inf, "zero": mp.mpf(0), "nan": mp.nan}
    reqs, meta = [], []
    for fun, arg, want in LIMITS:
        for p in ([15, 53, 200] if ctx.quick else [10, 15, 24, 53, 113, 200, 1000]):
            def thunk(fun=fun, arg=arg, p=p):
                old = mp.prec
                try:
                    mp.prec = p
                    return getattr(mp, fun)(special[arg])
                finally:
                    mp.prec = old
            st, v = guarded(thunk)
            f = fam("special_values"); f["cases"] += 1; cov["evaluations"] += 1
            c = {"kind": "special", "fun": fun, "arg": arg, "prec": p, "expected": want}
            site = EC.FUN1[fun][2]
            if st != "ok" or isinstance(v, mp.mpc):
                f["decided"] += 1
                fail("special_values", site, "%s(%s) at prec %d should be %s: got %s" % (fun, arg, p, want, (st, v)), {"case": c}); continue
            if want in ("pi/2", "-pi/2"):
                t = v._mpf_
                if not is_finite_tuple(t):
                    f["decided"] += 1
                    fail("special_values", site, "%s(%s) at prec %d should be %s: got %s" % (fun, arg, p, want, v), {"case": c}); continue
                my, ey = dy_of(t)
                sgn = -1 if want[0] == "-" else 1
                reqs.append(("acc pi 0 0 %d %d" % (sgn * my, ey + 1), p)); meta.append((c, site, f))
                continue
            f["decided"] += 1
            good = {"inf": v == mp.inf, "-inf": v == -mp.inf, "nan": mp.isnan(v), "zero": v == 0, "one": v == 1, "-one": v == -1}[want]
            if not good:
                fail("special_values", site, "%s(%s) at prec %d should be %s: got %s" % (fun, arg, p, want, v), {"case": c})
    for (c, site, f), v in zip(meta, acc_decide(reqs, 3, 4)):
        if v == "ok":
            f["decided"] += 1
        elif v == "violates":
            f["decided"] += 1
            fail("special_values", site, "%s(%s) at prec %d is not pi/2 within 2^(4-p)" % (c["fun"], c["arg"], c["prec"]), {"case": c})
        else:
            f["undecided"] += 1; cov["undecided"] += 1
    informational = {}
    for fun in NAN_FUNS:
        def thunk(fun=fun):
            old = mp.prec
            try:
                mp.prec = 53
                return getattr(mp, fun)(mp.nan)
            finally:
                mp.prec = old
        st, v = guarded(thunk)
        f = fam("special_values"); f["cases"] += 1; f["decided"] += 1; cov["evaluations"] += 1
        hasnan = st == "ok" and (mp.isnan(v) if not isinstance(v, mp.mpc) else (mp.isnan(v.real) or mp.isnan(v.imag)))
        if not hasnan:
            fail("special_values", EC.FUN1.get(fun, (0, 0, "functions." + fun))[2], "%s(nan) has no nan component: %s" % (fun, (st, v)),
                 {"case": {"kind": "special", "fun": fun, "arg": "nan"}})
        elif isinstance(v, mp.mpc):
            informational["%s(nan) is complex" % fun] = str(v)
    cov["informational"] = informational

    cov["distinct_nontrivial"] = sum(f["decided"] for f in cov["families"].values())
    cov["rule"] = ("seeded generator over five families: certified exact points x all rounding modes/precisions; perfect n-th powers "
                   "r^n*2^(nj) with r of up to p bits (n in 2..50, exponents up to 2^3000); integers and half-integers of any size "
                   "for sinpi/cospi; powm1 with x**y = 1 and with x**y != 1 (bases 1 +- 2^-k, tiny exponents); arguments nearest "
                   "to k*pi/2 (+-1 ulp) for tan/cot/sec/csc; the inf/nan table. Non-trivial = decided (not `undecided`)")
    cov["samples"] = samples
    cov["failing_per_site"] = {}
    for f in fails:
        cov["failing_per_site"][f["site"]] = cov["failing_per_site"].get(f["site"], 0) + 1
    cov["extra_rigorous_decisions"] = cov["distinct_nontrivial"]
    cov["wall_dynamic_s"] = round(time.time() - t0, 1)
    return {"coverage": cov, "failing_inputs": fails, "disagreements": disagreements}
