"""C19 — zeta-family accuracy (partial: closed-form sub-family).

Translation validation with a proved validator: the real functions are run through the public `mp` API on arguments of the
sub-family where Mathlib proves a closed form; the exact output is decided against the exact value by `mpdrv spec/specc`
(Mp.SpecRef.specCheck, sound by Props/C19.lean).  Arguments outside the sub-family are counted, not decided.
zeta(n)/altzeta(n) at integers n >= 2 proportional to the precision are decided against the direct-sum
enclosure `Mp.SpecRef.zetaEncl` by `mpdrv spec2/specc2` (sound by Props/C19b.lean)."""
import special_ops

LEVEL = "translation_validation"
LEAN_MODULES = ["Props.C19", "Props.C19b"]
ASSUMPTIONS = special_ops.ASSUMPTIONS["C19"]


def run(ctx):
    return special_ops.check("C19", ctx)
