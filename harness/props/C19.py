"""C19 — zeta-family accuracy (partial: closed-form sub-family).

Translation validation with a proved validator: the real functions are run through the public `mp` API on arguments of the
sub-family where Mathlib proves a closed form; the exact output is decided against the exact value by `mpdrv spec/specc`
(Mp.SpecRef.specCheck, sound by Props/C19.lean).  Arguments outside the sub-family are counted, not decided.
zeta(n)/altzeta(n) at integers n >= 2 proportional to the precision are decided against the direct-sum
enclosure `Mp.SpecRef.zetaEncl` by `mpdrv spec2/specc2` (sound by Props/C19b.lean).
polylog(s, z) at integers s >= 2 and dyadic 0 < |z| <= 13/16 (z down to far below 2^-(p+10): the result is ~z while the series
code stops on an absolute tolerance) is decided against z * (s+1)F(s)(1,..,1; 2,..,2; z), the series enclosed by
`Mp.SpecRef.hypEncl` (Props/C22b.lean): inside the driver on the exactly rescaled output when z = +-2^-k, otherwise by exact
rational arithmetic on the driver's enclosure (special_pyref.decide_scaled)."""
import special_ops

LEVEL = "translation_validation"
LEAN_MODULES = ["Props.C19", "Props.C19b"]
ASSUMPTIONS = special_ops.ASSUMPTIONS["C19"]


def run(ctx):
    return special_ops.check("C19", ctx)
