"""API-level part of the C01 / C02 / C05 / C06 / C10 checks (shared glue around harness/api_ops.py).

Each `add_*` takes the result dict of the raw-core part (`_core.run_core`) and MERGES the API-level evidence into it:
coverage counts are added, failing inputs and disagreements appended.  The API part ties the glue above the proved
core (operator dispatch, keyword parsing, convert(), wrappers) to the Lean model through the compiled driver."""
import json, time
import api_ops


def _replay_cases(ctx, kinds):
    """cases recorded in a replay file (failing_input.input.case, others[*].input.case) of the given kinds"""
    if not ctx.replay:
        return []
    try:
        rp = json.load(open(ctx.replay))
    except (OSError, ValueError):
        return []
    out = []
    for f in [rp.get("failing_input") or {}] + list(rp.get("others") or []) + list(rp.get("disagreements") or []):
        c = (f.get("input") or {}).get("case") or f.get("case")
        if isinstance(c, dict) and c.get("kind") in kinds:
            out.append(c)
    return out


def _replay_tasks(ctx):
    if not ctx.replay:
        return []
    try:
        rp = json.load(open(ctx.replay))
    except (OSError, ValueError):
        return []
    out = []
    for f in [rp.get("failing_input") or {}] + list(rp.get("others") or []):
        t = (f.get("input") or {}).get("task")
        if isinstance(t, dict) and "fn" in t:
            out.append(t)
    return out


def _merge_family(res, fr, label, rule):
    cov = res["coverage"]
    cov["evaluations"] = cov.get("evaluations", 0) + fr["cases"]
    cov["distinct_nontrivial"] = cov.get("distinct_nontrivial", 0) + len(fr["distinct"])
    cov["programs"] = cov.get("programs", 0) + len(fr["per_key"])
    cov["disagreements_checked"] = cov.get("disagreements_checked", 0) + len(fr["failing"]) + len(fr["disagreements"])
    cov["traces_validated_against_impl"] = cov.get("traces_validated_against_impl", 0) + fr["cases"]
    cov["api_%s_cases" % label] = fr["cases"]
    cov["api_%s_compared_with_model" % label] = fr["with_model"]
    cov["api_%s_decided_by_rational_oracle_only" % label] = fr["rational_oracle_only"]
    cov["api_%s_per_operation_type" % label] = {k: v[0] for k, v in sorted(fr["per_key"].items())}
    cov["api_%s_violations_per_operation_type" % label] = {k: v[1] for k, v in sorted(fr["per_key"].items()) if v[1]}
    cov["api_%s_decisions" % label] = fr["decided"]
    cov["api_%s_undecided" % label] = fr["decided"].get("nospec", 0)
    cov["api_%s_informational" % label] = {k: {"count": v[0], "example": v[1]} for k, v in fr["informational"].items()}
    cov["api_%s_input_distribution" % label] = {k: {str(a): b for a, b in v.items()} for k, v in fr["hist"].items()}
    cov["api_%s_rule" % label] = rule
    cov.setdefault("samples", [])
    cov["samples"] = list(cov["samples"]) + fr["samples"][:3]
    cov["api_%s_failing_per_site" % label] = _count_sites(fr["failing"])
    res["failing_inputs"].extend(_one_per_site(fr["failing"], keep=5, key=lambda f: (f["site"], f["input"]["case"].get("key"))))
    res["disagreements"].extend(fr["disagreements"][:50])
    return res


def _count_sites(fl):
    n = {}
    for f in fl:
        n[f["site"]] = n.get(f["site"], 0) + 1
    return n


def _run_chunked(fam, n, seed, first_cases, chunk=40000):
    """run a family in chunks (bounded memory) and add the records up"""
    import hashlib
    total = None
    done = 0
    cases0 = list(first_cases)
    while done < n or total is None:
        c = min(chunk, n - done)
        cases = cases0 + [fam.gen() for _ in range(c)]
        cases0 = []
        fr = api_ops.run_family(fam, 0, seed, cases=cases)
        fr["distinct"] = {hashlib.md5(x.encode()).digest()[:8] for x in fr["distinct"]}
        if total is None:
            total = fr
        else:
            total["cases"] += fr["cases"]; total["with_model"] += fr["with_model"]
            total["rational_oracle_only"] += fr["rational_oracle_only"]
            total["distinct"] |= fr["distinct"]
            for k, v in fr["per_key"].items():
                d = total["per_key"].setdefault(k, [0, 0]); d[0] += v[0]; d[1] += v[1]
            for k, v in fr["decided"].items():
                total["decided"][k] = total["decided"].get(k, 0) + v
            for k, v in fr["informational"].items():
                e = total["informational"].setdefault(k, [0, v[1]]); e[0] += v[0]
            total["failing"].extend(fr["failing"]); total["disagreements"].extend(fr["disagreements"])
            total["failing"] = total["failing"][:20000]; total["disagreements"] = total["disagreements"][:2000]
        done += c
        if c <= 0:
            break
    total["hist"] = fam.og.g.hist
    return total


RULE_ARITH = ("public calls on fresh mp.clone() contexts (precision and rounding set per case): operators + - * / and reflected forms "
              "between mpf and int/float/mpf/Fraction/mpq, fadd/fsub/fmul/fdiv/fneg/fabs with prec=/dps=/rounding=/exact=/prec=inf, "
              "mpf(x) from int/float/Fraction/mpf/mpq/(man,exp)/(sign,man,exp,bc)/str, sqrt, unary + - abs, fsum/fdot under the "
              "property's hypothesis; the driver request expresses the SAME exact operation on exact encodings of the operands "
              "(one rounding of the exact result); result._mpf_ is compared bit for bit with the model and decided by the exact "
              "rational oracle; non-dyadic rational operands are decided by the rational oracle alone; a case is non-trivial when "
              "an operand is not zero/special, distinct by its full description")
RULE_CMP = ("== != < <= > >= (both operand orders) between mpf and int/float/mpf/mpc/complex and mpc == with complex/int/float/mpf/mpc at "
            "context precisions 1..100 with operands that are equal, differ one unit 1..3000 bits below the last bit, near, special "
            "or independent; expected answer from exact comparison of the values (nan unordered) and from the model's eq/lt/le/gt/ge")
RULE_INTPART = ("mp.floor/ceil/nint/frac (with prec=/rounding= keywords, int/float/mpf/mpc arguments), int(x), math.floor/ceil (recorded "
                "only: they go through float()), x % y and mp.fmod between mpf/int/float; every result decided with Fractions against "
                "the mathematical definition (nint ties to even, frac = x - floor x, remainder with the sign of y) and correct "
                "rounding, and compared bit for bit with the model's floor/ceil/nint/frac/mod/to_int")


def add_arith(ctx, res):
    fam = api_ops.ApiArith(ctx.seed)
    rc = _replay_cases(ctx, ("binop", "fop", "ctor", "sqrt", "unary", "fsum", "fdot"))
    n = 30000 if ctx.quick else 800000
    fr = _run_chunked(fam, n, ctx.seed, rc)
    # constructor from mpq: not in the property's list (int, float, Fraction, mpf) -> recorded, not a failing input
    keep = []
    out_scope = 0
    for f in fr["failing"]:
        case = f["input"].get("case") or {}
        ops = [case.get("a"), case.get("b")] + list(case.get("args") or [])
        has_rat = any(isinstance(o, (list, tuple)) and o and o[0] in ("frac", "mpq") for o in ops)
        if f["site"] == "ctx_mp_python.mpf.__new__[mpq]":
            out_scope += 1
            fr["informational"].setdefault("mpf(mpq) raises TypeError (type not named by the property)", [0, {"case": f["input"]["case"]}])[0] += 1
        elif case.get("kind") in ("binop", "fop") and has_rat:
            # the property lists "mixed int/float operands"; Fraction/mpq are named only for mpf() construction
            out_scope += 1
            fr["informational"].setdefault("operator / f* call with a Fraction or mpq operand is rounded twice (operand type not named "
                                           "by the property; recorded only)", [0, {"case": f["input"]["case"]}])[0] += 1
        else:
            keep.append(f)
    fr["failing"] = keep
    return _merge_family(res, fr, "arith", RULE_ARITH)


def add_cmp(ctx, res):
    fam = api_ops.ApiCmp(ctx.seed)
    rc = _replay_cases(ctx, ("cmp",))
    n = 30000 if ctx.quick else 800000
    fr = _run_chunked(fam, n, ctx.seed, rc)
    return _merge_family(res, fr, "cmp", RULE_CMP)


def add_intpart(ctx, res):
    fam = api_ops.ApiIntPart(ctx.seed)
    rc = _replay_cases(ctx, ("ip", "toint", "mod"))
    n = 30000 if ctx.quick else 800000
    fr = _run_chunked(fam, n, ctx.seed, rc)
    return _merge_family(res, fr, "intpart", RULE_INTPART)


RULE_SWEEP = ("every public callable of mp and iv found by introspection (docstring, libmp wrapper or constant), plus operators/"
              "constructors/unary/component access on mpf, mpc, ivmpf, called in worker subprocesses (hard per-call timeout; a timeout "
              "or exception is 'no result') on fresh contexts at precisions 10, 53, 100 with arguments whose mantissas carry 7..64 bits "
              "MORE than the precision (argument recipes by parameter name / explicit table; moods positive, real, complex, unit, mixed); "
              "every real in every result (_mpf_, both _mpc_ parts, both _mpi_ endpoints, matrix entries, containers) is collected; "
              "stateful probes (first-call caches, normalize_output decorators) run in workers of their own")


def add_sweep(ctx, res, prop):
    """prop 'C01': canonicity of every returned real + MPMATH_STRICT=Y in the workers;  prop 'C10': bit-length bound"""
    strict = prop == "C01"
    t0 = time.time()
    rec = api_ops.run_sweep(ctx.seed, quick=ctx.quick, strict=strict, nworkers=6 if ctx.quick else 10,
                            sample=10 ** 6, budget=100 if ctx.quick else None, extra_tasks=_replay_tasks(ctx))
    cov = res["coverage"]
    nres = rec["status_counts"].get("ok", 0)
    cov["evaluations"] = cov.get("evaluations", 0) + rec["tasks"]
    cov["distinct_nontrivial"] = cov.get("distinct_nontrivial", 0) + nres
    cov["programs"] = cov.get("programs", 0) + len([k for k, v in rec["per_function"].items() if v["ok"]])
    cov["sweep_rule"] = RULE_SWEEP
    cov["sweep_is_sampling"] = True
    cov["sweep_tasks"] = rec["tasks"]
    cov["sweep_status"] = rec["status_counts"]
    cov["sweep_undecided"] = rec["tasks"] - nres
    cov["sweep_reals_checked"] = rec["reals"]
    cov["sweep_strict_env"] = strict
    cov["sweep_targets_total"] = rec["targets_total"]
    cov["sweep_functions_covered"] = rec["targets_covered"]
    cov["sweep_functions_with_result"] = sorted(k for k, v in rec["per_function"].items() if v["ok"])
    cov["sweep_functions_without_result"] = sorted(k for k, v in rec["per_function"].items() if not v["ok"])
    cov["sweep_per_function"] = rec["per_function"]
    cov["sweep_documented_exact_long_results"] = rec["documented_exact_long"]
    cov["sweep_wall_s"] = round(rec["wall"], 1)
    cov.setdefault("samples", [])
    cov["samples"] = list(cov["samples"]) + rec["samples"][:3]
    print("sweep[%s]: %d calls, %d with a result, %d reals checked, %d/%d functions returned a result, %.0fs; functions covered: %s" %
          (prop, rec["tasks"], nres, rec["reals"], len(cov["sweep_functions_with_result"]), len(rec["per_function"]), rec["wall"],
           " ".join(rec["targets_covered"])))
    if prop == "C01":
        res["failing_inputs"].extend(_one_per_site(rec["c01"]))
        res["failing_inputs"].extend(_one_per_site(rec["strict"]))
        cov["sweep_bitlength_excess_seen (reported by C10)"] = len(rec["c10"])
    else:
        # the C10 statement names arithmetic operators, construction, unary ops, elementary and special functions;
        # calculus / linear-algebra / utility entry points ("entry-point" scope) are recorded, not reported
        # ... and it is about the mp context's working precision (anchors: libmpf, libmpc, ctx_mp*, functions): iv results
        # are recorded, not reported
        def _in(f):
            return f["input"].get("scope", "statement") == "statement" and f["input"]["task"].get("ctx") == "mp"
        in_scope = [f for f in rec["c10"] if _in(f)]
        out_scope = [f for f in rec["c10"] if not _in(f)]
        res["failing_inputs"].extend(_one_per_site(in_scope))
        cov["sweep_bitlength_excess_outside_statement_scope"] = _count_sites(out_scope)
        cov["sweep_noncanonical_seen (reported by C01)"] = len(rec["c01"])
    return res


def _one_per_site(fl, keep=3, key=None):
    """at most `keep` failing inputs per site (the evidence keeps the count)"""
    key = key or (lambda f: f["site"])
    n = {}
    out = []
    for f in fl:
        kk = key(f)
        k = n.get(kk, 0)
        n[kk] = k + 1
        if k < keep:
            out.append(f)
    for f in out:
        f["input"]["count_at_site"] = n[key(f)]
    return out
