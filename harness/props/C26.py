"""C26 — numerical integration is accurate for well-behaved integrands (proved closed-form references).

The real quad / quadts / quadgl (tanh-sinh and Gauss-Legendre) run in worker subprocesses (hard timeout) on integrands
built from the family descriptions of lean/MpModel/CalcRef.lean (`Fam`, `FamInf`); the result is read exactly as a dyadic
and the compiled Lean checker decides  |y - I| < 2^(10-p) * max(|I|, 1)  against the closed form I, which Props/C26.lean
proves equal to the integral (FTC with the antiderivative differentiated in Lean; Gamma(n+1) = n!; Gaussian integral).
Variants per integrand: forward, reversed limits, interior split points, reversed split; 1-3 dimensions (separable
integrands), infinite ranges, precisions 30..500.  Nothing outside the families is run.
"""
import json, random
from fractions import Fraction
import calc_ops as CO
from calc_ops import rtok, fam_tokens, faminf_tokens, dy_tokens, neg_dy, is_dy

LEVEL = "translation_validation"
LEAN_MODULES = ["MpProofs.CalcRef", "MpProofs.CalcFam", "MpProofs.CalcLogicB", "Props.C26"]
ASSUMPTIONS = [
    "'relative or absolute error below 2^(10-p)' is instantiated as |y - I| < 2^(10-p) * max(|I|, 1), p = mp.prec at the call",
    "in-domain integrands: members of Fam/FamInf with rational parameters; |exponent arguments| <= 12 on the interval, "
    "oscillation (frequency * interval length) <= 16, poles of 1/(1+x^2) and 1/(x+c) at distance >= the interval length "
    "('without nearby poles'); interval end points and split points are dyadic rationals (exactly representable), so the "
    "integral of the property is over exactly the interval passed to quad",
    "the integrand is evaluated by mpmath itself at the precision quad sets (its rounding errors are part of the routine under test); "
    "parameters such as 1/3 are re-rounded at that precision",
    "multi-dimensional integrands are separable products c*f(x)*g(y)*h(z) (the iterated integral is proved equal to the product of the 1-D closed forms)",
    "the quantifier over integrands/intervals/precisions is sampled; the oracle (closed form + enclosure + comparison) is proved",
]

PRECS_Q = [30, 30, 53, 53, 64, 100, 113, 150, 200, 300, 500]
SMALL = [Fraction(n, d) for d in (1, 2, 4) for n in range(-12, 13) if n != 0]


def _coef(r):
    k = r.random()
    if k < 0.6:
        return Fraction(r.choice([-1, 1]) * r.randint(1, 9))
    if k < 0.85:
        return Fraction(r.choice([-1, 1]) * r.randint(1, 15), r.choice([2, 4, 8]))
    return Fraction(r.choice([-1, 1]) * r.randint(1, 9), r.choice([3, 5, 7]))


def _dyadic(r, lo, hi, den=8):
    return Fraction(r.randint(int(lo * den), int(hi * den)), den)


def gen_interval(r, maxlen=6, span=4):
    while True:
        a = _dyadic(r, -span, span)
        L = Fraction(r.randint(1, maxlen * 8), 8)
        b = a + L
        if abs(b) <= span + maxlen:
            return a, b


def gen_factor(r, kinds=None, light=False):
    """(family description, a, b) with a < b inside the property's domain"""
    kinds = kinds or ["poly", "poly", "expL", "sinL", "cosL", "xexp", "expcos", "expsin", "lorentz", "recip"]
    k = r.choice(kinds)
    if k == "poly":
        nt = r.randint(1, 3 if light else 5)
        degs = r.sample(range(0, 7 if light else 13), nt)
        d = {"fam": "poly", "ts": [[rtok(_coef(r)), n] for n in sorted(degs)]}
        a, b = gen_interval(r, maxlen=4, span=3)
        return d, a, b
    if k in ("expL", "xexp"):
        c = r.choice([Fraction(n, d) for d in (1, 2, 3, 4) for n in (-3, -2, -1, 1, 2, 3)])
        a, b = gen_interval(r, maxlen=4, span=3)
        return {"fam": k, "c": rtok(c)}, a, b
    if k in ("sinL", "cosL"):
        a, b = gen_interval(r, maxlen=4, span=4)
        L = b - a
        c = r.choice([x for x in [Fraction(n, d) for d in (1, 2, 3) for n in range(1, 17)] if x * L <= 16])
        if r.random() < 0.3:
            c = -c
        return {"fam": k, "c": rtok(c)}, a, b
    if k in ("expcos", "expsin"):
        a, b = gen_interval(r, maxlen=3, span=3)
        L = b - a
        aa = r.choice([Fraction(n, d) for d in (1, 2) for n in (-2, -1, 0, 1, 2)])
        bb = r.choice([x for x in [Fraction(n, d) for d in (1, 2, 3) for n in range(1, 13)] if x * L <= 16])
        return {"fam": k, "a": rtok(aa), "b": rtok(bb)}, a, b
    if k == "lorentz":
        L = Fraction(r.randint(1, 8), 8)            # pole distance >= 1 >= length
        a = _dyadic(r, -3, 3)
        return {"fam": "lorentz"}, a, a + L
    if k == "recip":
        a, b = gen_interval(r, maxlen=2, span=3)
        L = b - a
        c = -a + L + Fraction(r.randint(0, 16), 8)   # distance of the pole -c from [a,b] is >= L
        return {"fam": "recip", "c": rtok(c)}, a, b
    raise ValueError(k)


def split_points(r, a, b):
    n = r.randint(1, 3)
    den = 64
    lo, hi = int(a * den), int(b * den)
    if hi - lo < 2:
        return [a, b]
    ms = sorted(set(Fraction(r.randint(lo + 1, hi - 1), den) for _ in range(n)))
    pts = [a] + ms + [b]
    if r.random() < 0.15:
        i = r.randrange(len(pts))
        pts.insert(i, pts[i])                       # repeated point: a == b sub-interval is skipped by the driver
    return pts


def case_finite(r, st, quick):
    dim = r.choices([1, 2, 3], weights=[70, 22, 8])[0]
    method, rule = r.choice([("quad", None), ("quad", "gauss-legendre"), ("quadts", None), ("quadgl", None),
                             ("quad", "tanh-sinh")])
    is_gl = (rule == "gauss-legendre") or method == "quadgl"
    if dim == 1:
        prec = r.choice(PRECS_Q) if r.random() < 0.8 else r.randint(30, 500)
        if quick and is_gl and prec > 200:
            prec = r.choice([113, 150, 200])     # Gauss-Legendre node generation above 200 bits takes > 10 s (thorough tier only)
        facs = [gen_factor(r)]
    elif dim == 2:
        prec = r.choice([30, 40, 53, 64, 80] if not is_gl else [30, 53, 64, 100, 150])
        facs = [gen_factor(r, ["poly", "expL", "cosL", "sinL", "xexp"], light=True) for _ in range(2)]
    else:
        prec = r.choice([30, 35, 40] if not is_gl else [30, 53, 64])
        facs = [gen_factor(r, ["poly", "poly", "expL"], light=True) for _ in range(3)]
    c = Fraction(1) if r.random() < 0.6 else _coef(r)
    # variants
    variants, tags = [], []
    fwd = [[rtok(a), rtok(b)] for (_, a, b) in facs]
    variants.append(fwd); tags.append("forward")
    j = r.randrange(dim)
    rev = [list(p) for p in fwd]; rev[j] = rev[j][::-1]
    variants.append(rev); tags.append("reversed")
    if dim <= 2:
        sp = [list(p) for p in fwd]
        sp[j] = [rtok(x) for x in split_points(r, facs[j][1], facs[j][2])]
        variants.append(sp); tags.append("split")
        if dim == 1:
            variants.append([sp[0][::-1]]); tags.append("split-reversed")
    task = {"kind": "quad", "method": method, "rule": rule, "prec": prec, "c": rtok(c),
            "factors": [f for (f, _, _) in facs], "variants": variants,
            "timeout": {1: 15, 2: 25, 3: 40}[dim] if quick else {1: 60, 2: 120, 3: 240}[dim]}
    st.note("dim", dim); st.note("method", method + ("/" + rule if rule else "")); st.note("prec", prec if prec in PRECS_Q else "other")
    for f, _, _ in facs:
        st.note("family", f["fam"])
    fam_toks = [fam_tokens(f) for (f, _, _) in facs]

    def lines(res):
        out = {}
        for tag, var, v in zip(tags, variants, res["vs"]):
            y = v.get("re")
            if "im" in v or not is_dy(y):
                out[tag] = None
                continue
            parts = " ".join("%s %s %s" % (ft, var[i][0], var[i][-1]) for i, ft in enumerate(fam_toks))
            out[tag] = "quadfin %d %s %s %s %d 10" % (dim, rtok(c), parts, dy_tokens(y), prec)
        return {k: v for k, v in out.items() if v}

    def judge(res, ans):
        bad, und = [], []
        for tag, v in zip(tags, res["vs"]):
            a = ans.get(tag)
            if a is None:
                bad.append("%s: non-real or non-finite result %s" % (tag, json.dumps(v)))
            elif a == "violates":
                bad.append("%s: error not below 2^(10-p)*max(|I|,1)" % tag)
            elif a != "ok":
                und.append(tag)
        if res.get("prec_after") != prec:
            bad.append("working precision not restored (%s)" % res.get("prec_after"))
        # statistic: exact negation under reversal
        y0, y1 = res["vs"][0].get("re"), res["vs"][1].get("re")
        if is_dy(y0) and is_dy(y1):
            st.note("reversal_exactly_negates", CO.dy_fraction(y0) == -CO.dy_fraction(y1))
        if bad:
            return "violates", "; ".join(bad)
        return ("undecided", None) if und else ("ok", None)

    site = "calculus.quadrature.%s[%s,dim=%d]" % ("gauss_legendre" if is_gl else "tanh_sinh", "finite", dim)
    return {"task": task, "site": site, "lines": lines, "judge": judge, "nontrivial": True, "report_timeout": False}


def case_infinite(r, st, quick):
    method, rule = r.choice([("quad", None), ("quadts", None), ("quad", "tanh-sinh"), ("quadgl", None), ("quad", "gauss-legendre")])
    is_gl = (rule == "gauss-legendre") or method == "quadgl"
    prec = r.choice([30, 53, 64, 100, 150, 200, 300] if not is_gl else [30, 53, 64, 100])
    k = r.choice(["gammaN", "expDecay", "gaussFull", "gaussHalf"])
    if k == "gammaN":
        d = {"fam": "gammaN", "n": r.randint(0, 12)}
        base = ["0", "inf"]; splits = ["0", rtok(Fraction(r.randint(1, 80), 8)), "inf"]
    elif k == "expDecay":
        cc = r.choice([Fraction(n, dd) for dd in (1, 2, 3, 4) for n in (1, 2, 3, 5)])
        a = _dyadic(r, -3, 3)
        d = {"fam": "expDecay", "c": rtok(cc), "a": rtok(a)}
        base = [rtok(a), "inf"]; splits = [rtok(a), rtok(a + Fraction(r.randint(1, 40), 8)), "inf"]
    elif k == "gaussFull":
        d = {"fam": "gaussFull", "b": rtok(r.choice([Fraction(n, dd) for dd in (1, 2, 3, 4) for n in (1, 2, 3, 5)]))}
        base = ["-inf", "inf"]; splits = ["-inf", rtok(_dyadic(r, -2, 2)), "inf"]
    else:
        d = {"fam": "gaussHalf", "b": rtok(r.choice([Fraction(n, dd) for dd in (1, 2, 3, 4) for n in (1, 2, 3, 5)]))}
        base = ["0", "inf"]; splits = ["0", rtok(Fraction(r.randint(1, 24), 8)), "inf"]
    variants = [[base], [base[::-1]], [splits]]
    tags = ["forward", "reversed", "split"]
    task = {"kind": "quad", "method": method, "rule": rule, "prec": prec, "c": "1", "factors": [d], "variants": variants,
            "timeout": 20 if quick else 120}
    st.note("dim", "1-inf"); st.note("method", method + ("/" + rule if rule else "")); st.note("prec", prec)
    st.note("family", k)
    ft = faminf_tokens(d)

    def lines(res):
        out = {}
        for tag, v in zip(tags, res["vs"]):
            y = v.get("re")
            if "im" in v or not is_dy(y):
                continue
            if tag == "reversed":
                y = neg_dy(y)
            out[tag] = "quadinf %s %s %d 10" % (ft, dy_tokens(y), prec)
        return out

    def judge(res, ans):
        bad, und = [], []
        for tag, v in zip(tags, res["vs"]):
            a = ans.get(tag)
            if a is None:
                bad.append("%s: non-real or non-finite result %s" % (tag, json.dumps(v)))
            elif a == "violates":
                bad.append("%s: error not below 2^(10-p)*max(|I|,1)" % tag)
            elif a != "ok":
                und.append(tag)
        if res.get("prec_after") != prec:
            bad.append("working precision not restored (%s)" % res.get("prec_after"))
        if bad:
            return "violates", "; ".join(bad)
        return ("undecided", None) if und else ("ok", None)

    site = "calculus.quadrature.%s[%s]" % ("gauss_legendre" if is_gl else "tanh_sinh", "infinite")
    return {"task": task, "site": site, "lines": lines, "judge": judge, "nontrivial": True, "report_timeout": False}


def run(ctx):
    r = random.Random(ctx.seed)
    st = CO.Stats()
    quick = ctx.quick
    n_fin, n_inf = (170, 50) if quick else (1500, 300)
    cases = [case_finite(r, st, quick) for _ in range(n_fin)] + [case_infinite(r, st, quick) for _ in range(n_inf)]
    info, fails = CO.run_cases(cases, ctx, nworkers=6, default_timeout=15.0, budget_s=60 if quick else 1200)
    s = info["summary"]
    evaluations = sum(len(c["task"]["variants"]) for c in cases if c.get("verdict") in ("ok", "violates", "undecided"))
    cov = {
        "evaluations": evaluations,
        "distinct_nontrivial": info["distinct_nontrivial"],
        "programs": 4,     # quad(tanh-sinh), quad(gauss-legendre), quadts, quadgl
        "disagreements_checked": evaluations,
        "rule": "integrand drawn from the proved families (Fam/FamInf) with rational parameters, dyadic end points; each case runs "
                "forward/reversed/split variants; a case is non-trivial when the real routine returned a finite real value that the Lean "
                "checker decided (ok or violates) against the proved closed form",
        "cases": s, "undecided": s.get("undecided", 0),
        "input_distribution": st.as_dict(),
        "samples": info["samples"][:4],
    }
    return {"coverage": cov, "failing_inputs": fails, "disagreements": []}
