"""shared runner for the complex / interval properties C04, C14, C15, C16 (harness/cplx_iv_ops.py)"""
import hashlib
from common import *  # noqa
import cplx_iv_ops as CI
from props import _t1


def run_civ(ctx, pid, ops, n_quick, n_thorough, extra_props=()):
    n = n_quick if ctx.quick else n_thorough
    failing, dis = [], []
    per_op, decided, hist = {}, {}, {}
    distinct = set()
    samples = []
    done, k, evaluations = 0, 0, 0
    corpus = []
    if ctx.replay:
        try:
            rp = json.load(open(ctx.replay))
            for f in [rp.get("failing_input") or {}] + list(rp.get("others") or []) + list(rp.get("disagreements") or []):
                l = (f.get("input") or {}).get("line") or f.get("line")
                if l:
                    corpus.append(l)
        except (OSError, ValueError):
            pass
    for l in corpus:
        out, raw = CI.call_line(l)
        for v in CI.decide(l, out, raw) or []:
            if v[0] == pid or v[0] in extra_props:
                failing.append(_fi(v, l, out))
        m = Driver().ask([l])[0]
        if m != out:
            dis.append({"name": "T1:" + l.split()[0], "op": l.split()[0], "line": l, "impl": out, "model": m})
    while done < n:
        c = min(40000, n - done)
        st, d0, viol, g = CI.run_t1(ops, c, ctx.seed * 7919 + k)
        for d in d0:
            dis.append({"name": "T1:" + d["op"], "op": d["op"], "line": d["line"][:600], "impl": d["impl"], "model": d["model"]})
        for v in viol:
            if v["property"] == pid or v["property"] in extra_props:
                failing.append(_fi((v["property"], v["class"], v["detail"]), v["line"], v["impl"]))
        for o, v in st["per_op"].items():
            e = per_op.setdefault(o, [0, 0]); e[0] += v[0]; e[1] += v[1]
        for o, v in st["decided"].items():
            e = decided.setdefault(o, [0, 0]); e[0] += v[0]; e[1] += v[1]
        for line, out in zip(st["lines"], st["impl"]):
            h = hashlib.md5(line.encode()).digest()[:8]
            if not out.startswith("?"):
                distinct.add(h)
        for i in range(17, len(st["lines"]), 9973):
            if len(samples) < 6:
                samples.append({"request": st["lines"][i][:300], "impl": st["impl"][i][:200]})
        for kk, v in g.hist.items():
            hh = hist.setdefault(kk, {})
            for a, b in v.items():
                hh[str(a)] = hh.get(str(a), 0) + b
        evaluations += c
        done += c
        k += 1
    if not samples:
        samples = [{"request": "-"}]
    cov = {
        "evaluations": evaluations + len(corpus), "distinct_nontrivial": len(distinct),
        "rule": "request lines from structured generators (components with cancelling products, pure real/imaginary operands, all sign "
                "configurations of intervals incl. zero-touching/straddling/infinite endpoints, endpoints longer than the precision, "
                "denominators containing or touching zero, powers n in {0,1,2,3,-1,-2,large}); the real libmpc/libmpi/ctx_iv function and "
                "the Lean model are run on each line and diffed bit for bit; the property is decided on the implementation output in exact "
                "rational arithmetic (sample points of the input intervals: endpoints, midpoint, zero, random dyadics); distinct = distinct request lines",
        "samples": samples, "programs": len(per_op), "disagreements_checked": len(dis) + len(failing),
        "traces_validated_against_impl": evaluations, "per_op_cases": {o: v[0] for o, v in per_op.items()},
        "property_decisions_per_op": {o: {"decided": v[0], "violations": v[1]} for o, v in decided.items()},
        "input_distribution": hist,
    }
    # at most 3 failing inputs per site in the report
    seen, out = {}, []
    for f in failing:
        c = seen.get(f["site"], 0)
        seen[f["site"]] = c + 1
        if c < 3:
            out.append(f)
    cov["failing_per_site"] = seen
    return {"coverage": cov, "failing_inputs": out, "disagreements": dis}


def _fi(v, line, out):
    op = line.split(None, 1)[0]
    mod = "libmpc" if op.startswith("mpc") else ("ctx_iv" if op.startswith(("iv_", "ivmpc", "ivmpf")) else "libmpi")
    return {"site": "%s.%s:%s" % (mod, op, v[1]), "what": "%s: %s" % (v[1], str(v[2])[:300]), "input": {"line": line[:2000], "impl": out[:600], "class": v[1]}}
