"""C18 — gamma-family accuracy (partial: closed-form sub-family).

Translation validation with a proved validator: the real functions are run through the public `mp` API on arguments of the
sub-family where Mathlib proves a closed form; the exact output is decided against the exact value by `mpdrv spec/specc`
(Mp.SpecRef.specCheck, sound by Props/C18.lean).  Arguments outside the sub-family are counted, not decided."""
import special_ops

LEVEL = "translation_validation"
LEAN_MODULES = ["Props.C18"]
ASSUMPTIONS = special_ops.ASSUMPTIONS["C18"]


def run(ctx):
    return special_ops.check("C18", ctx)
