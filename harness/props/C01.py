"""C01 — every real value has one canonical representation (core closure + result monitor)."""
from props import _core
import core_ops

LEVEL = "proof"
LEAN_MODULES = ["Props.C01"]
ASSUMPTIONS = ["theorems cover the modelled libmpf core; results of the rest of the public API are monitored, not proved"]


def run(ctx):
    return _core.run_core(ctx, core_ops.ALL_CORE_OPS, 120000, 3000000, monitors=("canonical",))
