"""C01 — every real value has one canonical representation (core closure + result monitor + API sweep)."""
from props import _core, _api
import core_ops

LEVEL = "proof"
LEAN_MODULES = ["Props.C01", "Props.C01more"]
ASSUMPTIONS = ["theorems cover the modelled libmpf core; results of the rest of the public API are monitored by a sampling sweep "
               "(every public callable of mp and iv, MPMATH_STRICT=Y in the workers), not proved"]


def run(ctx):
    res = _core.run_core(ctx, core_ops.ALL_CORE_OPS, 120000, 3000000, monitors=("canonical",))
    return _api.add_sweep(ctx, res, "C01")
