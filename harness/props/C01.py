"""C01 — every real value has one canonical representation (core closure + result monitor + API sweep)."""
from props import _core, _api, _civ
import core_ops
import cplx_iv_ops as CI

LEVEL = "proof"
LEAN_MODULES = ["Props.C01", "Props.C01more"]
ASSUMPTIONS = ["theorems cover the modelled libmpf core; the raw tuples returned by the libmpc / libmpi operations (complex components, interval endpoints, specials) are monitored on the bit-exact correspondence stream; results of the rest of the public API are monitored by a sampling sweep "
               "(every public callable of mp and iv, MPMATH_STRICT=Y in the workers), not proved"]


def run(ctx):
    res = _core.run_core(ctx, core_ops.ALL_CORE_OPS, 120000, 3000000, monitors=("canonical",))
    # the libmpc / libmpi layer: components of complex results and interval endpoints (special values included)
    civ = _civ.run_civ(ctx, "C01", CI.COMPLEX_OPS + CI.INTERVAL_OPS, 16000, 400000)
    res["failing_inputs"] += civ["failing_inputs"]
    res["disagreements"] += civ["disagreements"]
    res["coverage"]["complex_and_interval_layer"] = {k: civ["coverage"][k] for k in ("evaluations", "distinct_nontrivial") if k in civ["coverage"]}
    res["coverage"]["evaluations"] = res["coverage"].get("evaluations", 0) + civ["coverage"].get("evaluations", 0)
    _state_roundtrips(res)
    return _api.add_sweep(ctx, res, "C01")


def _state_roundtrips(res):
    """the statement's last clause: pickling / copying never produces a second encoding of a value — the raw tuples of values
    restored through __setstate__ / __reduce__ (pickle protocols 0..5, copy, deepcopy, inside matrices and complex numbers),
    special values and zero included, must be the canonical encodings of the same values"""
    import pickle, copy
    from common import import_repo
    from spec import is_canonical
    M = import_repo()
    mp = M.mp
    vals = [mp.inf, -mp.inf, mp.nan, mp.zero, mp.mpf(1) / 3, -mp.mpf(5), mp.mpf(2) ** -1080, mp.mpc(mp.inf, 1), mp.mpc(2, mp.nan),
            mp.mpc(0, -mp.inf), mp.mpc(3, 4)]
    objs = [("value", v) for v in vals] + [("matrix", M.matrix([[mp.inf, 1], [mp.nan, -mp.inf]])), ("matrix", M.matrix([[mp.mpc(mp.inf, 2), 0]]))]
    routes = [("pickle%d" % k, (lambda o, k=k: pickle.loads(pickle.dumps(o, k)))) for k in range(pickle.HIGHEST_PROTOCOL + 1)]
    routes += [("copy", copy.copy), ("deepcopy", copy.deepcopy)]
    n = noresult = 0

    def raws(o):
        if hasattr(o, "_mpf_"):
            return [tuple(o._mpf_)]
        if hasattr(o, "_mpc_"):
            return [tuple(t) for t in o._mpc_]
        if hasattr(o, "rows"):
            return [t for i in range(o.rows) for j in range(o.cols) for t in raws(o[i, j])]
        return []
    for kind, o in objs:
        want = raws(o)
        for rname, f in routes:
            n += 1
            try:
                got = raws(f(o))
            except Exception as e:  # noqa   (a route that raises restores nothing: C40's matter, recorded findings H2-H4)
                noresult += 1
                continue
            bad = [t for t in got if not is_canonical(tuple(int(x) for x in t))]
            if bad or [tuple(map(int, t)) for t in got] != [tuple(map(int, t)) for t in want]:
                res["failing_inputs"].append({"site": "libmpf.from_pickable", "what": "%s of %r restores the raw tuple(s) %r, stored %r" %
                                              (rname, o, got[:3], want[:3]), "input": {"route": rname, "object": repr(o)}})
    res["coverage"]["state_roundtrips"] = {"routes_run": n, "raised": noresult}
