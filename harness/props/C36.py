"""C36 — Chebyshev and Fourier approximations reproduce what they represent.

chebyfit / fourier / fourierval run in worker subprocesses; every output is read exactly and decided by the compiled Lean checker.
  * chebyfit of a polynomial P of degree < N on [a, b]: the returned coefficient list d (reversed to increasing degree) must satisfy
    polyCoeffDist(d, c, M) = sum_j |d_j - c_j| M^j <= 2^(10-p) * sum_j |c_j| M^j with M = max(|a|, |b|) (exact rational arithmetic);
    Props/C36.lean proves this bounds |fit(x) - P(x)| for every real |x| <= M (in particular on [a, b]).  The bound ignores the
    cancellation between the expanded Chebyshev polynomials, so when it is inconclusive the case is `undecided` unless one of 9 exact
    sample points of [a, b] violates |fit(x) - P(x)| <= 2^(10-p) * sum_j |c_j| M^j (decided in Lean, fit(x) evaluated exactly).
  * reported error bound: the code's sample point k = 0 is x = b (rational): |f(b) - fit(b)| <= err * (1 + 2^-8) + 2^(10-p) * max(|f(b)|, 1)
    must hold (f(b) enclosed by the verified evaluator); for degree < N the reported error itself must be <= 2^(10-p) * sum_j |c_j| M^j.
  * fourier of a trigonometric polynomial with planted rational coefficients (degree <= N): every returned coefficient within
    2^(10-p) * max_j |planted_j| of the planted one (0 beyond the degree).
  * fourierval((cs, ss), [a, b], x) with dyadic data against its defining sum (Props/C36.lean: fourierval_spec), tolerance
    2^(10-p) * max(|v|, max_j |coef_j|).
"""
import json, random
from fractions import Fraction
import calc_ops as CO
from calc_ops import rtok, fam_tokens, dy_tokens, is_dy

LEVEL = "translation_validation"
LEAN_MODULES = ["MpProofs.CalcRef", "MpProofs.CalcOde", "Props.C36"]
ASSUMPTIONS = [
    "'reproduces polynomials of degree below N to within 2^(10-p) relative' is instantiated in the monomial basis: "
    "sum_j |d_j - c_j| M^j <= 2^(10-p) * sum_j |c_j| M^j, M = max(|a|,|b|) (a proved bound of the sup-distance on [-M, M] relative to the "
    "monomial-basis size of P); intervals: dyadic, inside [-4, 4], width >= 1/2; N <= 16",
    "'reported error bound consistent with the actual error on sample points': checked at the code's own sample point x = b "
    "(cos(pi*0/N) = 1), the only one that is rational for every N, with 2^-8 relative slack for the rounding of err",
    "'recovers the coefficients ... to the same accuracy': |returned_n - planted_n| <= 2^(10-p) * max_j |planted_j| (coefficient-vector-relative; "
    "a planted 0 cannot be recovered to relative accuracy); that the planted coefficients ARE the Fourier coefficients (orthogonality) is "
    "the property's own premise and is not proved",
    "fourierval: dyadic coefficients, end points and x (exactly representable), tolerance relative to max(|v|, max_j |coef_j|)",
    "the quantifier over polynomials/intervals/degrees/precisions is sampled; the comparison oracle is proved",
]

PRECS = [30, 53, 53, 64, 100, 150, 200]


def _coef(r):
    k = r.random()
    if k < 0.6:
        return Fraction(r.choice([-1, 1]) * r.randint(1, 9))
    return Fraction(r.choice([-1, 1]) * r.randint(1, 15), r.choice([2, 4, 3, 5]))


def gen_iv(r):
    while True:
        a = Fraction(r.randint(-32, 28), 8)
        L = Fraction(r.randint(4, 48), 8)
        b = a + L
        if b <= 4:
            return a, b


def case_cheb_poly(r, st, quick):
    prec = r.choice(PRECS)
    N = r.randint(1, 16)
    deg = r.randint(0, N - 1)
    degs = sorted(set([deg] + [r.randint(0, deg) for _ in range(r.randint(0, 4))]))
    ts = [[rtok(_coef(r)), n] for n in degs]
    a, b = gen_iv(r)
    fam = {"fam": "poly", "ts": ts}
    t = {"kind": "chebyfit", "fam": fam, "a": rtok(a), "b": rtok(b), "N": N, "prec": prec, "timeout": 20}
    st.note("cheb", "poly<N"); st.note("N", N); st.note("prec", prec)
    c = [Fraction(0)] * N
    for q, n in ts:
        c[n] += Fraction(q)
    M = max(abs(a), abs(b))
    S = sum(abs(cj) * M ** j for j, cj in enumerate(c))

    def lines(res):
        ds = [v.get("re") for v in res["d"]]
        if not all(is_dy(y) for y in ds) or len(ds) != N:
            return {}
        inc = [CO.dy_fraction(y) for y in ds][::-1]
        out = {"fit": "chebcheck %d %s %d %s %s %d 10" % (N, " ".join(rtok(x) for x in inc), N, " ".join(rtok(x) for x in c), rtok(M), prec)}
        # exact sample points in [a, b]: fit(x) is dyadic (dyadic coefficients and x); P(x) and the comparison are done in Lean
        ft = fam_tokens(fam)
        for i in range(9):
            x = a + (b - a) * Fraction(i, 8)
            fx = Fraction(0)
            for dj in reversed(inc):
                fx = fx * x + dj
            den = fx.denominator
            out["s%d" % i] = "famvalto 0 0 %s %s %s %d %d %d 10" % (ft, rtok(x), rtok(S), fx.numerator, -(den.bit_length() - 1), prec)
        return out

    def judge(res, ans):
        a_ = ans.get("fit")
        bad = []
        if a_ is None:
            bad.append("non-finite coefficients or wrong length %d" % len(res["d"]))
        smp = [ans.get("s%d" % i) for i in range(9)]
        if "violates" in smp:
            bad.append("|fit(x) - P(x)| > 2^(10-p) * sum|c_j|M^j at the sample point a + (b-a)*%d/8" % smp.index("violates"))
        e = res["err"].get("re")
        if not is_dy(e):
            bad.append("non-finite error estimate")
        else:
            ev = CO.dy_fraction(e)
            if ev < 0:
                bad.append("negative error estimate")
            if ev > Fraction(2) ** (10 - prec) * max(S, 1):
                bad.append("reported error %.3g for an exactly representable polynomial exceeds 2^(10-p)*sum|c_j|M^j" % float(ev))
        if res.get("prec_after") != prec:
            bad.append("working precision not restored")
        if bad:
            return "violates", "; ".join(bad)
        if a_ == "B:1":
            return "ok", None           # proved sup bound on [-M, M]
        st.note("cheb_bound_inconclusive", "samples_ok" if all(x == "ok" for x in smp) else "samples_undecided")
        return "undecided", None        # the coefficient-norm bound is inconclusive (cancelling coefficients); all exact samples are fine

    return {"task": t, "site": "calculus.approximation.chebyfit[poly]", "lines": lines, "judge": judge, "nontrivial": N >= 2}


def case_cheb_err(r, st, quick):
    """error-bound consistency at the rational sample point x = b, for non-polynomial f and for polynomials of degree >= N"""
    prec = r.choice(PRECS)
    N = r.randint(2, 14)
    k = r.choice(["expL", "sinL", "cosL", "poly"])
    if k == "poly":
        deg = N + r.randint(0, 3)
        fam = {"fam": "poly", "ts": [[rtok(_coef(r)), n] for n in sorted(set([deg, r.randint(0, deg), r.randint(0, deg)]))]}
    else:
        fam = {"fam": k, "c": rtok(Fraction(r.choice([-3, -2, -1, 1, 2, 3]), r.choice([1, 2])))}
    a, b = gen_iv(r)
    t = {"kind": "chebyfit", "fam": fam, "a": rtok(a), "b": rtok(b), "N": N, "prec": prec, "timeout": 20}
    st.note("cheb", "errbound:" + k); st.note("N", N); st.note("prec", prec)

    def lines(res):
        ds = [v.get("re") for v in res["d"]]
        e = res["err"].get("re")
        if not all(is_dy(y) for y in ds) or not is_dy(e):
            return {}
        fitb = Fraction(0)
        for y in ds:                      # Horner, highest degree first, exact
            fitb = fitb * b + CO.dy_fraction(y)
        ev = CO.dy_fraction(e)
        # fit(b) is dyadic (dyadic coefficients, dyadic b)
        num, den = fitb.numerator, fitb.denominator
        ye = -(den.bit_length() - 1)
        E = ev * (1 + Fraction(1, 256)) + Fraction(2) ** (10 - prec) * max(1, abs(fitb))
        return {"eb": "famabs %s %s %d %d %s" % (fam_tokens(fam), rtok(b), num, ye, rtok(E))}

    def judge(res, ans):
        a_ = ans.get("eb")
        if a_ is None:
            return "violates", "non-finite output"
        if a_ == "violates":
            return "violates", "|f(b) - fit(b)| at the code's own sample point x = b exceeds the reported error bound"
        return ("ok", None) if a_ == "ok" else ("undecided", None)

    return {"task": t, "site": "calculus.approximation.chebyfit[error]", "lines": lines, "judge": judge, "nontrivial": True}


def case_fourier(r, st, quick):
    prec = r.choice([30, 53, 53, 64, 100, 150])
    deg = r.randint(0, 5)
    N = deg + r.choice([0, 0, 1, 3])
    cs = [_coef(r) if r.random() < 0.8 else Fraction(0) for _ in range(deg + 1)]
    ss = [Fraction(0)] + [_coef(r) if r.random() < 0.8 else Fraction(0) for _ in range(deg)]
    if all(x == 0 for x in cs + ss):
        cs[0] = Fraction(1)
    a = Fraction(r.randint(-16, 16), 8); L = Fraction(r.randint(4, 32), 8); b = a + L
    t = {"kind": "fourier", "cs": [rtok(x) for x in cs], "ss": [rtok(x) for x in ss], "a": rtok(a), "b": rtok(b), "N": N, "prec": prec,
         "timeout": 40 if quick else 200}
    if r.random() < 0.25:
        t["points"] = [rtok(a), rtok(a + L * Fraction(r.randint(1, 7), 8)), rtok(b)]
    st.note("fourier_deg", deg); st.note("prec", prec)
    S = max(abs(x) for x in cs + ss)
    planted_c = cs + [Fraction(0)] * (N - deg)
    planted_s = ss + [Fraction(0)] * (N - deg)

    def lines(res):
        out = {}
        if len(res["c"]) != N + 1 or len(res["s"]) != N + 1:
            return out
        for nm, got, want in (("c", res["c"], planted_c), ("s", res["s"], planted_s)):
            for n, (v, w) in enumerate(zip(got, want)):
                y = v.get("re")
                if "im" in v or not is_dy(y):
                    continue
                out["%s%d" % (nm, n)] = "refcloseto 0 0 %d 10 %s q %s q %s" % (prec, dy_tokens(y), rtok(w), rtok(S))
        return out

    def judge(res, ans):
        if len(res["c"]) != N + 1 or len(res["s"]) != N + 1:
            return "violates", "wrong number of coefficients"
        bad, und = [], []
        for nm in ("c", "s"):
            for n in range(N + 1):
                a_ = ans.get("%s%d" % (nm, n))
                if a_ is None:
                    bad.append("%s[%d] non-real/non-finite" % (nm, n))
                elif a_ == "violates":
                    bad.append("%s[%d] differs from the planted coefficient by more than 2^(10-p)*max|planted|" % (nm, n))
                elif a_ != "ok":
                    und.append(n)
        if res.get("prec_after") != prec:
            bad.append("working precision not restored")
        if bad:
            return "violates", "; ".join(bad[:4])
        return ("undecided", None) if und else ("ok", None)

    return {"task": t, "site": "calculus.approximation.fourier", "lines": lines, "judge": judge, "nontrivial": deg >= 1}


def case_fourierval(r, st, quick):
    prec = r.choice(PRECS)
    nc, ns = r.randint(0, 7), r.randint(0, 7)
    dy = lambda: Fraction(r.randint(-64, 64), r.choice([1, 2, 8, 16])) if r.random() < 0.85 else Fraction(0)
    cs = [dy() for _ in range(nc)]; ss = [dy() for _ in range(ns)]
    a = Fraction(r.randint(-16, 16), 8); L = Fraction(r.randint(2, 32), 8); b = a + L
    x = Fraction(r.randint(-64, 64), 16)
    t = {"kind": "fourierval", "cs": [rtok(q) for q in cs], "ss": [rtok(q) for q in ss], "a": rtok(a), "b": rtok(b), "x": rtok(x),
         "prec": prec, "timeout": 10}
    st.note("fourierval_terms", nc + ns); st.note("prec", prec)
    fl = max([abs(q) for q in cs + ss] + [Fraction(0)])

    def lines(res):
        y = res["v"].get("re")
        if "im" in res["v"] or not is_dy(y):
            return {}
        return {"v": "fourierval %d %s %d %s %s %s %s %s %s %d 10" % (
            len(cs), " ".join(rtok(q) for q in cs), len(ss), " ".join(rtok(q) for q in ss), rtok(a), rtok(b), rtok(x), rtok(fl),
            dy_tokens(y), prec)}

    def judge(res, ans):
        a_ = ans.get("v")
        if a_ is None:
            return "violates", "non-real or non-finite value %s" % json.dumps(res["v"])
        if a_ == "violates":
            return "violates", "value differs from the defining sum by more than 2^(10-p)*max(|v|, max|coef|)"
        if res.get("prec_after") != prec:
            return "violates", "working precision not restored"
        return ("ok", None) if a_ == "ok" else ("undecided", None)

    return {"task": t, "site": "calculus.approximation.fourierval", "lines": lines, "judge": judge, "nontrivial": nc + ns >= 2}


def run(ctx):
    r = random.Random(ctx.seed)
    st = CO.Stats()
    quick = ctx.quick
    n1, n2, n3, n4 = (200, 120, 90, 200) if quick else (3000, 2000, 800, 3000)
    cases = ([case_cheb_poly(r, st, quick) for _ in range(n1)] + [case_cheb_err(r, st, quick) for _ in range(n2)] +
             [case_fourier(r, st, quick) for _ in range(n3)] + [case_fourierval(r, st, quick) for _ in range(n4)])
    info, fails = CO.run_cases(cases, ctx, nworkers=6, default_timeout=20.0, budget_s=60 if quick else 3000)
    s = info["summary"]
    evaluations = sum(1 for c in cases if c.get("verdict") in ("ok", "violates", "undecided"))
    cov = {
        "evaluations": evaluations,
        "distinct_nontrivial": info["distinct_nontrivial"],
        "programs": 3,   # chebyfit, fourier, fourierval
        "disagreements_checked": evaluations,
        "rule": "polynomials with rational coefficients of degree < N (reproduction) / >= N and exp, sin, cos (error bound) on dyadic intervals; "
                "trigonometric polynomials with planted rational coefficients; fourierval on dyadic data; non-trivial = decided by the Lean checker "
                "and N >= 2 / degree >= 1 / at least two terms",
        "cases": s, "undecided": s.get("undecided", 0),
        "input_distribution": st.as_dict(),
        "samples": info["samples"][:3],
    }
    return {"coverage": cov, "failing_inputs": fails, "disagreements": []}
