"""C11 — working precision (prec and dps) is restored after every call, normal or failing.

 1. pregen: tools/skel_extract.py re-parses every function of /repo/mpmath (current working tree), abstracts it to a term
    of the skeleton IR (lean/MpModel/Skel.lean), computes the interprocedural summaries and regenerates
    lean/Gen/PrecSkel.lean (one `example : bracketed skel_f = true/false := by decide` per function with a precision
    effect) and lean/Gen/prec_skel.json.
 2. the runner builds Props.C11 (bracketed_sound: bracketed p -> every outcome of every fault schedule leaves (prec, dps)
    unchanged; PrecisionManager theorems; conversion formulas) and Gen.PrecSkel, and audits the axioms.
 3. run:
    (a) compare the fresh extraction with harness/prec_baseline.json.  A function that was bracketed/neutral and is not any
        more, a new precision-writing function that is not bracketed, a public entry point that is newly leaky, a
        callback-safety variant that no longer holds: BROKEN OBLIGATION -> dynamic search on the public entry points that
        reach it (statically: reached_by of the sidecar; dynamically: sys.setprofile coverage of all specs);
    (b) T1 correspondence of prec_to_dps / dps_to_prec / the two setters between the Lean model (mpdrv) and CPython;
    (c) ALWAYS: dynamic confirmation (harness/prec_dynamic.py): (prec, dps) before/after each spec for normal return, a user
        callback / conversion hook raising at its k-th call, an exception injected at the k-th libmp primitive call;
        quick = the specs of the statically leaky public entry points + a seeded subset, thorough = all specs x 5 precisions.
        Every observed leak is a failing input.
"""
import os, sys, json, random, time, subprocess

HERE = os.path.dirname(os.path.dirname(os.path.abspath(__file__)))
VERIF = os.path.dirname(HERE)
sys.path.insert(0, os.path.join(VERIF, "tools"))
sys.path.insert(0, HERE)

from common import REPO, LEAN_DIR, MPDRV, InfraError, strip_lean_comments
import prec_dynamic

LEVEL = "proof"
LEAN_MODULES = ["Props.C11", "Gen.PrecSkel"]
GENERATED_MODULES = ["Gen.PrecSkel"]
ASSUMPTIONS = [
    "The theorems are about precision-effect SKELETONS (MpModel/Skel.lean) produced by tools/skel_extract.py from the ast of the "
    "working tree: only reads/writes of prec/dps, calls (each may raise), control structure, with-managers and yields are kept; every "
    "abstraction step adds behaviours (any store to an attribute named prec/dps/_prec/_dps counts as a write of the context; "
    "every non-trivial expression may raise; calls are resolved by name, ambiguous names take the worst summary).",
    "Callee summaries (neutral | leaky) are the greatest fixed point of the check itself; the induction on call depth that "
    "justifies using `call` for a bracketed callee is an informal argument, not a Lean theorem.",
    "User callbacks are assumed not to change the precision themselves (call = may raise, keeps precision); a leaky closure "
    "handed to a library function is accepted only if the callee's callback-safety variant skeleton is bracketed (generated, decided by Lean).",
    "bracketed_sound assumes a well-formed initial state (prec >= 1, dps = prec_to_dps(prec)); every `mp.prec = n` produces one "
    "(setPrec_consistent), `mp.dps = d` does for d <= 1024 by proof and for d <= 10^6 by exhaustive evaluation of CPython (conv check).",
    "`try: ctx.prec += k ... finally: ctx.prec -= k` (arithmetic undo, 2 sites: _gamma3, _hyp1f1) is NOT accepted by `bracketed`; "
    "such functions and what calls them outside a bracket are only attacked dynamically.",
    "Dynamic part: faults are exceptions raised from user callbacks / _mpmath_ hooks and from wrapped libmp primitives "
    "(mpf_*, mpc_*, from_*, to_*); asynchronous exceptions (KeyboardInterrupt, MemoryError) are not injected. A timeout is 'no result'.",
    "iv and fp contexts: the iv context's setters are extracted and listed (not bracketed by design); dynamic specs for calls made "
    "in fp / iv / a clone record mp's (prec, dps) (and iv's for the iv specs): every function with a precision effect that "
    "dereferences ctx._mp/_fp/_iv (ast scan) must be executed by one of them (measured), else a broken obligation.",
    "A save/restore pair counts as a bracket only if both name the same object expression (`v = X.prec ... X.prec = v`); "
    "`v = ctx.prec ... ctx._mp.prec = v` is a write from an untracked source.",
]
TRUSTED_EXTRA = ["tools/skel_extract.py (Python ast -> skeleton translator; its Python copy of `bracketed` is re-decided by Lean on "
                 "every generated skeleton)"]

_state = {}
PRECS = [53, 100, 101, 167, 1000]

# stable site strings for the leaks known on the unchanged tree (spec name -> site)
SITE_OVERRIDE = {
    "extraprec_reentrant": "ctx_mp.PrecisionManager:reentrant",
}


def pregen(ctx):
    import importlib
    import skel_extract
    importlib.reload(skel_extract)
    out = os.path.join(LEAN_DIR, "Gen")
    r = skel_extract.extract(os.path.join(REPO, "mpmath"), out, quiet=True)
    _state["extract"] = r
    _state["mod"] = skel_extract


def _baseline():
    p = os.path.join(HERE, "prec_baseline.json")
    if not os.path.exists(p):
        raise InfraError("harness/prec_baseline.json missing (generate with tools/skel_extract.py --baseline harness/prec_baseline.json)")
    return json.load(open(p))


def _site_of(spec, publics_by_name):
    if spec in SITE_OVERRIDE:
        return SITE_OVERRIDE[spec]
    name = prec_dynamic.spec_entry(spec)
    keys = publics_by_name.get(name, [])
    if keys:
        mod, qual = sorted(keys)[0].split(":")
        return mod + "." + qual.split(".")[-1]
    return "entry." + name


FAULT = {"a": "none", "b": "callback", "c": "libmp"}


def _failing(leak, site, what_extra=""):
    fault = FAULT[leak["mode"]]
    exc = {"X": "Injected(Exception)", "Z": "ZeroDivisionError", "V": "ValueError", "N": "NoConvergence"}.get(leak.get("exc"), None)
    cross = prec_dynamic.is_cross(leak["name"])
    what = ("%s: %s %s -> %s after %s" % (
        leak["name"], ("(mp.prec, mp.dps, iv.prec, iv.dps)" if len(leak["before"]) == 4 else
                       "(prec, dps) of the GLOBAL mp, call made in/through another context:" if cross else "(prec, dps)"),
        tuple(leak["before"]), tuple(leak["after"]),
        "normal call (outcome %s)" % leak["outcome"] if fault == "none" else
        "%s raised at call %d of %s (%s)" % (exc, leak["k"], "the user callback/conversion hook" if fault == "callback"
                                                 else "the wrapped libmp primitives", leak["outcome"])))
    return {"site": site, "what": what + what_extra,
            "input": {"entry": leak["name"], "function": prec_dynamic.spec_entry(leak["name"]), "prec": leak["prec"],
                      "fault": fault, "exc": leak.get("exc"), "k": leak["k"], "calls": leak.get("calls"),
                      "before": list(leak["before"]), "after": list(leak["after"]), "outcome": leak["outcome"],
                      "restored_via_dps": bool(fault == "none" and leak["outcome"] == "ok" and
                                               leak["after"][1] == leak["before"][1] and leak["after"][0] != leak["before"][0])}}


def _conv(ctx, n_exh):
    """T1: model (mpdrv) vs CPython for prec_to_dps / dps_to_prec / ctx.prec= / ctx.dps=; exhaustive to n_exh + seeded large"""
    from mpmath.libmp import prec_to_dps, dps_to_prec
    from mpmath import mp
    rnd = random.Random(ctx.seed)
    ns = list(range(-3, n_exh + 1))
    for e in range(20, 1000, 13):
        for _ in range(8):
            ns.append(rnd.getrandbits(e) | (1 << (e - 1)))
        ns += [2 ** e - 1, 2 ** e, 2 ** e + 1]
    small = list(range(-3, 1200)) + [rnd.randrange(1, 10 ** 7) for _ in range(500)]
    lines = []
    for n in ns: lines += ["prec_to_dps %d" % n, "dps_to_prec %d" % n]
    for n in small: lines += ["set_prec %d" % n, "set_dps %d" % n]
    p = subprocess.run([MPDRV], input="\n".join(lines) + "\n", capture_output=True, text=True, timeout=900)
    if p.returncode != 0:
        raise InfraError("mpdrv failed on the conversion ops: " + p.stderr[-300:])
    out = p.stdout.split("\n")
    dis = []
    for i, n in enumerate(ns):
        exp = ("I:%d" % prec_to_dps(n), "I:%d" % dps_to_prec(n))
        got = (out[2 * i], out[2 * i + 1])
        if got != exp and len(dis) < 20:
            dis.append({"name": "T1:prec_conv", "op": "prec_to_dps/dps_to_prec", "line": str(n), "impl": exp, "model": got})
    off = 2 * len(ns)
    save = mp.prec
    try:
        for i, n in enumerate(small):
            mp.prec = n; e1 = "P:I:%d,I:%d" % (mp.prec, mp.dps)
            mp.dps = n; e2 = "P:I:%d,I:%d" % (mp.prec, mp.dps)
            got = (out[off + 2 * i], out[off + 2 * i + 1])
            if got != (e1, e2) and len(dis) < 20:
                dis.append({"name": "T1:setters", "op": "set_prec/set_dps", "line": str(n), "impl": (e1, e2), "model": got})
    finally:
        mp.prec = save
    rt = [d for d in range(1, n_exh + 1) if prec_to_dps(dps_to_prec(d)) != d]
    fails = []
    if rt:
        fails.append({"site": "libmp.libmpf.prec_to_dps", "what": "prec_to_dps(dps_to_prec(d)) != d: setting dps and reading it back differ",
                      "input": {"d": rt[:10]}})
    return 2 * len(ns) + 2 * len(small), dis, fails


def _count_examples():
    src = strip_lean_comments(open(os.path.join(LEAN_DIR, "Gen", "PrecSkel.lean")).read())
    return src.count("\nexample :")


def run(ctx):
    if "extract" not in _state:
        pregen(ctx)
    ex = _state["extract"]
    summ, fn = ex["summary"], ex["functions"]
    base = _baseline()
    res = {"coverage": {}, "failing_inputs": [], "disagreements": [], "broken": [], "extra_obligations": []}
    rng = random.Random(ctx.seed)
    t0 = time.time()

    # generated file must be deterministic: a second extraction gives the same bytes
    gen = os.path.join(LEAN_DIR, "Gen", "PrecSkel.lean")
    first = open(gen, "rb").read()
    _state["mod"].extract(os.path.join(REPO, "mpmath"), os.path.join(LEAN_DIR, "Gen"), quiet=True)
    if open(gen, "rb").read() != first:
        raise InfraError("tools/skel_extract.py is not deterministic")

    # ---- (a) baseline comparison ---------------------------------------------------------------------------------
    old_nb = set(base["not_bracketed"])
    now_nb = set(summ["not_bracketed"])
    old_known = set(base["bracketed_with_effect"]) | old_nb
    regress = sorted(now_nb - old_nb)                      # was bracketed / neutral / absent, now not bracketed
    new_leaky_public = sorted(set(summ["leaky_public_entries"]) - set(base["leaky_public_entries"]))
    lost_cb = sorted(k for k in base["callback_safe_used"] if k not in summ["callback_safe_used"] and k in now_nb)
    improved = sorted(old_nb - now_nb)
    broken_specs = {}          # spec -> reasons
    publics_by_name = {}
    for k, v in fn.items():
        if v.get("public"):
            publics_by_name.setdefault(k.split(":")[1].split(".")[-1], []).append(k)
    # every public function, also those without a precision effect of their own
    for e in set(x for v in fn.values() for x in v.get("reached_by", [])):
        publics_by_name.setdefault(e.split(":")[1].split(".")[-1], [])
        if e not in publics_by_name[e.split(":")[1].split(".")[-1]]:
            publics_by_name[e.split(":")[1].split(".")[-1]].append(e)
    spec_of_entry = {}
    for s in prec_dynamic.SPECS:
        spec_of_entry.setdefault(prec_dynamic.spec_entry(s), []).append(s)
    LEAKCALL = "call of leaky callee outside a bracket"
    roots = [k for k in regress if any(r != LEAKCALL for r in fn.get(k, {}).get("reasons", []))] or regress
    consequences = [k for k in regress if k not in roots]
    for k in regress:
        v = fn.get(k, {})
        for e in v.get("reached_by", []):
            for s in spec_of_entry.get(e.split(":")[1].split(".")[-1], []):
                broken_specs.setdefault(s, set()).add(k)
    for k in roots:
        v = fn.get(k, {})
        kind = "new function" if k not in old_known else "was bracketed/neutral in harness/prec_baseline.json"
        detail = ("%s:%s `%s` (%s) is not bracketed any more (%s): %s; its obligation `bracketed %s = true` is no longer discharged; "
                  "public entry points reaching it: %s; functions that became leaky as a consequence (%d): %s" % (
                      v.get("file"), v.get("line"), k, v.get("kind"), kind, "; ".join(v.get("reasons", [])) or "-", v.get("lean"),
                      ", ".join(v.get("reached_by", [])[:12]) or "none found statically", len(consequences), ", ".join(consequences[:40])))
        res["broken"].append(("Gen.PrecSkel:%s" % k, detail))
    for e in new_leaky_public:
        if e not in regress:
            res["broken"].append(("Gen.PrecSkel:public:%s" % e, "public entry point %s is leaky now and was neutral in the baseline" % e))
        for s in spec_of_entry.get(e.split(":")[1].split(".")[-1], []):
            broken_specs.setdefault(s, set()).add(e)
    for k in lost_cb:
        res["broken"].append(("Gen.PrecSkel:%s__cb" % k, "callback-safety variant of %s no longer bracketed" % k))
    if base.get("manager_model_ok") and not summ.get("manager_model_ok"):
        res["broken"].append(("Gen.PrecSkel:PrecisionManager", "PrecisionManager.__enter__/__exit__ or workprec/workdps/extraprec/extradps "
                              "no longer have the shape that the IR's withMgr models"))
        for s in ("workprec_with", "workdps_with", "extraprec_with", "extradps_with", "polyroots", "polyroots_hard", "qr", "residual"):
            broken_specs.setdefault(s, set()).add("PrecisionManager")
    gen_built = os.path.exists(os.path.join(LEAN_DIR, ".lake", "build", "lib", "lean", "Gen", "PrecSkel.olean"))

    sidecar = os.path.join(LEAN_DIR, "Gen", "prec_skel.json")
    _, sites = prec_dynamic.load_nb(sidecar, all_effect=True)
    jobs = max(2, min(8, (os.cpu_count() or 4) // 2))
    all_specs = list(prec_dynamic.SPECS)

    # ---- (b) conversion formulas: model vs CPython --------------------------------------------------------------------
    n_conv, dis, conv_fail = _conv(ctx, 60000 if ctx.quick else 10 ** 6)
    res["disagreements"] += dis
    res["failing_inputs"] += conv_fail

    # ---- broken obligations: find who executes the offending functions, then search hard ----------------------------
    results = []
    searched_hard = []
    if res["broken"]:
        want = set(regress) | set(new_leaky_public)
        cov = prec_dynamic.search(all_specs, [], sites, timeout=15.0, jobs=jobs, modes=(), excs=())   # cover runs only
        for r in cov:
            if want & set(r["cover"]):
                broken_specs.setdefault(r["name"], set()).update(want & set(r["cover"]))
        searched_hard = sorted(broken_specs)
        results += prec_dynamic.search(searched_hard, PRECS, sites, timeout=20.0, jobs=jobs, modes=("b", "c"), excs=("X", "Z"))

    # ---- (c) always: dynamic confirmation ---------------------------------------------------------------------------
    leaky_names = set(e.split(":")[1].split(".")[-1] for e in summ["leaky_public_entries"])
    # the cross-context specs (calls made in fp / iv / a clone, or going through another context) are the only ones of their
    # class: always run
    flagged = [s for s in all_specs if prec_dynamic.spec_entry(s) in leaky_names or s in SITE_OVERRIDE or s.endswith('_closure')
               or prec_dynamic.is_cross(s)]
    if ctx.quick:
        rest = [s for s in all_specs if s not in flagged and s not in searched_hard]
        rng.shuffle(rest)
        chosen = [s for s in flagged if s not in searched_hard] + rest[:24]
        precs = {}
        for s in chosen:
            if prec_dynamic.is_cross(s):
                precs[s] = [rng.choice([100, 101, 167])]
            elif s in flagged:
                precs[s] = [53, 101, rng.choice([100, 167, 1000])]
            else:
                precs[s] = [rng.choice([53, 100]), rng.choice([101, 167]), 1000] if rng.random() < 0.25 else \
                           [rng.choice([53, 100]), rng.choice([101, 167])]
        deadline = t0 + (95 if not res["broken"] else 400)
        cross = [s for s in chosen if prec_dynamic.is_cross(s)]       # the only specs of their class: not subject to the time budget
        results += prec_dynamic.search(cross, precs, sites, timeout=8.0, jobs=jobs, modes=("b", "c"), excs=("X",))
        results += prec_dynamic.search([s for s in chosen if s not in cross], precs, sites, timeout=8.0, jobs=jobs,
                                       modes=("b", "c"), excs=("X",), deadline=deadline)
    else:
        chosen = [s for s in all_specs if s not in searched_hard]
        results += prec_dynamic.search(chosen, PRECS, sites, timeout=25.0, jobs=jobs, modes=("b", "c"), excs=("X",))
    if ctx.replay:
        try:
            fi = json.load(open(ctx.replay)).get("failing_input", {}).get("input", {})
            if fi.get("entry") in prec_dynamic.SPECS:
                results += prec_dynamic.search([fi["entry"]], [int(fi.get("prec", 53))], sites, timeout=30.0, jobs=1,
                                               modes=("b", "c"), excs=(fi.get("exc") or "X",))
        except Exception:
            pass

    # ---- cross-links: a function that writes a precision AND reaches for another context must be executed cross-context ----
    import ctx_ops
    link_fns = {}
    for rel, fname_, line, link in ctx_ops.link_sites():
        for k, v in fn.items():
            if v.get("file") == rel and k.split(":")[1].split(".")[-1] == fname_ and v.get("kind") == "writer":
                link_fns.setdefault(k, set()).add(link)
    cross_cover = {k: sorted(r["name"] for r in results if prec_dynamic.is_cross(r["name"]) and k in r["cover"]) for k in link_fns}
    cover_unknown = sorted(r["name"] for r in results if prec_dynamic.is_cross(r["name"]) and
                           (r.get("skipped") or not str(r.get("normal_outcome", "")).startswith(("ok", "exc", "injected"))))
    res["coverage"]["cross_specs_cover_run_without_result"] = cover_unknown
    for k, by in sorted(cross_cover.items()):
        if not by and not cover_unknown:
            res["broken"].append(("cross-context spec for %s" % k, "%s writes a precision and dereferences ctx.%s, and no cross-context "
                                  "spec of harness/prec_dynamic.py (fp_*/iv_*/clone_*) executes it" % (k, "/".join(sorted(link_fns[k])))))
    res["coverage"]["cross_link_writers_executed_by"] = cross_cover

    # ---- collect ----------------------------------------------------------------------------------------------------
    seen = set()
    leaks_by_site = {}
    for r in results:
        site = _site_of(r["name"], publics_by_name)
        for l in r["leaks"]:
            key = (l["name"], l["prec"], l["mode"], l.get("exc"))
            if key in seen:
                continue
            seen.add(key)
            extra = ""
            if r["name"] in broken_specs:
                extra = "  [reaches broken obligation(s): %s]" % ", ".join(sorted(broken_specs[r["name"]]))[:300]
            res["failing_inputs"].append(_failing(l, site, extra))
            leaks_by_site[site] = leaks_by_site.get(site, 0) + 1
    if res["broken"] and any(f for f in res["failing_inputs"] if "[reaches broken" in f["what"]):
        # the search produced failing inputs for the broken obligations: they are reported as such
        pass
    # a function the translator calls bracketed must not be the only precision-effect function executed by a leaking spec
    leaking_specs = sorted(set(l["name"] for r in results for l in r["leaks"]))
    for r in results:
        if r["leaks"] and r["cover"] and all(fn.get(k, {}).get("bracketed") for k in r["cover"]) and r["name"] not in SITE_OVERRIDE:
            res["disagreements"].append({"name": "translator:%s" % r["name"], "op": "skel_extract",
                                         "line": r["name"], "impl": "leaks dynamically: %s" % json.dumps(r["leaks"][0])[:300],
                                         "model": "every precision-effect function it executes is bracketed: %s" % r["cover"][:8]})

    runs = sum(r["runs"] for r in results)
    nores = [x for r in results for x in r["noresult"]]
    skipped = [r["name"] for r in results if r.get("skipped")]
    n_examples = _count_examples() if os.path.exists(gen) else 0
    for k, v in sorted(fn.items()):
        res["extra_obligations"].append({"name": "bracketed %s = %s" % (v["lean"], str(v["bracketed"]).lower()), "ok": gen_built})
    for k in summ["callback_safe_used"]:
        res["extra_obligations"].append({"name": "bracketed skel_%s__cb = true" % k, "ok": gen_built})
    cov = res["coverage"]
    cov["evaluations"] = runs + n_conv
    cov["distinct_nontrivial"] = sum(r["nontrivial"] for r in results)
    cov["rule"] = ("dynamic: one run = (spec, start precision, fault kind, k) in a worker process; non-trivial = the spec executes at least "
                   "one function with a precision effect (measured with sys.setprofile against the extractor's list) and the run is a "
                   "normal call or the injected fault actually fired; conversion ops: every n in [-3, N] plus seeded large n")
    cov["samples"] = [{"spec": r["name"], "entry": prec_dynamic.spec_entry(r["name"]), "precs": r.get("precs"), "runs": r["runs"],
                       "faults_fired": r["fired"], "outcomes": r["outcomes"], "precision_functions_executed": r["cover"][:6]}
                      for r in results[:3] + results[-2:]]
    cov["functions_parsed"] = summ["functions_total"]
    cov["functions_writing_precision"] = summ["writers"]
    cov["writers_bracketed"] = summ["writers_bracketed"]
    cov["writers_not_bracketed"] = summ["writers"] - summ["writers_bracketed"]
    cov["writers_not_bracketed_but_public_entry_wrapped"] = summ["writers_wrapped_entry"]
    cov["skeletons_emitted"] = summ["emitted"]
    cov["generated_decide_examples"] = n_examples
    cov["generated_obligations_discharged"] = n_examples if gen_built else 0
    cov["not_bracketed"] = summ["not_bracketed"]
    cov["leaky_public_entries"] = summ["leaky_public_entries"]
    cov["callback_safety_variants"] = summ["callback_safe_used"]
    cov["precision_manager_has_modelled_shape"] = summ["manager_model_ok"]
    cov["baseline_regressions"] = regress
    cov["baseline_new_leaky_public"] = new_leaky_public
    cov["baseline_improved"] = improved
    cov["broken_obligation_specs_searched"] = searched_hard
    cov["specs_total"] = len(all_specs)
    cov["specs_run"] = len([r for r in results if not r.get("skipped")])
    cov["specs_skipped_time_budget"] = skipped
    cov["specs_flagged_always_run"] = flagged
    cov["dynamic_runs"] = runs
    cov["faults_fired"] = sum(r["fired"] for r in results)
    cov["faults_swallowed_by_library"] = sum(r["swallowed"] for r in results)
    cov["no_result"] = len(nores)
    cov["no_result_by_kind"] = {}
    for x in nores:
        cov["no_result_by_kind"][x["outcome"]] = cov["no_result_by_kind"].get(x["outcome"], 0) + 1
    cov["undecided"] = len(nores)
    cov["leaking_specs"] = leaking_specs
    cov["leaks_by_site"] = leaks_by_site
    cov["start_precisions"] = PRECS
    cov["conversion_ops_compared"] = n_conv
    cov["traces_validated_against_impl"] = runs
    cov["programs"] = summ["functions_total"]
    return res
