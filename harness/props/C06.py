"""C06 — integer-part functions and modulo follow their exact definitions (raw core correspondence + API level)."""
from props import _core, _api

LEVEL = "proof"
LEAN_MODULES = ["Props.C06"]
OPS = ["mround_int", "floor", "ceil", "nint", "frac", "mod", "to_int", "round_int"]
ASSUMPTIONS = ["theorems (Props/C06.lean) are about the Lean model of mpf_round_int / mpf_floor / mpf_ceil / mpf_nint / mpf_frac / to_int / mpf_mod and the "
               "componentwise complex versions; the model is tied to libmpf/libmpc by the bit-exact correspondence run of this check and every output is "
               "additionally decided against the mathematical definition in exact rational arithmetic",
               "mpf_mod is proved for precisions >= 1 (the context never passes 0); to_int is proved for the default truncation (the rounding variants are "
               "covered by correspondence)",
               "the public API glue (mp.floor/ceil/nint/frac, int(), %, fmod with int/float/mpf/mpc operands) is sampled, not proved; math.floor/math.ceil "
               "(which go through float()) are outside the property text and only recorded"]


def run(ctx):
    res = _core.run_core(ctx, OPS, 80000, 2500000, monitors=("spec",))
    return _api.add_intpart(ctx, res)
