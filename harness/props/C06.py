"""C06 — integer-part functions and modulo follow their exact definitions (raw core correspondence + API level)."""
from props import _core, _api

LEVEL = "translation_validation"
LEAN_MODULES = []
OPS = ["mround_int", "floor", "ceil", "nint", "frac", "mod", "to_int", "round_int"]
ASSUMPTIONS = ["no Lean theorem is claimed yet for floor/ceil/nint/frac/mod/to_int: the model is validated against the code bit for bit "
               "and every output is decided against the mathematical definition in exact rational arithmetic",
               "x % 0 and math.floor/math.ceil (which go through float()) are outside the property text and only recorded"]


def run(ctx):
    res = _core.run_core(ctx, OPS, 80000, 2500000, monitors=("spec",))
    return _api.add_intpart(ctx, res)
