"""C38 — contexts are isolated from each other (frame theorems on MpModel/World.lean + T1 tie on live objects)."""
import json, hashlib
from common import *  # noqa
import ctx_ops

LEVEL = "proof"
LEAN_MODULES = ["Props.C38", "Props.C38PC"]
ASSUMPTIONS = [
    "Props/C38PC.lean is about MpModel/WorldPC.lean (World.lean plus one private-cache component per context object; clone() "
    "constructs EMPTY private caches): observed on every run by comparing the private state (containers of the object, of its "
    "quadrature rules, of its memoize closures) of a clone, taken after the parent has run every table entry measured to write "
    "private state, with that of a newly constructed context; private state kept elsewhere (e.g. in a C extension) is not seen",
    "the theorems are about the world model MpModel/World.lean (one settings cell per context object, shared caches); "
    "that the running objects have this shape is not proved but observed on every run: identity of the precision cells, "
    "number classes and _ctxdata lists of mp, three clones, iv, fp and a second iv/fp, and the settings of EVERY context "
    "after EVERY statement of random interleavings compared with the model's prediction",
    "clone_same_value assumes the shared caches are precision-correct (CachesPrecisionCorrect; discharged for the "
    "constant_memo cache from Props/C33.lean constantMemo_refines) and default rounding in the parent "
    "(clone() does not copy the private rounding field: clone_same_value_rounding_counterexample, replayed live)",
    "values are compared with a forked pristine single-context process at the settings predicted by the model, same "
    "evaluation order (same module-level cache history); a difference explained by per-context cache history "
    "(projection reference) is reported as history_dependent, not as a leak",
    "function coverage of the value comparison is the table ctx_ops.FUNS (elementary functions, constants, conversions, "
    "printing, gamma/erf/zeta/Bessel/Airy/hypergeometric, matrices, quadrature, nsum/diff/findroot, and the functions whose "
    "implementation keeps state outside libmp); functions outside the table are covered only by the structural scan of "
    "shared mutable state (mutable default arguments, class-level containers, attributes shared by identity)",
    "cross-links: every source line that dereferences ctx._mp/_fp/_iv (ast scan of the tree under test) is executed by a table "
    "entry from a context of another kind (line coverage measured on every run; an uncovered, unclassified line is a broken "
    "obligation); each such entry is evaluated from fp, mp and a clone while all other contexts hold non-default settings",
    "per-context caches: which table entries write state private to the evaluating context is measured (fingerprints of the "
    "containers of the context object, its quadrature rules and its memoize closures before/after one evaluation); each of "
    "them is run through parent-evaluates / clone() / parent-changes-precision / clone-evaluates programs; per-context state "
    "written only by functions outside the table is not exercised",
]

# every function of the package with a mutable default argument is state shared by all contexts; each one is classified
# here — a new or renamed one is an uncovered obligation until classified
MUTABLE_DEFAULTS = {
    "calculus.differentiation.dpoly:_cache": "benign: exact integer coefficient tables keyed by n",
    "functions.bessel._coulomb_chi:_cache": "LEAKY: (prec, context number) keyed by (l, eta); exercised by ev:coulombg",
    "functions.bessel.bessel_zero:_interval_cache": "exercised by ev:besseljzero (bracketing intervals; the root is refined in the calling context)",
    "functions.bessel.coulombc:_cache": "LEAKY: (prec, context number) keyed by (l, eta); exercised by ev:coulombc",
    "functions.hypergeometric.hypercomb:params": "benign: default [] never mutated",
    "functions.rszeta.Rzeta_set:derivatives": "benign: default [0] never mutated",
    "functions.zeta._zetasum:derivatives": "benign: default [0] never mutated",
    "functions.zeta.dirichlet:chi": "benign: default [1] never mutated",
    "identification.identify:constants": "benign: default [] never mutated",
    "libmp.libintmath.eulernum:_cache": "exact integers (C25/C33)",
    "libmp.libintmath.ifac2:memo_pair": "exact integers (C25/C33)",
    "libmp.libintmath.ifac:memo": "exact integers (C25/C33)",
    "libmp.libintmath.ifib:_cache": "exact integers (C25/C33)",
    "rational.create_reduced:_cache": "exact rationals keyed by (p, q)",
    "visualization.cplot:im": "benign: plot range", "visualization.cplot:re": "benign: plot range",
    "visualization.plot:singularities": "benign: plot option", "visualization.plot:xlim": "benign: plot range",
    "visualization.splot:u": "benign: plot range", "visualization.splot:v": "benign: plot range",
}
SHARED_ATTR_OK = lambda k: k in ("_mpq", "mpq") or k.startswith("mpq_")   # the immutable exact-rational class and constants
LINKS = ("_mp", "_iv", "_fp")                                             # documented cross-links set in mpmath/__init__.py
CLASS_LEVEL_OK = {("SpecialFunctions", "defined_functions")}              # registration table filled at import time
# every place where the package reaches from one context object for another (ctx._mp / ctx._fp / ctx._iv), found by
# ctx_ops.link_sites() in the source of the tree under test, must be EXECUTED by an entry of the function table from a
# context of another kind (measured by the probe on every run) — or be classified here
LINK_SITE_EXEMPT = {
    "ctx_mp.py:clone": "wiring: copies the parent's _fp/_iv links to the new context, calls nothing through them",
}

CORPUS = [
    "cl:0 sp:3:100 ev:3:coulombc sp:3:20 ev:0:coulombc",
    "sp:1:2 ev:0:primepi2",
    "cl:0 ev:3:zetazero",
    "cl:0 ev:3:nzeros",
    "cl:0 ev:3:primepi2",
    "sr:0:f cl:0 ev:0:sqrt2 ev:3:sqrt2",
    "cl:0 cl:3 sp:3:200 sd:4:30 sp:1:77 sp:2:99 df:3 ev:0:pi ev:3:pi ev:4:pi ev:1:pi ev:2:pi",
    "sy:0:1 cl:0 ev:0:repr13 ev:3:repr13 sy:1:1 ev:1:repr13 ev:2:repr13",
    "st:0:1 cl:0 ev:0:sqrtm2 ev:3:sqrtm2",
]


def _structure(res):
    st = ctx_ops.call_worker({"mode": "structure"})
    if st is None:
        raise InfraError("structure worker timed out")
    fails, broken = [], []
    names = st["contexts"]

    def distinct(label, ids):
        seen = {}
        for n, v in ids:
            if v is None:
                continue
            if v in seen:
                fails.append({"site": "ctx.aliasing", "what": "%s of %s and %s is the same object" % (label, seen[v], n),
                              "input": {"structure": label, "a": seen[v], "b": n}})
            seen[v] = n
    distinct("precision cell", [(n, st["cells"][n]) for n in names])
    for cl in ("mpf", "mpc", "constant"):
        distinct("class " + cl, [(n, st["classes"][n].get(cl)) for n in names])
    # _ctxdata: distinct ACROSS contexts (iv shares one list among its own three classes by construction)
    owner = {}
    for n in names:
        for cl, v in st["ctxdata"][n].items():
            if v in owner and owner[v] != n:
                fails.append({"site": "ctx.aliasing", "what": "_ctxdata list shared by %s and %s" % (owner[v], n),
                              "input": {"structure": "_ctxdata", "a": owner[v], "b": n}})
            owner[v] = n
    for n in names:
        for k, v in st["wiring"][n].items():
            if not v:
                fails.append({"site": "ctx.aliasing", "what": "%s: %s is false" % (n, k), "input": {"structure": k, "a": n}})
    links = []
    for a, b, k, ty in st["shared_attrs"]:
        if SHARED_ATTR_OK(k):
            continue
        if k in LINKS:
            links.append([a, b, k])
            continue
        fails.append({"site": "ctx.aliasing", "what": "attribute %s (%s) is one object in %s and %s" % (k, ty, a, b),
                      "input": {"structure": "shared attribute", "attr": k, "a": a, "b": b}})
    for cls, k, ty in st["class_level_mutables"]:
        if (cls, k) not in CLASS_LEVEL_OK:
            broken.append(("class-level mutable %s.%s" % (cls, k), "unclassified class-level %s shared by all contexts of the class" % ty))
    for name in st["mutable_defaults"]:
        if name not in MUTABLE_DEFAULTS:
            broken.append(("mutable default " + name, "a function-default container is state shared by all contexts; not classified in props/C38.py"))
    w = st["clone_rounding_witness"]
    if not (w["parent"] == [53, "f"] and w["clone"] == [53, "n"] and w["parent_sqrt2"] != w["clone_sqrt2"]):
        res["disagreements"].append({"name": "T1:clone_rounding_witness", "op": "world", "impl": w,
                                     "model": "clone_same_value_rounding_counterexample: parent [53,f], clone [53,n]"})
    return st, fails, broken, links


def _group_of(stmts, k, a, b):
    i = int(stmts[k].split(":")[1])
    f = stmts[k].split(":")[2]
    if i >= 3 and a[0] == "exc" and a[1] == "AttributeError" and not (b[0] == "exc" and b[1] == "AttributeError"):
        return ("clone-attr", f)
    if a[0] == "v" and b[0] == "v" and len(a[1]) == 3 and len(b[1]) == 3 and a[1][0] == b[1][0] and a[1][2] == b[1][2]:
        return ("owner", f)        # same number, but an instance of ANOTHER context's class
    ta = a[1] if a[0] == "exc" else a[0]
    tb = b[1] if b[0] == "exc" else b[0]
    if ta != tb:
        return ("value:%s/%s" % (ta, tb), f)   # different OUTCOME (an exception against a value): decided separately
    return ("value", f)


def run(ctx):
    import time
    res = {"coverage": {}, "failing_inputs": [], "disagreements": [], "broken": []}
    phase, t_ph = {}, [time.time()]

    def lap(name):
        phase[name] = round(phase.get(name, 0) + time.time() - t_ph[0], 1)
        t_ph[0] = time.time()
    st, fails, broken, links = _structure(res)
    res["failing_inputs"] += fails
    res["broken"] += broken
    lap("structure")

    # measured interaction classes: cross-link lines executed / private state written, per table entry and kind
    sites, table = ctx_ops.probe()
    link_cov = ctx_ops.cross_link_coverage(sites, table)
    unprobed = sorted("%s.%s" % (k, f) for f in table for k, a in table[f].items() if a is None or a["out"] == "timeout")
    unresolved = sorted({u for f in table for a in table[f].values() if a for u in a.get("unresolved", [])})
    for u in unresolved:
        res["broken"].append(("link site " + u, "the code object of a function that dereferences a cross-link was not found; "
                              "its lines cannot be measured"))
    for key, by in sorted(link_cov.items()):
        rel, fn, line, link = key.split(":")
        if not by and "%s:%s" % (rel, fn) not in LINK_SITE_EXEMPT and not unprobed:     # (a probe without result: undecided)
            res["broken"].append(("link site " + key, "%s line %s (%s) reaches for ctx.%s and no entry of ctx_ops.FUNS executes "
                                  "that line from a context of another kind: add a table entry with arguments that reach it, "
                                  "or classify it in LINK_SITE_EXEMPT" % (rel, line, fn, link)))

    lap("probe")
    # T1 tie of MpModel/WorldPC.lean: a clone owns EMPTY private caches, whatever its parent has computed
    writers = sorted(f for f in table if ctx_ops.FUNS[f][0] != "slow" and table[f].get("mp") and table[f]["mp"]["touched"])
    cp = ctx_ops.call_worker({"mode": "clone_private", "fnames": writers, "prec": 90})
    if cp is None:
        raise InfraError("clone_private worker timed out")
    for label in ("clone_differs", "clone_of_clone_differs", "parent_written_by_clone"):
        if cp[label]:
            res["disagreements"].append({"name": "T1:worldpc.clone_private", "op": "worldpc", "line": "sp:0:90 " + " ".join("ev:0:" + f for f in writers) + " cl:0 cl:3",
                                         "impl": {label: cp[label]}, "model": "clone_private_empty: the clone's private caches are SemP.empty; no existing context is written"})
    n = 20 if ctx.quick else 1500
    g = ctx_ops.ProgGen(ctx.seed)
    programs = [c.split() for c in CORPUS]
    if ctx.replay:
        rp = json.load(open(ctx.replay))
        pr = ((rp.get("failing_input") or {}).get("input") or {}).get("program")
        if pr:
            programs.insert(0, pr.split())
    n_corpus = len(programs)
    for _ in range(n):
        programs.append(g.program(36 if ctx.quick else g.r.randint(10, 40)))
    # systematic families (own PRNG stream: the random programs above are the same with or without them)
    sg = ctx_ops.SysGen(ctx.seed * 7919 + 1)
    n_sys = 0
    for rep in range(1 if ctx.quick else 12):
        sysp = sg.link_programs(table, sites) + sg.history_programs(table)
        n_sys += len(sysp)
        programs[n_corpus:n_corpus] = sysp

    checked = compared = undecided = prog_undecided = 0
    nontrivial = set()
    groups = {}          # (kind, function) -> list of (program, k, a, b)
    own_side, history_dep = [], []
    samples = []
    chunk = 60
    for c0 in range(0, len(programs), chunk):
        part = programs[c0:c0 + chunk]
        model, multis, refs_in, singles = ctx_ops.run_programs(part, par=4)
        for p, m, mu, ri, si in zip(part, model, multis, refs_in, singles):
            if mu is None or si is None:
                prog_undecided += 1
                continue
            r = ctx_ops.check_program(p, m, mu, si, ri[1])
            checked += r["checked_statements"]
            compared += r["compared"]
            undecided += r["undecided"]
            nontrivial |= r["nontrivial"]
            if len(samples) < 4 and r["compared"] > 3:
                samples.append({"program": " ".join(p), "model_final": m[-1][1], "observed_final": [s[:6] for s in mu[-1]["state"]]})
            for k, j, o, mm in r["settings_leaks"]:
                groups.setdefault(("settings", p[k].split(":")[0]), []).append((p, k, o, mm))
            for k, j, o, mm in r["model_mismatch"]:
                res["disagreements"].append({"name": "T1:world." + p[k].split(":")[0], "op": "world", "line": " ".join(p[:k + 1]),
                                             "impl": o, "model": mm})
            for k, o, mm in r["own_side_effect"]:
                own_side.append({"program": " ".join(p[:k + 1]), "observed": o, "predicted": mm})
            for k, a, b in r["value_mismatch"]:
                groups.setdefault(_group_of(p, k, a, b), []).append((p, k, a, b))

    lap("programs")
    # decide each group on its first member: projection reference, then minimisation in fresh processes
    rounds_all = 2 if ctx.quick else 4
    outcome_sites = {}     # (outcome signature, site) -> the failing input already decided for it
    for (kind, f), members in sorted(groups.items()):
        members = sorted(members, key=lambda m: m[1])       # shortest failing prefix first
        p, k, a, b = members[0]
        # an entry that takes seconds per call gets one removal round in the quick tier
        rounds = 1 if (ctx.quick and f in ctx_ops.FUNS and ctx_ops.FUNS[f][0] == "slow") else rounds_all
        if kind.startswith("value:") and (kind, ctx_ops.FUNS[f][1]) in outcome_sites:
            # the same change of OUTCOME (exception against value) at the same site, through another table entry
            fi = outcome_sites[(kind, ctx_ops.FUNS[f][1])]
            fi["input"].setdefault("same_outcome_through", []).append({"function": f, "program": " ".join(p[:k + 1]), "count": len(members)})
            continue
        if kind == "settings":
            def pred(q, r):
                return bool(r["settings_leaks"])
            small = ctx_ops.minimize(p[:k + 1], pred, rounds)
            res["failing_inputs"].append({"site": "ctx.settings", "what": "statement %s changed the settings of another context: observed %s, predicted %s" % (p[k], a, b),
                                          "input": {"program": " ".join(small), "count": len(members)}})
            continue
        if kind.startswith("value"):
            # a difference explained by the evaluating context's OWN cache history is not a leak; the members of a group
            # need not share their explanation, so several are tried (distinct programs) before the group is dismissed
            unexplained = None
            tried = set()
            for mp_, mk, ma, mb in members:
                if id(mp_) in tried:
                    continue
                if len(tried) >= (4 if ctx.quick else 10):
                    break
                tried.add(id(mp_))
                model = ctx_ops.ask_model([mp_])[0]
                pr = ctx_ops.projection_reference(mp_, model, mk)
                if pr is not None and pr == ma:
                    history_dep.append({"function": f, "program": " ".join(mp_[:mk + 1]), "observed": ma, "reference": mb, "count": len(members)})
                    continue
                unexplained = (mp_, mk, ma, mb)
                break
            if unexplained is None:
                continue
            p, k, a, b = unexplained

        def pred(q, r, f=f, kind=kind):
            return any(_group_of(q, kk, aa, bb) == (kind, f) for kk, aa, bb in r["value_mismatch"])
        small = None
        if kind == "clone-attr":                      # the obvious two-statement candidate first
            cand = ["cl:0", "ev:3:" + f]
            r = ctx_ops.run_one(cand)
            if r is not None and pred(cand, r):
                small = cand
        if small is None:
            small = ctx_ops.minimize(p[:k + 1], pred, rounds)
            r = ctx_ops.run_one(small)
        obs = ref = None
        if r is not None:
            for kk, aa, bb in r["value_mismatch"]:
                if _group_of(small, kk, aa, bb) == (kind, f):
                    obs, ref = aa, bb
        if kind == "clone-attr":
            site = "ctx_mp.MPContext.clone"
            what = ("a clone does not compute what mp computes at the same precision: %s raises AttributeError in the clone "
                    "(clone() does not set the _mp/_fp/_iv links), reference value %s" % (f, json.dumps(ref)[:120]))
        else:
            site = ctx_ops.FUNS[f][1]
            what = ("%s in one context returns a %s that depends on what another context did: observed %s, "
                    "single-context reference at the same settings %s" % (f, "number of another context's class" if kind == "owner" else "value", json.dumps(obs)[:160], json.dumps(ref)[:160]))
        res["failing_inputs"].append({"site": site, "what": what,
                                      "input": {"program": " ".join(small), "function": f, "observed": obs, "reference": ref,
                                                "count": len(members)}})
        if kind.startswith("value:"):
            outcome_sites[(kind, site)] = res["failing_inputs"][-1]

    lap("decide")
    res["coverage"] = {
        "phase_seconds": phase,
        "evaluations": checked + compared,
        "distinct_nontrivial": len(nontrivial),
        "rule": "random interleaved programs over mp, iv, fp and up to four clones (statements: set prec / dps / rounding / "
                "trap_complex / pretty, default(), clone(), and computations from a table of %d functions; 3-4 functions per "
                "program so that the same function meets several contexts and precisions), plus two systematic families built "
                "from MEASURED classes: every table entry that executes a cross-link line (ctx._mp/_fp/_iv) evaluated from fp, mp "
                "and a clone while all other contexts hold distinct non-default settings, and every entry that writes "
                "per-context state run as parent-evaluates / clone / parent-changes-precision / clone-evaluates; after EVERY statement the settings of "
                "EVERY context are compared with the Lean model's prediction, and every computed value is compared with a "
                "forked pristine single-context process at the predicted settings; a case (statement, settings of all contexts) "
                "is non-trivial when at least two contexts have different settings at that point" % len(ctx_ops.FUNS),
        "samples": samples,
        "programs": len(programs),
        "corpus_programs": n_corpus,
        "statements_checked": checked,
        "values_compared": compared,
        "undecided": undecided + prog_undecided,
        "undecided_detail": {"evaluations_timed_out": undecided, "programs_timed_out": prog_undecided},
        "input_distribution": g.hist,
        "systematic_programs": n_sys,
        "systematic_distribution": sg.hist,
        "cross_link_sites": {k: (v[:6] if v else "EXEMPT: " + LINK_SITE_EXEMPT.get(":".join(k.split(":")[:2]), "NOT COVERED"))
                             for k, v in sorted(link_cov.items())},
        "private_state_written_by": {f: table[f]["mp"]["touched"] for f in sorted(table)
                                     if table[f].get("mp") and table[f]["mp"]["touched"]},
        "probe_no_result": unprobed,
        "clone_private_state": {"parent_evaluated": writers, "parent_private_state_nonempty": cp["parent_nonempty"],
                                "clone_differs_from_new_context": cp["clone_differs"],
                                "clone_of_clone_differs": cp["clone_of_clone_differs"]},
        "live_structure": {"contexts": st["contexts"], "distinct_precision_cells": len({v for v in st["cells"].values() if v}),
                           "cross_links": links, "mutable_defaults": st["mutable_defaults"],
                           "clone_rounding_witness": st["clone_rounding_witness"]},
        "own_context_side_effects": own_side[:5],
        "own_context_side_effects_count": len(own_side),
        "history_dependent": history_dep[:5],
        "value_mismatch_groups": {"%s:%s" % k: len(v) for k, v in groups.items()},
        "traces_validated_against_impl": len(programs),
    }
    return res
