"""C35 — integer relation results are genuine relations (acceptance checked exactly on every returned result)."""
import json
from fractions import Fraction
from common import *  # noqa
import rel_ops

LEVEL = "translation_validation"
LEAN_MODULES = ["Props.C35"]
ASSUMPTIONS = [
    "no theorem about the PSLQ iteration itself: every vector / polynomial / formula actually RETURNED by the real code on "
    "the generated inputs is checked; the checkers pslqCheck / findpolyCheck are proved exact (Props/C35.lean: ok implies "
    "the promise, violates refutes it) on the inputs read exactly from the _mpf_ tuples",
    "pslq promise = property text: c != 0 integer vector, max|c_k| < maxcoeff, |sum c_k x_k| <= tol*||x||_2; "
    "findpoly promise: at most n+1 integer coefficients, not all zero, max|a_k| < maxcoeff, "
    "|P(x)| <= tol*||(1,x,..,x^d)||_2 with EXACT powers of the dyadic x (the code feeds pslq with rounded powers)",
    "identify promise as decided here: |E - x| <= 2^10*tol*max(1,|x|) where E is the returned expression, tol the tolerance "
    "passed (default eps**0.7, read from the running context) — the documentation only says 'roughly as close as permitted "
    "by the specified tolerance' and the code's own guarantee is tol*||(t,constants)||_2 pushed through the inverse "
    "transformation; the distribution of |E-x|/(tol*max(1,|x|)) is reported (<=1, <=2^5, <=2^10, beyond) with examples; "
    "E is evaluated by the verified interval evaluator (encl ops, Props/C12) for pi, exp, log, sqrt at dyadic points; "
    "interval arguments use the monotonicity of exp, log, sqrt (harness-side, exact rational interval arithmetic); "
    "strings outside the grammar (ints, + - * / **, sqrt, exp, log, pi, e) are undecided",
    "completeness ('when an exact small relation exists and the precision suffices, it is found') is DECIDED on the class where it is "
    "unambiguous: a primitive planted relation with all |c_k| in [maxcoeff/2, maxcoeff), n = 3..5, among 1, square roots of distinct "
    "primes, pi, e, log 2 (linearly independent over Q, conjecturally for the transcendental ones), last entry solved from the relation, "
    "precision >= 3*n*log2(maxcoeff) + 100 bits, default tolerance, maxsteps = 10^6; the planted vector itself must pass the verified "
    "acceptance checker on the rounded inputs (else the case is not counted); a None result is a failing input "
    "(site identification.pslq[completeness]); any returned vector that passes the acceptance checker is accepted (a vector different "
    "from +-planted is counted separately); a timeout is no result, never a pass; outside this class completeness stays information",
    "precisions 53..300 bits: pslq raises ValueError below 53 bits, so the 30..52-bit part of the quantifier is empty",
]


def _frac(d):
    return Fraction(int(d[0])) * Fraction(2) ** int(d[1])


def _norm_rel(c):
    c = [int(v) for v in c]
    for v in c:
        if v:
            return tuple(c) if v > 0 else tuple(-w for w in c)
    return tuple(c)


# identify's table of transformations (a harness-side COPY of identification.transforms: a change of the table in the
# code makes the templates below stop matching, and the failing case then stays an unexplained violation)
_TRANSFORMS = [
    (lambda mp, x, c: x * c, '$y/$c', 0), (lambda mp, x, c: x / c, '$c*$y', 1), (lambda mp, x, c: c / x, '$c/$y', 0),
    (lambda mp, x, c: (x * c) ** 2, 'sqrt($y)/$c', 0), (lambda mp, x, c: (x / c) ** 2, '$c*sqrt($y)', 1),
    (lambda mp, x, c: (c / x) ** 2, '$c/sqrt($y)', 0), (lambda mp, x, c: c * x ** 2, 'sqrt($y)/sqrt($c)', 1),
    (lambda mp, x, c: x ** 2 / c, 'sqrt($c)*sqrt($y)', 1), (lambda mp, x, c: c / x ** 2, 'sqrt($c)/sqrt($y)', 1),
    (lambda mp, x, c: mp.sqrt(x * c), '$y**2/$c', 0), (lambda mp, x, c: mp.sqrt(x / c), '$c*$y**2', 1),
    (lambda mp, x, c: mp.sqrt(c / x), '$c/$y**2', 0), (lambda mp, x, c: c * mp.sqrt(x), '$y**2/$c**2', 1),
    (lambda mp, x, c: mp.sqrt(x) / c, '$c**2*$y**2', 1), (lambda mp, x, c: c / mp.sqrt(x), '$c**2/$y**2', 1),
    (lambda mp, x, c: mp.exp(x * c), 'log($y)/$c', 0), (lambda mp, x, c: mp.exp(x / c), '$c*log($y)', 1),
    (lambda mp, x, c: mp.exp(c / x), '$c/log($y)', 0), (lambda mp, x, c: c * mp.exp(x), 'log($y/$c)', 1),
    (lambda mp, x, c: mp.exp(x) / c, 'log($c*$y)', 1), (lambda mp, x, c: c / mp.exp(x), 'log($c/$y)', 0),
    (lambda mp, x, c: mp.ln(x * c), 'exp($y)/$c', 0), (lambda mp, x, c: mp.ln(x / c), '$c*exp($y)', 1),
    (lambda mp, x, c: mp.ln(c / x), '$c/exp($y)', 0), (lambda mp, x, c: c * mp.ln(x), 'exp($y/$c)', 1),
    (lambda mp, x, c: mp.ln(x) / c, 'exp($c*$y)', 1), (lambda mp, x, c: c / mp.ln(x), 'exp($c/$y)', 0),
]


def _explain_identify(s, x, tol, consts, prec):
    """Why does the expression `s` miss x?  Looks for the transformation t = f(x, c) of identify's table whose template produced
    `s`, evaluates the inner expression y (verified enclosures) and t (mpmath at prec+80 bits, used for this classification
    only) and reports whether the relation holds for the TRANSFORMED value: |t - y| <= 2^10*tol*max(1,|t|).  If it does, the
    miss is the inverse transformation amplifying the tolerance, not a wrong relation."""
    out = {}
    import mpmath
    neg = False
    if x < 0:
        if not (s.startswith("-(") and s.endswith(")")):
            return out
        s, x, neg = s[2:-1], -x, True
    mp = mpmath.mp.clone()
    mp.prec = int(prec) + 80
    X = mp.mpf(x.numerator) / x.denominator
    names = ["1"] + [c for c in consts if c != "1"]
    for ft, ftn, red in _TRANSFORMS:
        for cn in names:
            if red and cn == "1":
                continue
            tmpl = ftn.replace('/$c', '') if (cn == "1" and '/$c' in ftn) else ftn.replace('$c', cn)
            if tmpl.count("$y") != 1:
                continue
            pre, post = tmpl.split("$y")
            if not (s.startswith(pre) and s.endswith(post) and len(s) > len(pre) + len(post)):
                continue
            inner = s[len(pre):len(s) - len(post)]
            try:
                ast = rel_ops.parse(inner)
                c = mp.mpf(1) if cn == "1" else eval(cn, {k: getattr(mp, k) for k in ("pi", "e", "sqrt", "log", "exp")})
                t = ft(mp, X, c)
            except Exception:
                continue
            v = rel_ops.eval_many([ast], [int(prec) + 80])[0]
            if isinstance(v, tuple) and v and v[0] == "undecided":
                continue
            lo, hi = v
            tq = Fraction(int(t._mpf_[1]) * (-1 if t._mpf_[0] else 1)) * Fraction(2) ** int(t._mpf_[2])
            far = max(abs(lo - tq), abs(hi - tq))
            if far <= 1024 * tol * max(1, abs(tq)):
                out.update({"transform": tmpl, "transformed_value": float(tq), "transformed_residual": float(far),
                            "transformed_residual_ok": True})
                return out
            if "sqrt(0)" in inner and far * far <= 1024 * tol * max(1, abs(tq)):
                # a quadratic a + b t + c t^2 with discriminant 0: the residual c (t - r)^2 is below tol while |t - r| ~ sqrt(tol)
                out.update({"transform": tmpl, "transformed_value": float(tq), "transformed_residual": float(far),
                            "double_root_residual_ok": True})
                return out
    return out


def run(ctx):
    n = 300 if ctx.quick else 12000
    g = rel_ops.RelGen(ctx.seed)
    tasks = []
    for _ in range(n):
        tasks.append(g.pslq_task())
    for _ in range(n):
        tasks.append(g.findpoly_task())
    for _ in range(n // 2):
        tasks.append(g.identify_task())
    ncomplete = 60 if ctx.quick else 2000
    for _ in range(ncomplete):
        tasks.append(g.pslq_complete_task())
    if ctx.replay:
        rp = json.load(open(ctx.replay))
        t = ((rp.get("failing_input") or {}).get("input") or {}).get("task")
        if t:
            t = dict(t); t["id"] = 0
            tasks.insert(0, t)
    failing, dis = [], []
    stats = {"pslq": {}, "findpoly": {}, "identify": {}}
    info = {"planted_not_found": [], "planted_other_relation": 0, "planted_found": 0, "planted_expected": 0}
    comp = {"cases": 0, "found_planted": 0, "found_other_valid": 0, "none": 0, "timeout": 0, "exception": 0,
            "planted_not_admissible": 0, "returned_invalid": 0}
    samples = []
    strict, strict_examples = {}, []
    evaluations = 0
    distinct = set()

    def bump(kind, k):
        stats[kind][k] = stats[kind].get(k, 0) + 1

    chunk = 600
    for c0 in range(0, len(tasks), chunk):
        part = tasks[c0:c0 + chunk]
        res = rel_ops.run_tasks(part, par=4)
        lines, meta = [], []
        ident = []
        comp_lines, comp_meta = [], []
        for t, a in zip(part, res):
            kind = t["kind"]
            evaluations += 1
            if t.get("complete"):
                comp["cases"] += 1
                if a.get("timeout"):
                    comp["timeout"] += 1
                elif a.get("exc"):
                    comp["exception"] += 1
                    failing.append({"site": "identification.pslq[completeness]", "what": "pslq raised %s: %s on a planted relation" %
                                    (a["exc"], a.get("msg")), "input": {"task": {k: t[k] for k in t if k != "id"}}})
                else:
                    # is the planted vector admissible for the ROUNDED inputs?  (verified acceptance checker)
                    comp_lines.append(rel_ops.pslq_line(dict(a, result=[str(v) for v in t["plant"]])))
                    comp_meta.append((t, a))
            if a.get("timeout"):
                bump(kind, "timeout"); continue
            if a.get("exc"):
                bump(kind, "exc:" + a["exc"]); continue
            r = a.get("result")
            if t.get("expect_found"):
                info["planted_expected"] += 1
            if r is None:
                bump(kind, "None")
                if t.get("expect_found"):
                    info["planted_not_found"].append({k: t[k] for k in t if k not in ("id",)})
                continue
            bump(kind, "returned")
            distinct.add((kind, json.dumps(a.get("xs", a.get("x"))), json.dumps(r)))
            if kind in ("pslq", "findpoly") and not a.get("types_ok", True):
                failing.append({"site": "identification." + kind, "what": "result entries are not Python ints", "input": {"task": t, "result": r}})
            if kind == "pslq":
                lines.append(rel_ops.pslq_line(a)); meta.append((t, a))
                if t.get("plant") is not None and not t.get("perturb") and t.get("expect_found"):
                    if _norm_rel(r) == _norm_rel(t["plant"]):
                        info["planted_found"] += 1
                    else:
                        info["planted_other_relation"] += 1
            elif kind == "findpoly":
                lines.append(rel_ops.poly_line(a, t["n"])); meta.append((t, a))
                if t.get("expect_found"):
                    info["planted_found"] += 1
            else:
                for s in r:
                    ident.append((t, a, s))
        # completeness clause (decided): planted vector admissible and pslq returned None -> failing input
        cans = Driver().ask(comp_lines) if comp_lines else []
        for (t, a), v in zip(comp_meta, cans):
            r = a.get("result")
            if v != "ok":
                comp["planted_not_admissible"] += 1
                continue
            if r is None:
                comp["none"] += 1
                c = [int(x) for x in t["plant"]]
                failing.append({"site": "identification.pslq[completeness]",
                                "what": "pslq returned None although the planted vector %s (max|c_k| = %d < maxcoeff = %d, Euclidean norm "
                                        "%.1f) passes the acceptance test |sum c_k x_k| <= tol*||x||_2 on the very inputs given; "
                                        "mp.prec = %d >= 3*n*log2(maxcoeff)+100" %
                                        (c, max(abs(x) for x in c), a["maxcoeff"], sum(x * x for x in c) ** 0.5, int(t["prec"])),
                                "input": {"task": {k: t[k] for k in t if k != "id"}, "x": a["xs"], "tol": a["tol"],
                                          "maxcoeff": a["maxcoeff"], "planted": c, "result": None}})
            elif _norm_rel(r) == _norm_rel(t["plant"]):
                comp["found_planted"] += 1
            else:
                comp["found_other_valid"] += 1        # validity is decided below with every other returned vector
        ans = Driver().ask(lines)
        for (t, a), v in zip(meta, ans):
            bump(t["kind"], "check:" + v)
            if t.get("complete") and v == "violates":
                comp["returned_invalid"] += 1
                comp["found_other_valid"] -= 1
            if len(samples) < 6 and v == "ok" and t["class"] in ("planted", "polyroot", "near-relation"):
                samples.append({"task": {k: t[k] for k in t if k != "id"}, "result": a["result"], "verdict": v})
            if v == "violates":
                what = ("pslq returned a vector that is not a relation within tol*||x||_2 / coefficient bound" if t["kind"] == "pslq"
                        else "findpoly returned a polynomial violating degree / coefficient bound / |P(x)| <= tol*||(1..x^d)||_2")
                inp = {"task": {k: t[k] for k in t if k != "id"}, "result": a["result"], "tol": a["tol"],
                       "maxcoeff": a["maxcoeff"], "x": a.get("xs", a.get("x")), "line": lines[meta.index((t, a))][:2000]}
                if t["kind"] == "findpoly" and a.get("xs_rounded") and len(a["result"]) <= t["n"] + 1:
                    # does the same vector pass against the ROUNDED powers the code gave to pslq?
                    l2 = rel_ops.pslq_line({"xs": a["xs_rounded"], "tol": a["tol"], "maxcoeff": a["maxcoeff"], "result": a["result"][::-1]})
                    v2 = Driver().ask([l2])[0]
                    inp["rounded_powers_ok"] = (v2 == "ok")
                    if v2 == "ok":
                        what = ("findpoly: |P(x)| exceeds tol*||(1,x..x^d)||_2 for the EXACT powers of x (the vector passes only against "
                                "the powers rounded to the working precision that were handed to pslq)")
                        bump("findpoly", "violates-only-with-exact-powers")
                failing.append({"site": "identification." + t["kind"], "what": what, "input": inp})
            elif v != "ok":
                dis.append({"name": "T2:" + t["kind"] + "chk", "op": t["kind"], "line": "malformed request", "impl": a["result"], "model": v})
        # identify: parse, evaluate, decide
        asts, wps, keep = [], [], []
        for t, a, s in ident:
            evaluations += 1
            try:
                ast = rel_ops.parse(s)
            except rel_ops.ParseError as e:
                bump("identify", "undecided:outside-grammar")
                continue
            asts.append(ast); wps.append(int(t["prec"]) + 60); keep.append((t, a, s))
        vals = rel_ops.eval_many(asts, wps) if asts else []
        for (t, a, s), v in zip(keep, vals):
            if isinstance(v, tuple) and v and v[0] == "undecided":
                bump("identify", "undecided:" + v[1][:40]); continue
            lo, hi = v
            x, tol = _frac(a["x"]), _frac(a["tol"])
            B0 = tol * max(1, abs(x))
            far = max(abs(lo - x), abs(hi - x))
            hb = "<=tol" if far <= B0 else ("<=2^5*tol" if far <= 32 * B0 else ("<=2^10*tol" if far <= 1024 * B0 else ">2^10*tol"))
            strict[hb] = strict.get(hb, 0) + 1
            if far > B0 and len(strict_examples) < 8:
                strict_examples.append({"expression": s, "ratio_to_tol_upper": float(far / B0), "task": {k: t[k] for k in t if k != "id"}})
            B = 1024 * B0
            if max(abs(lo - x), abs(hi - x)) <= B:
                bump("identify", "check:ok")
                if len(samples) < 9:
                    samples.append({"task": {k: t[k] for k in t if k != "id"}, "expression": s, "verdict": "ok"})
            elif x < lo - B or x > hi + B:
                bump("identify", "check:violates")
                err = min(abs(lo - x), abs(hi - x))
                inp = {"task": {k: t[k] for k in t if k != "id"}, "expression": s, "x": a["x"], "tol": a["tol"]}
                try:
                    inp["explanation"] = _explain_identify(s, x, tol, list(t.get("constants", [])), t["prec"])
                except Exception as e:  # noqa
                    inp["explanation"] = {"error": repr(e)[:100]}
                failing.append({"site": "identification.identify", "what": "expression %s differs from x by %.3g > 2^10*tol*max(1,|x|) = %.3g" % (s, float(err), float(B)),
                                "input": inp})
            else:
                bump("identify", "undecided:enclosure-straddles-bound")

    und = sum(v for k, d in stats.items() for kk, v in d.items() if kk.startswith("undecided") or kk == "timeout")
    cov = {
        "evaluations": evaluations,
        "distinct_nontrivial": len(distinct),
        "rule": "pslq: planted relations (x_n solved from a random small integer vector at 3*prec+200 bits, then all entries "
                "rounded to the working precision), planted relations with coefficients above maxcoeff, relations perturbed by "
                "tol*2^j (j=-6..6) around the acceptance threshold, generic non-relations (also with loose tolerances so that "
                "spurious vectors are returned), combinations of pi/e/log/sqrt, scaled by 2^+-k; completeness class: primitive planted "
                "relations with all |c_k| in [maxcoeff/2, maxcoeff), n=3..5, precision >= 3n*log2(maxcoeff)+100 (a None is a failing input); findpoly: rationals, quadratic surds, "
                "n-th roots, sqrt2+sqrt3, real roots of random integer polynomials of degree 2..6, transcendental numbers, requested "
                "degree true degree -1/0/+1; identify: 15 families over the constants pi, e, log(2), log(3), sqrt(2); a case is "
                "non-trivial and distinct when the real code RETURNED a result (keyed by exact inputs and result); every returned "
                "result is decided by the proved checkers / the verified evaluator",
        "samples": samples,
        "programs": 3,
        "disagreements_checked": len(failing) + len(dis),
        "outcomes": stats,
        "undecided": und,
        "identify_error_relative_to_tol_times_max1x": strict,
        "identify_beyond_strict_tolerance_examples": strict_examples,
        "completeness_decided": comp,
        "completeness_information": {k: (v if not isinstance(v, list) else {"count": len(v), "examples": v[:5]}) for k, v in info.items()},
        "input_distribution": g.hist,
        "traces_validated_against_impl": evaluations,
    }
    return {"coverage": cov, "failing_inputs": failing, "disagreements": dis}
