"""C31 — eigen and singular value decompositions satisfy their identities (verified residual checking).

The real routines (eig + eig_sort, eigsy, eighe, eigh, svd / svd_r / svd_c, schur, hessenberg, gauss_quadrature) run in
worker processes; outputs are read exactly and the residual identities are evaluated in exact Gaussian-dyadic
arithmetic by the compiled Lean checker (tolerances: linalg_ops.__doc__).
"""
import json
from fractions import Fraction
from common import *  # noqa
import linalg_ops as LA
import linalg_families as LF
from linalg_ops import MGen, Engine, tok, toks_of, flat, has_nonfinite, S

LEVEL = "translation_validation"
LEAN_MODULES = ["MpProofs.Cert", "MpProofs.CertResid", "Props.C31"]
ASSUMPTIONS = [
    "residual tolerance ||A||*2^(10-p) is read in the Frobenius norm: ||A V - V diag(E)||_F <= 2^(10-p) ||A||_F max(1,||V||_F), "
    "||Q T Q^H - A||_F <= 2^(10-p) ||A||_F, ||Q^H Q - I||_F <= 2^(10-p) sqrt(n); squared norms are compared exactly",
    "structure (triangular / Hessenberg zeros, real eigenvalues for Hermitian input, ordering, non-negative singular values) "
    "is checked exactly",
    "gauss_quadrature: normalised moments sum(w x^k)/sum(w) for k <= 2n-1 are compared with the exact rational moments "
    "m_k/m_0 of the weight (pi, sqrt(pi) cancel) within 2^(12-p)*max(1, |m_k/m_0|, sum |w x^k| / sum w) in exact rational "
    "arithmetic in the harness (not in Lean); the total weight m_0 is checked where it is rational (legendre, legendre01, "
    "laguerre, glaguerre and jacobi with integer parameters); hermite and chebyshev weights (sqrt(pi), pi) only through the ratios",
]

EIG_CLASSES = ["general", "general", "symmetric", "hermitian", "upper", "lower", "diagonal", "defective", "repeated",
               "zero_rows", "zero", "identity", "hilbert", "spd"]


# structured inputs (linalg_families): deflation / splitting branches of the QR iterations (exact or tiny zeros inside the
# Hessenberg form, block triangular / block diagonal, zero rows and columns, low rank) and the sign choices of the Householder
# reductions (graded, dominant diagonal, nearly triangular)
EIG_FAMILIES = ["hess_zeros", "hess_zeros", "hess_zeros", "block_tri", "block_tri", "block_diag", "graded_rows", "graded_cols",
                "graded_both", "diagdom", "near_upper", "near_lower", "zero_cols", "zero_rows", "dup", "lowrank", "bidiag", "sparse",
                "zero_diag"]
P_STRUCTURED = 0.25


def _mk(g, classes, max_n=8, structured=False):
    r = g.r
    p = g.prec()
    n = min(g.size(), max_n)
    if structured or r.random() < P_STRUCTURED:
        fam = r.choice(EIG_FAMILIES)
        cplx = r.random() < 0.4
        A = LF.hessenberg_zeros(g, n, p, cplx) if fam == "hess_zeros" else LF.rect_family(g, fam, n, n, p, cplx)
        g.note("class", "fam:" + fam)
        g.note("field", "complex" if cplx else "real")
        return p, n, "fam:" + fam, cplx, A
    cls = r.choice(classes)
    if cls == "hilbert":
        n = min(n, 6)
    cplx = r.random() < 0.4 and cls not in ("hilbert", "symmetric")
    if cls == "hermitian":
        cplx = True
    A = g.matrix(cls, n, p, cplx)
    g.note("class", cls)
    g.note("field", "complex" if cplx else "real")
    return p, n, cls, cplx, A


def _simple(site, cls, task, line_of, what, nontrivial=True):
    def lines(c, res):
        o = (res or {}).get("ok")
        if not o:
            return {}
        mats = [v for v in o.values() if isinstance(v, list)]
        if has_nonfinite(*[m for m in mats if m and isinstance(m[0], list)]):
            return {}
        return line_of(o)

    def judge(c, res, ans):
        if "exc" in res:
            return "violates", "%s raised %s: %s" % (site, res["exc"], res.get("msg"))
        if not ans:
            return "violates", "non-finite entries or wrong shapes in the output"
        bad = {k: v for k, v in ans.items() if v != "V:ok"}
        if not bad:
            return "ok", None
        return "violates", what + ": " + json.dumps(bad)
    return {"task": task, "site": site, "cls": cls, "lines": lines, "judge": judge, "nontrivial": nontrivial}


def case_eig(g, structured=False):
    p, n, cls, cplx, A = _mk(g, EIG_CLASSES, structured=structured)
    srt = g.r.choice([None, None, "real", "imag", "abs"])
    g.note("eig_sort", srt)
    task = {"op": "eig", "prec": p, "cplx": cplx, "A": toks_of(A), "sort": srt}
    At = flat(task["A"])

    def line_of(o):
        if len(o["E"]) != n or len(o["ER"]) != n or len(o["EL"]) != n:
            return {}
        ls = {"right": "cert_eig %d %d %s %s %s" % (n, p, At, flat(o["ER"]), flat(o["E"])),
              "left": "cert_eigl %d %d %s %s %s" % (n, p, At, flat(o["EL"]), flat(o["E"]))}
        return ls
    c = _simple("eigen.eig", cls, task, line_of, "eigen residual too large", n >= 2)
    if srt:
        base = c["judge"]

        def judge(cc, res, ans):
            st, what = base(cc, res, ans)
            if st != "ok":
                return st, what
            E = [LA.frac(LA.untok(t[0])) for t in res["ok"]["E"]]
            if srt == "real":
                key = [e[0] for e in E]
            elif srt == "imag":
                key = [e[1] for e in E]
            else:
                key = [e[0] * e[0] + e[1] * e[1] for e in E]
            # abs() is rounded to p bits before the comparison inside eig_sort: allow that much slack (on squares)
            slack = (1 + Fraction(2) ** (4 - p)) ** 2 if srt == "abs" else 1
            if any(key[i] > key[i + 1] * slack and key[i] > key[i + 1] for i in range(len(key) - 1)):
                return "violates", "eig_sort(f=%r) did not sort ascending" % srt
            return "ok", None
        c["judge"] = judge
    return c


def case_eigh(g, structured=False):
    r = g.r
    op = r.choice(["eigsy", "eighe", "eigh", "eigh"])
    cls = "fam" if structured else r.choice(["symmetric", "symmetric", "hermitian", "spd", "repeated_sym", "diagonal", "zero", "identity", "hilbert", "zero_rows_sym",
                                                    "fam", "fam", "fam"])
    p = g.prec()
    n = g.size()
    cplx = False
    if cls == "hilbert":
        n = min(n, 6)
    if cls == "hermitian":
        cplx = True
    if cls == "spd":
        cplx = r.random() < 0.4
    if cls == "fam":
        cplx = r.random() < 0.4 and op != "eigsy"
        cls = "fam:" + r.choice(LF.SYM_FAMILIES)
        A = LF.sym_family(g, cls[4:], n, p, cplx)
    elif cls == "zero_rows_sym":
        A = g.matrix("symmetric", n, p, False)
        for i in r.sample(range(n), r.randint(1, max(1, n // 2))):
            for j in range(n):
                A[i][j] = S(0)
                A[j][i] = S(0)
    elif cls == "diagonal":
        A = g.matrix("diagonal", n, p, False)
    else:
        A = g.matrix(cls, n, p, cplx)
    if op == "eigsy" and LA.is_cplx_matrix(A):
        op = "eighe"
    if op == "eighe" and not cplx:
        cplx = True      # real symmetric data given as mpc entries
    g.note("class", "h:" + cls)
    g.note("field", "complex" if cplx else "real")
    task = {"op": op, "prec": p, "cplx": cplx, "A": toks_of(A)}
    At = flat(task["A"])

    def line_of(o):
        if len(o["E"]) != n or len(o["Q"]) != n:
            return {}
        return {"cert": "cert_eigh %d %d %s %s %s" % (n, p, At, flat(o["Q"]), flat(o["E"]))}
    return _simple("eigen_symmetric." + op, "h:" + cls, task, line_of, "symmetric eigen decomposition fails", n >= 2)


SVD_FAMILIES = ["bidiag", "bidiag", "bidiag", "zero_cols", "zero_cols", "zero_rows", "sparse", "sparse", "dup", "lowrank",
                "block_tri", "block_diag", "graded_rows", "graded_cols", "graded_both", "diagdom", "near_upper", "near_lower", "zero_diag"]


def case_svd(g, structured=False):
    r = g.r
    p = g.prec()
    m = g.size()
    n = g.size()
    cplx = r.random() < 0.4
    cls = "fam" if structured else r.choice(["general", "general", "rankdef", "zero", "diagonal", "zero_rows", "fam", "fam", "fam"])
    kind = g.kind()
    if cls == "fam":
        # branches of the Golub-Reinsch iteration selected by the data: negligible diagonal entry of the bidiagonal form (the
        # "cancellation" sweep, with U accumulated) at the first / an interior / the last position, negligible super-diagonal
        # entries (splitting), zero-shift and z == 0 rotations; and the sign choices of the two-sided Householder reduction
        cls = "fam:" + r.choice(SVD_FAMILIES)
        if cls == "fam:bidiag" and r.random() < 0.6:
            m = n = max(m, n, 3)
        A = LF.rect_family(g, cls[4:], m, n, p, cplx, kind)
    else:
        A = g.rect(m, n, kind, p, cplx)
    if cls == "rankdef" and min(m, n) >= 2:
        if n >= 2:
            for i in range(m):
                A[i][n - 1] = A[i][0]
    elif cls == "zero":
        A = [[S(0)] * n for _ in range(m)]
    elif cls == "diagonal":
        A = [[A[i][j] if i == j else S(0) for j in range(n)] for i in range(m)]
    elif cls == "zero_rows":
        A[r.randrange(m)] = [S(0)] * n
    op = r.choice(["svd", "svd", "svd_c" if cplx else "svd_r"])
    full = r.random() < 0.3
    g.note("class", "svd:" + cls)
    g.note("field", "complex" if cplx else "real")
    task = {"op": op, "prec": p, "cplx": cplx, "A": toks_of(A), "full": full}
    At = flat(task["A"])
    k = min(m, n)

    def line_of(o):
        U, Sg, V = o["U"], o["S"], o["V"]
        if len(Sg) != k or len(U) != m or len(V[0]) != n:
            return {}
        ls = {}
        if full:
            if len(U[0]) != m or len(V) != n:
                return {}
            ls["orthUfull"] = "cert_orth %d %d %d %s" % (m, m, p, flat(U))
            ls["orthVfull"] = "cert_orth %d %d %d %s" % (n, n, p, flat(V))
            U = [row[:k] for row in U]
            V = V[:k]
        elif len(U[0]) != k or len(V) != k:
            return {}
        ls["cert"] = "cert_svd %d %d %d %d %s %s %s %s" % (m, n, k, p, At, flat(U), flat(Sg), flat(V))
        return ls
    return _simple("eigen_symmetric." + op, "svd:" + cls, task, line_of, "svd fails", min(m, n) >= 2)


def case_schur(g, op, structured=False):
    p, n, cls, cplx, A = _mk(g, EIG_CLASSES, structured=structured)
    task = {"op": op, "prec": p, "cplx": cplx, "A": toks_of(A)}
    At = flat(task["A"])
    band = 0 if op == "schur" else 1

    def line_of(o):
        if len(o["Q"]) != n or len(o["T"]) != n:
            return {}
        return {"cert": "cert_schur %d %d %d %s %s %s" % (band, n, p, At, flat(o["Q"]), flat(o["T"]))}
    return _simple("eigen." + op, cls, task, line_of, op + " decomposition fails", n >= 2)


# ---- gauss_quadrature: exact normalised moments ----------------------------------------------------------------

def _rising(a, k):
    out = Fraction(1)
    for i in range(k):
        out *= (a + i)
    return out


def _jacobi_moment(a, b, k):
    from math import comb
    # (1-x)^a (1+x)^b x^k = sum_{i,j} C(a,i)(-1)^i C(b,j) x^(i+j+k);  int_{-1}^{1} x^t = 2/(t+1) for even t, 0 for odd t
    tot = Fraction(0)
    for i in range(a + 1):
        for j in range(b + 1):
            t = i + j + k
            if t % 2 == 0:
                tot += comb(a, i) * (-1) ** i * comb(b, j) * Fraction(2, t + 1)
    return tot


def _moments(qtype, params, K):
    """list of m_k/m_0, k = 0..K-1, exact rationals, and m_0 if rational else None"""
    a = Fraction(params[0]) if params and qtype != "laguerre" else Fraction(0)
    b = Fraction(params[1]) if len(params) > 1 else Fraction(0)
    out = []
    if qtype in ("legendre", "legendre01", "chebyshev1", "chebyshev2", "jacobi", "hermite"):
        pass
    for k in range(K):
        if qtype == "legendre":          # w=1 on [-1,1]
            v = Fraction(0) if k % 2 else Fraction(1, k + 1)
        elif qtype == "legendre01":      # w=1 on [0,1]
            v = Fraction(1, k + 1)
        elif qtype == "hermite":         # exp(-x^2): m_{2j}/m_0 = (2j-1)!!/2^j
            if k % 2:
                v = Fraction(0)
            else:
                v = Fraction(1)
                for i in range(1, k, 2):
                    v *= Fraction(i, 2)
        elif qtype in ("laguerre", "glaguerre"):        # x^a exp(-x) on [0,inf): (a+1)_k   (a = 0 for "laguerre")
            v = _rising(a + 1, k)
        elif qtype == "jacobi":          # (1-x)^a (1+x)^b on [-1,1], integer a, b: expand and integrate exactly
            v = _jacobi_moment(int(a), int(b), k) / _jacobi_moment(int(a), int(b), 0)
        elif qtype == "chebyshev1":      # 1/sqrt(1-x^2): m_{2j}/m_0 = (2j-1)!!/(2j)!!
            if k % 2:
                v = Fraction(0)
            else:
                v = Fraction(1)
                for i in range(1, k, 2):
                    v *= Fraction(i, i + 1)
        elif qtype == "chebyshev2":      # sqrt(1-x^2): m_{2j}/m_0 = (2j-1)!!/(2j+2)!! * 2
            if k % 2:
                v = Fraction(0)
            else:
                v = Fraction(1)
                for i in range(1, k, 2):
                    v *= Fraction(i, i + 3)
        else:
            return None, None
        out.append(v)
    m0 = {"legendre": Fraction(2), "legendre01": Fraction(1), "laguerre": Fraction(1)}.get(qtype)
    if qtype == "glaguerre":
        m0 = _rising(Fraction(1), int(a))      # Gamma(1+a) = a!
    if qtype == "jacobi":
        m0 = _jacobi_moment(int(a), int(b), 0)
    return out, m0


def case_gauss(g):
    r = g.r
    p = g.prec()
    n = r.randint(1, 8)
    qtype = r.choice(["legendre", "legendre01", "hermite", "laguerre", "glaguerre", "chebyshev1", "chebyshev2", "jacobi"])
    params = []
    if qtype == "glaguerre":
        params = [r.choice([0, 1, 2, 3])]
    if qtype == "jacobi":
        params = [r.choice([0, 1, 2, 3]), r.choice([0, 1, 2])]
    g.note("class", "gauss:" + qtype)
    task = {"op": "gauss", "prec": p, "n": n, "qtype": qtype, "params": params}

    def lines(c, res):
        return {}

    def judge(c, res, ans):
        if "exc" in res:
            return "violates", "gauss_quadrature raised %s: %s" % (res["exc"], res.get("msg"))
        o = res["ok"]
        if has_nonfinite(o["x"], o["w"]) or len(o["x"]) != n or len(o["w"]) != n:
            return "violates", "non-finite nodes/weights or wrong length"
        xs = [LA.frac(LA.untok(t[0])) for t in o["x"]]
        ws = [LA.frac(LA.untok(t[0])) for t in o["w"]]
        if any(x[1] != 0 for x in xs) or any(w[1] != 0 for w in ws):
            return "violates", "complex nodes or weights"
        xs = [x[0] for x in xs]
        ws = [w[0] for w in ws]
        mom, m0 = _moments(qtype, params, 2 * n)
        if mom is None:
            return "na", "no exact moments for " + qtype
        W = sum(ws, Fraction(0))
        if W <= 0 or any(w <= 0 for w in ws):
            return "violates", "non-positive weights"
        tol = Fraction(2) ** (12 - p)
        if m0 is not None and abs(W - m0) > tol * m0:
            return "violates", "total weight differs from the exact m_0"
        for k in range(2 * n):
            terms = [w * x ** k for w, x in zip(ws, xs)]
            got = sum(terms, Fraction(0)) / W
            scale = max(Fraction(1), abs(mom[k]), sum((abs(t) for t in terms), Fraction(0)) / W)
            if abs(got - mom[k]) > tol * scale:
                return "violates", "normalised moment k=%d is off by more than 2^(12-p)*scale" % k
        return "ok", None
    return {"task": task, "site": "eigen_symmetric.gauss_quadrature", "cls": "gauss:" + qtype, "lines": lines, "judge": judge,
            "nontrivial": n >= 2}


PROGRAMS = ["eig", "eig_sort", "eigsy", "eighe", "eigh", "svd", "svd_r", "svd_c", "schur", "hessenberg", "gauss_quadrature"]


def build_cases(g, n_cases):
    r = g.r
    mk = [
        (10, lambda: case_eig(g)),
        (8, lambda: case_eigh(g)),
        (8, lambda: case_svd(g)),
        (5, lambda: case_schur(g, "schur")),
        (4, lambda: case_schur(g, "hessenberg")),
        (3, lambda: case_gauss(g)),
    ]
    tot = sum(w for w, _ in mk)
    cases = []
    for _ in range(n_cases):
        x = r.random() * tot
        for w, f in mk:
            x -= w
            if x < 0:
                cases.append(f())
                break
    return cases


def run(ctx):
    import_repo()
    g = MGen(ctx.seed * 1000003 + 31)
    eng = Engine(ctx, timeout=90.0)
    n_cases = 700 if ctx.quick else 9000
    if ctx.replay:
        rp = json.load(open(ctx.replay))
        fi = (rp.get("failing_input") or {}).get("input") or {}
        if fi.get("task"):
            print("replaying recorded task on the real code:", json.dumps(LA.replay_task(fi["task"]))[:2000])
    for c in build_cases(g, n_cases):
        eng.add(c)
    # structured families only (separate PRNG stream; these cases are cheap): data-selected branches of the iterations
    gs = MGen(ctx.seed * 1000003 + 3131)
    n_str = 500 if ctx.quick else 9000
    mk = [(9, lambda: case_svd(gs, True)), (4, lambda: case_eigh(gs, True)), (4, lambda: case_eig(gs, True)),
          (2, lambda: case_schur(gs, "schur", True)), (1, lambda: case_schur(gs, "hessenberg", True))]
    tot = sum(w for w, _ in mk)
    for _ in range(n_str):
        x = gs.r.random() * tot
        for w, f in mk:
            x -= w
            if x < 0:
                eng.add(f())
                break
    out = eng.run()
    for k, v in gs.hist.items():
        g.hist["structured:" + k] = v
    cov = LA.coverage_of(out, g,
        "cases from one seeded PRNG: classes general/symmetric/hermitian/upper/lower/diagonal/defective (Jordan blocks under a "
        "unimodular similarity)/repeated eigenvalues/zero rows/zero/identity/hilbert-like/SPD, sizes 1..8 (svd: m,n in 1..8), real and "
        "complex, int/bigint/dyadic/decimal entries, precisions 30..300, eig_sort orderings none/real/imag/abs, svd full and "
        "economy, gauss_quadrature n=1..8 for legendre/legendre01/hermite/laguerre/chebyshev1/chebyshev2; outputs read exactly, "
        "identities decided in exact arithmetic; non-trivial = size >= 2 and decided verdict; structured families "
        "(harness/linalg_families.py; a share of the main stream plus a batch of their own): rows/columns graded by 2^k or 10^k (gaps "
        "from 3 bits to beyond 2*prec; geometric, one outlier, two-level, shuffled, uniformly small/big), dominant diagonal, nearly "
        "triangular (other triangle * 2^-gap), zero columns/rows at first/interior/last position, repeated rows/columns (up to sign "
        "and 2^k), low rank, bidiagonal with exact or tiny (2^-gap) zeros on the diagonal/second diagonal at first/interior/last "
        "position (upper, lower, embedded in tall and wide shapes), Hessenberg with zero/tiny sub-diagonal entries, tridiagonal "
        "symmetric/Hermitian with zero/tiny off-diagonal entries, arrowhead, block triangular / block diagonal (also with a zero "
        "block), sparse small-integer, zero diagonal; complex variants with all-zero, tiny or single non-zero imaginary parts (real "
        "data on the complex code path)",
        len(PROGRAMS))
    cov["checker_requests"] = eng.nlines
    return {"coverage": cov, "failing_inputs": out["failing"], "disagreements": []}
