"""generic T1 collector for ops classes in the core_ops.py style (gen_<op>(g) -> (line, thunk, meta))"""
from common import *  # noqa


def collect(ops_obj, opnames, n, seed, call, gen=None):
    g = gen or Gen(seed)
    recs = []
    for i in range(n):
        op = opnames[i % len(opnames)]
        line, thunk, meta = getattr(ops_obj, "gen_" + op)(g)
        if isinstance(line, (list, tuple)):
            continue   # multi-line requests are handled by the module's own run_t1
        recs.append({"op": op, "line": line, "impl": call(thunk, meta.get("enc", enc_result)) if meta.get("enc") else call(thunk), "meta": meta})
    model = Driver().ask([r["line"] for r in recs])
    for r, m in zip(recs, model):
        r["model"] = m
    return recs, g


def hist_of(g):
    return {k: {str(a): b for a, b in v.items()} for k, v in g.hist.items()}
