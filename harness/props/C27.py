"""C27 — series, products, limits and extrapolation converge to the right value (proved closed-form references).

The real nsum (every acceleration method on the series shapes it is documented for), nprod, limit, sumem, sumap run in worker
subprocesses on members of the families Ser / Prd / Lim of lean/MpModel/CalcSer.lean; Props/C27.lean proves that the closed
form is the limit of the partial sums / products (Mathlib), and that the checker's verdict is a theorem about
|y - S| <= 2^(10-p) * |S|.  Index ranges: [a, inf) with shifted start, (-inf, b] (reflected summand), (-inf, inf) (two glued
one-sided series), finite ranges (exact rational reference), 2-D and 3-D products.  The Python transcription of every summand is
cross-checked exactly against the Lean term function.  mp.richardson and mp.difference-style tables: mp.richardson is compared with
the exact rational Lean model of the same code.
"""
import json, random
from fractions import Fraction
import calc_ops as CO
from calc_ops import rtok, dy_tokens, is_dy, ser_tokens, ser_start, prd_tokens, prd_start, lim_tokens
from calc_ops import poly_tokens, lin_tokens
from math import factorial, comb
import calc_cplx as CX

LEVEL = "translation_validation"
LEAN_MODULES = ["MpProofs.CalcRef", "MpProofs.CalcSer", "MpProofs.CalcLogicA", "Props.C27", "Props.C27sumem"]
ASSUMPTIONS = [
    "'accurate to within 2^(10-p) relative' is instantiated as |y - S| <= 2^(10-p) * |S|, p = mp.prec at the call",
    "an acceleration method is only requested on the series shapes mpmath documents it for: richardson / euler-maclaurin on "
    "p-series and telescoping rational summands, shanks on geometric-type and alternating series, levin on all, alternating "
    "(cohen_alt) on alternating series, direct on series with ratio <= 1/2 or factorial decay; the default method on all; "
    "geometric ratios |r| <= 9/10; in 2-D/3-D sums the factors are well conditioned (sum|t|/|sum t| <= 2^6: exp series with x >= -2, "
    "sin/cos series with |x| <= 2) because nsum's cancellation-driven precision increase only acts in one dimension; "
    "sumem is only requested for p-series / telescoping rational summands; a doubly infinite sum glues two one-sided series of the SAME class; sumem is called on a tail "
    "[a, inf) with a >= max(20, p/2) (the Euler-Maclaurin series is asymptotic) and compared with S - (exact head)",
    "sumem on polynomial summands P(k - s) over finite ranges [a, b] (degree <= 9, 2 <= b - a <= 30, exact rational reference "
    "polySumQ, Props/C27sumem.lean) is decided at 2^(10-p) on the inputs where sumem's documented stopping rule (reject = 10) does not "
    "fire before the last non-zero Euler-Maclaurin correction term: with T_k = B_(k+1)/(k+1)! * (P^(k)(b-s) - P^(k)(a-s)) computed "
    "exactly, T_k != 0 and |T_(k-2)| >= 16*|T_k| for every odd k with 5 <= k <= (order of the last non-zero term); the generator plants "
    "T_1 = 0 (or 0 < |T_1| < 2^(-p-10)) with T_3 != 0 in most cases; sum and evaluation are well conditioned "
    "(sum_i sum_j |c_j u_i^j| <= 2^6 |S|); inputs where the rule does fire early (T_3 = 0 or T_k = 0, k >= 5, before the last term, or a "
    "quotient below 10) are run too and reported under their own site",
    "sumem on tails [a, inf) (a as above) of c1*s1 + c2*s2 (+ c3*s3), s_i in {1/k^2, 1/k^4, 1/((k+m)(k+m+1))}, coefficients solved so "
    "that the summand's first derivative vanishes at a (first Euler-Maclaurin correction = 0, third != 0); reference = proved closed "
    "forms minus the exact head (linTailRef); only combinations with |c1 t1| + |c2 t2| (+ |c3 t3|) <= 4 |f| at k = a and k = 2a",
    "every sumem tail result (old and new classes) more than 2^(16-p) relative away from the reference is reported under the site "
    "sumem[beyond 2^(16-p)], which no known finding covers (the recorded loss of sumem on p-series tails is 2^(11..14-p))",
    "summands are evaluated by mpmath at the precision nsum sets; non-dyadic parameters are re-rounded at that precision",
    "the quantifier over series/ranges/precisions is sampled; the oracle (closed form + enclosure + comparison) is proved",
    "mp.richardson is compared with the exact rational model of its code (lean/MpModel/CalcLogicA.lean) within "
    "2^(12-p) * maxc * (N+1) * max|seq| (rounding of the weights), on exactly representable sequences",
    "complex-valued classes (harness/calc_cplx.py; summands 1/((k+c)(k+c+1)[(k+c+2)]), w r^k, (w0 + w1 k) r^k, "
    "(-1)^k (1/(k+c) + 1/(k+c+1)) with Gaussian-rational c, w, r, 1/4 <= |r| <= 3/4; products 1 - 1/(k+c)^2, 1 + 1/((k+c)(k+c+2)), "
    "(k+c)/(k+e); Moebius sequences and difference quotients of Gaussian polynomials): the reference is the exact Gaussian-rational "
    "value U(a) of the telescoped form term(k) = U(k) - U(k+1), U -> 0 (finite ranges: U(a) - U(b+1)), and "
    "|y - S| <= 2^(10-p) |S| (complex modulus) is decided in exact rational arithmetic in Python, not in Lean; the mpmath summand is "
    "cross-checked against U(k) - U(k+1) at 300 bits; admission of a case (conditioning sum|t| <= 2^6 |S|, 2^-8 <= |S| <= 2^8) uses floats",
    "methods on the complex classes follow the table of the real ones (power-law: richardson, levin, euler-maclaurin; geometric with "
    "non-real ratio: shanks, levin, sidi, direct for |r| <= 1/2; alternating: shanks, levin, sidi, alternating, richardson); levin_variant "
    "u / t / v / all (t not on power-law decay); no term of a series is zero (documented requirement of the Levin-type transforms)",
    "sumap: the summand f(z + a) is analytic in Re z >= 0 with poles at distance >= 1/4 from the imaginary axis and inside the cone "
    "|Im c| <= 2 (Re c + a) (outside it the tanh-sinh quadrature of the second integral does not resolve the near-pole on the imaginary "
    "axis: observed loss 10..190 bits, counted as a limitation of quad, C26); geometric-type summands only with `integral=` (docstring), "
    "the closed form of the integral evaluated with 30 guard bits",
    "doubly infinite nsum / nprod whose lower half runs over DESCENDING indices j < a1: 'regular' = every denominator has real part "
    "<= -1/4 on the range; the class with a denominator changing sign inside the range (pre-asymptotic bump) is run too, with its label in the input",
    "direct use of the classes: levin (levin / sidi, variants u, t, v; update, update_psum, step, step_psum, incremental update) on series "
    "on which the transform is exact (geometric series; 1/((k+c)(k+c+1)) for u, v), N <= 12 terms at working precision P, judged at "
    "2^(10+3N-P) (the recursion cancels ~2.3 bits per term; the docstring asks for 'very high working precision'); the degenerate points "
    "w_0 = w_1 of the u variant (ratio 1/2; c + a = 2) are excluded; shanks on A + a q^k (+ b s^k), judged on the column that is exact on "
    "the ansatz at 2^(14-P) (one transient) / 2^(24-P) (two, ratios >= 1/4 apart); cohen_alt on w (-q)^k, Re q >= 0, against the exact "
    "Cohen-Villegas-Zagier approximant w (d_n - T_n(1-2q)) / (d_n (1+q)) at 2^(14-P), and against the sum at 2^(10-P) once the exact "
    "approximation error is below 2^(-P-4); mp.richardson on complex sequences: see case_cx_richardson (the decimation rule compares z/|z|)",
]

PRECS = [30, 53, 53, 64, 100, 150, 200, 300]
RATIOS = [Fraction(n, d) for n, d in [(1, 2), (1, 3), (2, 3), (3, 4), (1, 4), (1, 10), (9, 10), (1, 8), (3, 5), (4, 5)]]


def gen_ser(r, classes=None):
    k = r.choice(classes or ["geom", "geom", "zeta2", "zeta4", "tele", "expS", "sinS", "cosS", "logS", "logS", "leibniz"])
    if k == "geom":
        q = r.choice(RATIOS) * r.choice([1, 1, -1])
        c = Fraction(r.choice([1, 1, 3, -2, 5]), r.choice([1, 1, 2, 3]))
        return {"ser": "geom", "c": rtok(c), "r": rtok(q), "k0": r.choice([0, 0, 1, 2, 5])}
    if k in ("zeta2", "zeta4", "leibniz"):
        return {"ser": k}
    if k == "tele":
        return {"ser": "tele", "a": r.choice([0, 0, 1, 3, 10])}
    if k == "expS":
        return {"ser": k, "x": rtok(Fraction(r.randint(-16, 16), r.choice([1, 2, 3])))}
    if k in ("sinS", "cosS"):
        return {"ser": k, "x": rtok(Fraction(r.randint(-12, 12), r.choice([1, 2, 3])))}
    if k == "logS":
        return {"ser": k, "x": rtok(r.choice(RATIOS) * r.choice([1, -1]))}
    raise ValueError(k)


def ser_class(d):
    k = d["ser"]
    if k == "geom":
        return "geo+" if Fraction(d["r"]) > 0 else "geo-"
    if k == "logS":
        return "geo+" if Fraction(d["x"]) > 0 else "geo-"
    if k in ("zeta2", "zeta4", "tele"):
        return "pser"
    if k in ("expS", "sinS", "cosS"):
        return "fact"
    return "calt"


def ratio_of(d):
    if d["ser"] == "geom":
        return abs(Fraction(d["r"]))
    if d["ser"] == "logS":
        return abs(Fraction(d["x"]))
    return None


def methods_for(d):
    c = ser_class(d)
    ms = {"geo+": [None, None, "shanks", "levin", "euler-maclaurin", "r+s", "s+l"],
          "geo-": [None, None, "shanks", "levin", "alternating", "r+s", "a+s"],
          "pser": [None, None, "richardson", "levin", "euler-maclaurin", "r+s+e", "r+l"],
          "fact": [None, None, "richardson", "shanks", "levin", "direct", "r+s"],
          "calt": [None, None, "shanks", "levin", "alternating", "richardson", "r+s"]}[c]
    q = ratio_of(d)
    if q is not None and q <= Fraction(1, 2):
        ms = ms + ["direct"]
    return ms


def fast(d):
    """summand classes cheap and well-conditioned enough for multi-dimensional sums (sum|t| / |sum t| <= 2^6)"""
    q = ratio_of(d)
    if q is not None:
        return q <= Fraction(2, 3)
    if d["ser"] == "expS":
        return -2 <= Fraction(d["x"]) <= 8
    if d["ser"] in ("sinS", "cosS"):
        return abs(Fraction(d["x"])) <= 2 and Fraction(d["x"]) != 0
    return False


def _judge(prec, st, what="relative error exceeds 2^(10-p)"):
    def judge(res, ans):
        a = ans.get("v")
        bad = []
        if res.get("prec_after") != prec:
            bad.append("working precision not restored (%s)" % res.get("prec_after"))
        if a is None:
            bad.append("non-real or non-finite result %s" % json.dumps(res.get("v")))
        elif a == "violates":
            bad.append(what)
        if bad:
            return "violates", "; ".join(bad)
        return ("ok", None) if a == "ok" else ("undecided", None)
    return judge


def _yline(res, fmt, prec):
    v = res["v"]
    y = v.get("re")
    if "im" in v or not is_dy(y):
        return {}
    return {"v": fmt % (dy_tokens(y), prec)}


def case_nsum(r, st, quick):
    shape = r.choices(["toinf", "fromneginf", "all", "finite", "inf_inf", "fin_inf", "fin_fin", "fin_fin_inf", "sumem", "sumap"],
                      weights=[34, 10, 10, 10, 8, 8, 5, 4, 6, 5])[0]
    prec = r.choice(PRECS)
    t = {"kind": "nsum", "shape": shape, "prec": prec, "timeout": 20 if quick else 120}
    if shape in ("toinf", "fromneginf"):
        d = gen_ser(r)
        t["sers"] = [d]
        t["method"] = r.choice(methods_for(d))
        if shape == "toinf":
            t["shift"] = r.choice([0, 0, 1, -3, 7, -ser_start(d) - 2])
        else:
            t["b"] = r.choice([0, -1, 4, -7])
        ref = "sersum inf %s" % ser_tokens(d)
    elif shape == "all":
        d1 = gen_ser(r)
        d2 = gen_ser(r)
        while ser_class(d2) != ser_class(d1):     # the two-sided summand f(k)+f(-k) must stay in ONE documented class
            d2 = gen_ser(r)
        t["sers"] = [d1, d2]
        common = [m for m in methods_for(d1) if m in methods_for(d2)]
        t["method"] = r.choice(common)
        ref = "sersum add inf %s inf %s" % (ser_tokens(d1), ser_tokens(d2))
    elif shape == "finite":
        d = gen_ser(r)
        # "equal the exact finite sum (up to rounding)": a relative criterion on the RESULT is only meaningful for well-conditioned
        # sums (sum|t| / |sum t| <= 2^6, as for the multi-dimensional shapes); exp/sin/cos summands with large |x| cancel by 2^20
        # and more, where every floating-point summation is off by eps * sum|t| (that is rounding, not a defect)
        while d["ser"] in ("expS", "sinS", "cosS") and not fast(d):
            d = gen_ser(r)
        a = ser_start(d) + r.choice([0, 0, 1, 3])
        b = a + r.choice([0, 1, 5, 20, 60, -1, -3])
        t["sers"] = [d]; t["a"], t["b"] = a, b
        t["method"] = r.choice([None, None, "direct", "richardson", "levin"])
        ref = "sersum fin %s %d %d" % (ser_tokens(d), a, max(b, 0))
        if b < a:
            ref = None   # empty range: exactly zero expected
    elif shape == "inf_inf":
        d1, d2 = gen_ser(r, ["geom", "expS", "logS", "cosS"]), gen_ser(r, ["geom", "expS", "sinS", "logS"])
        if not (fast(d1) and fast(d2)):
            d1 = {"ser": "geom", "c": "1", "r": "1/2", "k0": 0}
            d2 = {"ser": "expS", "x": "1"}
        t["sers"] = [d1, d2]; t["method"] = None
        t["prec"] = prec = r.choice([30, 53, 64, 100])
        ref = "sersum mul inf %s inf %s" % (ser_tokens(d1), ser_tokens(d2))
    elif shape == "fin_inf":
        d1, d2 = gen_ser(r), gen_ser(r)
        while not fast(d1) and d1["ser"] in ("expS", "sinS", "cosS"):
            d1 = gen_ser(r)
        while not fast(d2) and d2["ser"] in ("expS", "sinS", "cosS"):
            d2 = gen_ser(r)
        a = ser_start(d1) + r.choice([0, 1]); b = a + r.choice([0, 2, 6])
        t["sers"] = [d1, d2]; t["a"], t["b"] = a, b; t["swap"] = r.random() < 0.4
        t["method"] = r.choice(methods_for(d2))
        ref = "sersum mul fin %s %d %d inf %s" % (ser_tokens(d1), a, b, ser_tokens(d2))
    elif shape == "fin_fin":
        d1, d2 = gen_ser(r), gen_ser(r)
        # same conditioning rule as for the one-dimensional finite shape (see there)
        while d1["ser"] in ("expS", "sinS", "cosS") and not fast(d1):
            d1 = gen_ser(r)
        while d2["ser"] in ("expS", "sinS", "cosS") and not fast(d2):
            d2 = gen_ser(r)
        a = ser_start(d1); b = a + r.choice([0, 3, 9]); a2 = ser_start(d2) + 1; b2 = a2 + r.choice([0, 2, 7])
        t["sers"] = [d1, d2]; t.update(a=a, b=b, a2=a2, b2=b2); t["method"] = None
        ref = "sersum mul fin %s %d %d fin %s %d %d" % (ser_tokens(d1), a, b, ser_tokens(d2), a2, b2)
    elif shape == "fin_fin_inf":
        d1 = gen_ser(r, ["geom", "tele", "zeta2"]); d2 = gen_ser(r, ["geom", "expS", "logS"])
        if not fast(d2):
            d2 = {"ser": "expS", "x": "-1/2"}
        a = ser_start(d1); b = a + r.choice([0, 2]); a2 = a + 1; b2 = a2 + r.choice([0, 3])
        t["sers"] = [d1, d2]; t.update(a=a, b=b, a2=a2, b2=b2); t["method"] = None
        t["prec"] = prec = r.choice([30, 53, 64])
        ref = "sersum mul fin %s %d %d mul fin %s %d %d inf %s" % (ser_tokens(d1), a, b, ser_tokens(d1), a2, b2, ser_tokens(d2))
    elif shape == "sumem":
        d = gen_ser(r, ["zeta2", "zeta4", "tele"])
        t["sers"] = [d]
        a = max(20, prec // 2) + r.choice([0, 1, 5])        # Euler-Maclaurin is asymptotic: documented use is on a tail
        t["a"] = a
        ref = "sersum sub inf %s fin %s %d %d" % (ser_tokens(d), ser_tokens(d), ser_start(d), a - 1)
    else:  # sumap: analytic summands, start 0 or 1
        d = gen_ser(r, ["zeta2", "zeta4", "tele"])
        t["sers"] = [d]
        ref = "sersum inf %s" % ser_tokens(d)
    st.note("nsum_shape", shape); st.note("method", t.get("method") or "default"); st.note("prec", prec)
    for d in t["sers"]:
        st.note("series", d["ser"]); st.note("class", ser_class(d))
    sers = t["sers"]

    def lines(res):
        out = {}
        v = res["v"]; y = v.get("re")
        if "im" not in v and is_dy(y):
            if isinstance(ref, str):
                out["v"] = "%s %s %d 10" % (ref, dy_tokens(y), prec)
                out["v13"] = "%s %s %d 13" % (ref, dy_tokens(y), prec)
                if shape == "sumem":
                    out["v16"] = "%s %s %d 16" % (ref, dy_tokens(y), prec)
        # transcription cross-check
        for i, d in enumerate(sers):
            for j in range(len(res["terms"][i])):
                out["t%d_%d" % (i, j)] = "serterm %s %d" % (ser_tokens(d), ser_start(d) + j)
        return out

    base_judge = _judge(prec, st)

    def judge(res, ans):
        # transcription: python summand at prec 300 vs exact Lean term
        for i, d in enumerate(sers):
            for j, tv in enumerate(res["terms"][i]):
                a = ans.get("t%d_%d" % (i, j), "")
                if not a.startswith("Q:") or not is_dy(tv.get("re")):
                    return "undecided", None
                q = Fraction(a[2:])
                y = CO.dy_fraction(tv["re"])
                if abs(y - q) > abs(q) * Fraction(1, 2 ** 280):
                    st.note("transcription_mismatch", json.dumps(d))
                    return "undecided", "transcription mismatch"
        if ref is None:
            v = res["v"]
            if v.get("re") == [0, 0] and "im" not in v:
                return "ok", None
            return "violates", "empty range b < a must give exactly 0, got %s" % json.dumps(v)
        v_, w_ = base_judge(res, ans)
        if v_ == "violates" and ans.get("v") == "violates":
            if shape == "sumem" and ans.get("v13") == "ok":
                return v_, w_ + " (but within 2^(13-p))", "calculus.extrapolation.sumem[within 2^(13-p)]"
            if shape == "sumem" and ans.get("v16") == "violates":
                return v_, w_ + " (and exceeds 2^(16-p))", "calculus.extrapolation.sumem[beyond 2^(16-p)]"
            if prec < 40 and shape not in ("sumem", "sumap"):
                return v_, w_, "calculus.extrapolation.nsum[prec<40]"
            if any(ratio_of(d) is not None and ratio_of(d) >= Fraction(4, 5) for d in sers) and shape not in ("sumem", "sumap"):
                return v_, w_, "calculus.extrapolation.nsum[geometric,|r|>=4/5]"
        return v_, w_

    site = "calculus.extrapolation.nsum[%s]" % shape
    if shape in ("sumem", "sumap"):
        site = "calculus.extrapolation.%s" % shape
    return {"task": t, "site": site, "lines": lines, "judge": judge, "nontrivial": True, "report_timeout": False}


# ---------------------------------------------------------------------------------------------------------------------
# sumem: summands whose FIRST Euler-Maclaurin correction term vanishes (or is negligible) while later ones are not
# ---------------------------------------------------------------------------------------------------------------------

def bernoulli_numbers(n):
    """B_0 .. B_n as Fractions (B_1 = -1/2)"""
    B = []
    for m in range(n + 1):
        B.append(Fraction(1) if m == 0 else -sum(comb(m + 1, k) * B[k] for k in range(m)) / (m + 1))
    return B


BERN = bernoulli_numbers(12)


def poly_eval(ts, x):
    return sum((Fraction(c) * Fraction(x) ** n for c, n in ts), Fraction(0))


def poly_deriv(ts, j):
    return [(Fraction(c) * (factorial(n) // factorial(n - j)), n - j) for c, n in ts if n >= j]


def em_terms(ts, ua, ub):
    """exact Euler-Maclaurin correction terms T_k = B_(k+1)/(k+1)! * (P^(k)(ub) - P^(k)(ua)), k = 1, 3, .., 11"""
    out = {}
    for k in range(1, 12, 2):
        dk = poly_deriv(ts, k)
        out[k] = BERN[k + 1] / factorial(k + 1) * (poly_eval(dk, ub) - poly_eval(dk, ua))
    return out


def em_class(T):
    """how sumem's loop (extrapolation.py: terms k = 1, 3 are always added; from k = 5 on the loop stops when |T_k| < tol or when
    |T_(k-2)|/|T_k| < reject = 10) meets the exact terms.  Returns (label, last) with label in
       regular     the stopping rule cannot fire before the last non-zero term (quotients >= 16)
       fires-early a zero term or a quotient < 10 occurs at some k in 5..last  (documented heuristic stop / false convergence)
       borderline  a quotient in [10, 16)  (not used)"""
    nz = [k for k in T if T[k] != 0]
    last = max(nz) if nz else 0
    label = "regular"
    for k in range(5, last + 1, 2):
        if T[k] == 0 or abs(T[k - 2]) < 10 * abs(T[k]):
            return "fires-early", last
        if abs(T[k - 2]) < 16 * abs(T[k]):
            label = "borderline"
    return label, last


def gen_sumem_poly(r, prec):
    """P (term list in u = k - s), s, a, b with a planted vanishing odd-order correction term"""
    for _ in range(200):
        plant = r.choices([1, 1, 1, 1, 1, 1, "tiny1", 3, 5, None], weights=[1, 1, 1, 1, 1, 1, 1, 1, 1, 2])[0]
        L = r.randint(2, 30)
        a = r.randint(-40, 40)
        s = a + r.choice([0, 0, 0, -1, 1, L // 2])
        j = plant if isinstance(plant, int) else 1
        dmax = 9 if j == 5 else 7
        d = r.randint(max(2, j + 1), dmax)
        g = {}
        for n in range(d + 1):
            if r.random() < 0.6 or n == d:
                c = Fraction(r.randint(-9, 9), r.choice([1, 1, 1, 2, 4, 3]))
                if c:
                    g[n] = c
        if not g or max(g) < 2:
            continue
        ua, ub = a - s, a - s + L
        if plant is not None:
            m = r.randint(j + 1, dmax)
            ts0 = sorted(g.items())
            Dg = poly_eval(poly_deriv([(c, n) for n, c in ts0], j), ub) - poly_eval(poly_deriv([(c, n) for n, c in ts0], j), ua)
            Dm = poly_eval(poly_deriv([(1, m)], j), ub) - poly_eval(poly_deriv([(1, m)], j), ua)
            if Dm == 0:
                continue
            g[m] = g.get(m, Fraction(0)) - Dg / Dm
            if plant == "tiny1":
                # a first-derivative difference that is non-zero but far below the tolerance
                D2 = 2 * (ub - ua)
                g[2] = g.get(2, Fraction(0)) + Fraction(r.choice([-1, 1]), 2 ** (prec + r.randint(14, 40))) / D2
            g = {n: c for n, c in g.items() if c}
        ts = [(c, n) for n, c in sorted(g.items())]
        if not ts:
            continue
        T = em_terms(ts, ua, ub)
        label, last = em_class(T)
        if label == "borderline":
            continue
        if plant in (1, "tiny1") and (last < 3 or T[3] == 0):
            continue                      # the planted class needs a non-negligible later term
        vals = [poly_eval(ts, ua + i) for i in range(L + 1)]
        S = sum(vals)
        A = sum(sum(abs(Fraction(c)) * abs(Fraction(ua + i)) ** n for c, n in ts) for i in range(L + 1))
        if S == 0 or A > 64 * abs(S):
            continue
        if plant == "tiny1" and not (0 < abs(T[1]) < Fraction(1, 2 ** (prec + 10))):
            continue
        vanish = [k for k in range(1, last, 2) if T[k] == 0]
        return {"ts": ts, "s": s, "a": a, "b": a + L, "plant": str(plant), "label": label, "last": last, "vanish": vanish,
                "tiny1": plant == "tiny1"}
    raise RuntimeError("gen_sumem_poly: no admissible polynomial")


def case_sumem_poly(r, st, quick):
    prec = r.choice(PRECS)
    d = gen_sumem_poly(r, prec)
    ts, s, a, b = d["ts"], d["s"], d["a"], d["b"]
    t = {"kind": "nsum", "shape": "sumem_poly", "prec": prec, "timeout": 20 if quick else 120,
         "poly": [[rtok(c), n] for c, n in ts], "s": s, "a": a, "b": b,
         "em_class": d["label"], "vanishing_correction_orders": d["vanish"], "last_nonzero_order": d["last"]}
    cls = ("first-term-tiny" if d["tiny1"] else ("first-term-vanishes" if d["vanish"] == [1] else
           ("generic" if not d["vanish"] else "orders%s-vanish" % d["vanish"])))
    st.note("nsum_shape", "sumem_poly"); st.note("prec", prec); st.note("sumem_poly_class", "%s/%s" % (d["label"], cls))
    st.note("sumem_poly_degree", max(n for _, n in ts))
    pt = poly_tokens(ts)
    n = b - a

    def lines(res):
        out = {}
        v = res["v"]; y = v.get("re")
        if "im" not in v and is_dy(y):
            out["v"] = "polysum %s %d %d %s %d 10" % (pt, a - s, n, dy_tokens(y), prec)
        for j_ in range(len(res["terms"][0])):
            out["t%d" % j_] = "polysumq %s %d 0" % (pt, a - s + j_)
        for k in (1, 3, 5):
            out["d%d" % k] = "polyddiff %s %d %d %d" % (pt, k, a - s, b - s)
        return out

    base = _judge(prec, st)

    def judge(res, ans):
        # transcription: python summand at prec 300 vs the exact Lean value; class label: python Fractions vs the Lean derivative differences
        for j_, tv in enumerate(res["terms"][0]):
            q_ = ans.get("t%d" % j_, "")
            if not q_.startswith("Q:") or not is_dy(tv.get("re")):
                return "undecided", None
            q = Fraction(q_[2:]); y = CO.dy_fraction(tv["re"])
            scale = sum(abs(Fraction(c)) * abs(Fraction(a - s + j_)) ** n_ for c, n_ in ts)
            if q != poly_eval(ts, a - s + j_) or abs(y - q) > scale * Fraction(1, 2 ** 280):
                st.note("transcription_mismatch", json.dumps(t["poly"]))
                return "undecided", "transcription mismatch"
        for k in (1, 3, 5):
            q_ = ans.get("d%d" % k, "")
            dk = poly_deriv(ts, k)
            if not q_.startswith("Q:") or Fraction(q_[2:]) != poly_eval(dk, b - s) - poly_eval(dk, a - s):
                st.note("transcription_mismatch", "derivative difference order %d %s" % (k, json.dumps(t["poly"])))
                return "undecided", "class label mismatch"
        v_, w_ = base(res, ans)
        if v_ == "violates" and d["label"] == "fires-early":
            return v_, w_, "calculus.extrapolation.sumem[polynomial,stopping-rule-fires-before-last-term]"
        return v_, w_

    return {"task": t, "site": "calculus.extrapolation.sumem[polynomial]", "lines": lines, "judge": judge, "nontrivial": True,
            "report_timeout": False}


def _ser_deriv_at(d, a):
    """exact first derivative of the summand (as a function of a real index) at the integer a"""
    k = d["ser"]
    if k == "zeta2":
        return Fraction(-2, a ** 3)
    if k == "zeta4":
        return Fraction(-4, a ** 5)
    m = int(d["a"])
    return -Fraction(1, (a + m) ** 2) + Fraction(1, (a + m + 1) ** 2)


def _ser_deriv3_at(d, a):
    k = d["ser"]
    if k == "zeta2":
        return Fraction(-24, a ** 5)
    if k == "zeta4":
        return Fraction(-120, a ** 7)
    m = int(d["a"])
    return -Fraction(6, (a + m) ** 4) + Fraction(6, (a + m + 1) ** 4)


def _ser_term_at(d, k):
    if d["ser"] == "zeta2":
        return Fraction(1, k ** 2)
    if d["ser"] == "zeta4":
        return Fraction(1, k ** 4)
    m = int(d["a"])
    return Fraction(1, (k + m) * (k + m + 1))


def gen_sumem_lin(r, a):
    pool = [{"ser": "zeta2"}, {"ser": "zeta4"}, {"ser": "tele", "a": 0}, {"ser": "tele", "a": 1}, {"ser": "tele", "a": 3},
            {"ser": "tele", "a": 10}]
    for _ in range(400):
        m = r.choice([2, 2, 3])
        ds = r.sample(pool, m)
        cs = [Fraction(r.choice([1, 1, 2, 3, 5, -1, -2]), r.choice([1, 1, 2, 3])) for _ in range(m - 1)]
        dl = _ser_deriv_at(ds[-1], a)
        cl = -sum(c * _ser_deriv_at(d, a) for c, d in zip(cs, ds)) / dl
        cs.append(cl)
        if cl == 0:
            continue
        lin = list(zip(cs, ds))
        if sum(c * _ser_deriv_at(d, a) for c, d in lin) != 0:
            continue
        if sum(c * _ser_deriv3_at(d, a) for c, d in lin) == 0:
            continue
        ok = True
        for k in (a, 2 * a):
            f = sum(c * _ser_term_at(d, k) for c, d in lin)
            if f == 0 or sum(abs(c * _ser_term_at(d, k)) for c, d in lin) > 4 * abs(f):
                ok = False
        if ok:
            return lin
    raise RuntimeError("gen_sumem_lin: no admissible combination")


def case_sumem_lin(r, st, quick):
    prec = r.choice(PRECS)
    a = max(20, prec // 2) + r.choice([0, 1, 5])
    lin = gen_sumem_lin(r, a)
    t = {"kind": "nsum", "shape": "sumem_lin", "prec": prec, "timeout": 20 if quick else 120,
         "lin": [[rtok(c), d] for c, d in lin], "a": a}
    st.note("nsum_shape", "sumem_lin"); st.note("prec", prec)
    st.note("sumem_lin_members", "+".join(sorted(d["ser"] for _, d in lin)))
    lt = lin_tokens(lin)

    def lines(res):
        out = {}
        v = res["v"]; y = v.get("re")
        if "im" not in v and is_dy(y):
            for k in (10, 13, 16):
                out["v%d" % k if k != 10 else "v"] = "lintail %s 1 %d %s %d %d" % (lt, a, dy_tokens(y), prec, k)
        for j_ in range(len(res["terms"][0])):
            out["t%d" % j_] = "linterm %s %d" % (lt, a + j_)
        return out

    base = _judge(prec, st)

    def judge(res, ans):
        for j_, tv in enumerate(res["terms"][0]):
            q_ = ans.get("t%d" % j_, "")
            if not q_.startswith("Q:") or not is_dy(tv.get("re")):
                return "undecided", None
            q = Fraction(q_[2:]); y = CO.dy_fraction(tv["re"])
            scale = sum(abs(c * _ser_term_at(d, a + j_)) for c, d in lin)
            if q != sum(c * _ser_term_at(d, a + j_) for c, d in lin) or abs(y - q) > scale * Fraction(1, 2 ** 280):
                st.note("transcription_mismatch", json.dumps(t["lin"]))
                return "undecided", "transcription mismatch"
        v_, w_ = base(res, ans)
        if v_ == "violates" and ans.get("v") == "violates":
            # the recorded loss of sumem on p-series tails (known findings F-C27-SUMEM, F-C27-SUMEM2) is 2^(11..14-p)
            if ans.get("v13") == "ok":
                return v_, w_ + " (but within 2^(13-p))", "calculus.extrapolation.sumem[within 2^(13-p)]"
            if ans.get("v16") == "ok":
                return v_, w_ + " (but within 2^(16-p))", "calculus.extrapolation.sumem"
            if ans.get("v16") == "violates":
                return v_, w_ + " (and exceeds 2^(16-p))", "calculus.extrapolation.sumem[beyond 2^(16-p)]"
        return v_, w_

    return {"task": t, "site": "calculus.extrapolation.sumem[first-derivative-vanishes-at-start]", "lines": lines, "judge": judge,
            "nontrivial": True, "report_timeout": False}


def case_nprod(r, st, quick):
    shape = r.choices(["toinf", "fromneginf", "finite"], weights=[50, 20, 30])[0]
    prec = r.choice(PRECS)
    t = {"kind": "nprod", "shape": shape, "prec": prec, "timeout": 20 if quick else 120}
    if shape == "finite":
        d = r.choice([{"prd": "tele1"}, {"prd": "tele2"}, {"prd": "ratio", "a": r.randint(0, 5), "b": r.randint(0, 5)}])
        a = prd_start(d) + r.choice([0, 1, 4]); b = a + r.choice([0, 1, 7, 30])
        t.update(prd=d, a=a, b=b)
        ref = "prdfin %s %d %d" % (prd_tokens(d), a, b)
    else:
        d = r.choice([{"prd": "tele1"}, {"prd": "tele2"}])
        t["prd"] = d
        t["method"] = r.choice([None, None, "richardson", "levin", "r+s"])
        t["nsum"] = r.random() < 0.25
        if shape == "toinf":
            t["shift"] = r.choice([0, 0, 2, -5])
        else:
            t["b"] = r.choice([0, -1, 3, -4])
        ref = "prdinf %s" % prd_tokens(d)
    st.note("nprod_shape", shape); st.note("prec", prec); st.note("product", d["prd"])

    def lines(res):
        out = _yline(res, ref + " %s %d 10", prec)
        for j in range(len(res["terms"][0])):
            out["t%d" % j] = "prdterm %s %d" % (prd_tokens(d), prd_start(d) + j)
        return out

    base = _judge(prec, st)

    def judge(res, ans):
        for j, tv in enumerate(res["terms"][0]):
            a = ans.get("t%d" % j, "")
            if not a.startswith("Q:") or not is_dy(tv.get("re")):
                return "undecided", None
            q = Fraction(a[2:]); y = CO.dy_fraction(tv["re"])
            if abs(y - q) > abs(q) * Fraction(1, 2 ** 280):
                st.note("transcription_mismatch", json.dumps(d))
                return "undecided", "transcription mismatch"
        return base(res, ans)

    return {"task": t, "site": "calculus.extrapolation.nprod[%s]" % shape, "lines": lines, "judge": judge,
            "nontrivial": True, "report_timeout": False}


def case_limit(r, st, quick):
    prec = r.choice(PRECS)
    k = r.choice(["ratSeq", "ratSeq", "euler", "slopeExp", "slopeSin"])
    if k == "ratSeq":
        d = {"lim": k, "a": rtok(Fraction(r.randint(-9, 9), r.choice([1, 2, 3]))), "b": rtok(r.randint(-9, 9)),
             "c": rtok(Fraction(r.choice([-3, -2, -1, 1, 2, 3, 7]), r.choice([1, 2]))), "d": rtok(r.randint(1, 9))}
        if Fraction(d["a"]) == 0:
            d["a"] = "1"
        if Fraction(d["c"]) < 0:      # keep the pole -d/c away from the sampled points x = 1, 2, 3, ...
            d["d"] = rtok(-Fraction(r.randint(1, 9), 2) + Fraction(1, 4))
    elif k == "euler":
        d = {"lim": k, "t": rtok(Fraction(r.randint(-6, 6), r.choice([1, 2, 3])))}
    else:
        d = {"lim": k, "c": rtok(Fraction(r.choice([-5, -3, -2, -1, 1, 2, 3, 5]), r.choice([1, 2, 3])))}
    t = {"kind": "limit", "lim": d, "prec": prec, "timeout": 20 if quick else 120,
         "method": r.choice([None, None, None, "richardson", "levin", "r+s"]), "exp": (k == "euler" and r.random() < 0.5)}
    if k in ("slopeExp", "slopeSin"):
        t["direction"] = r.choice([1, 1, -1])
    st.note("limit", k); st.note("prec", prec)
    ref = "limcheck %s" % lim_tokens(d)
    return {"task": t, "site": "calculus.extrapolation.limit[%s]" % k, "lines": lambda res: _yline(res, ref + " %s %d 10", prec),
            "judge": _judge(prec, st), "nontrivial": True, "report_timeout": False}


def case_richardson(r, st, quick):
    """T1: mp.richardson vs the exact rational model of its code"""
    prec = r.choice([100, 150, 200, 300])
    n = r.randint(3, 14)
    kind_ = r.choice(["rational", "alternating", "random"])
    seq = []
    for i in range(n):
        if kind_ == "rational":
            q = Fraction(3) + Fraction(2 ** 20 // (i + 1), 2 ** 20) + Fraction(2 ** 20 // (i + 1) ** 2, 2 ** 19)
        elif kind_ == "alternating":
            q = Fraction(1) + Fraction((-1) ** i * (2 ** 16 // (i + 1)), 2 ** 16)
        else:
            q = Fraction(r.randint(-2 ** 12, 2 ** 12), 2 ** 8)
        seq.append(q)
    t = {"kind": "richardson", "prec": prec, "seq": [rtok(q) for q in seq], "timeout": 10}
    st.note("richardson_seq", kind_)

    def lines(res):
        return {"m": "richardson " + " ".join(rtok(q) for q in seq)}

    def judge(res, ans):
        a = ans.get("m", "")
        if not a.startswith("Q:"):
            return "violates", "model raised %s but mp.richardson returned" % a
        va, ca = [Fraction(x[2:]) for x in a.split()]
        v, c = res["v"].get("re"), res["c"].get("re")
        if not (is_dy(v) and is_dy(c)):
            return "violates", "non-finite output"
        v, c = CO.dy_fraction(v), CO.dy_fraction(c)
        N = n // 2 - 1
        tol = Fraction(2) ** (12 - prec) * ca * (N + 2) * max(1, max(abs(q) for q in seq))
        if abs(v - va) > tol or abs(c - ca) > Fraction(2) ** (12 - prec) * ca * (N + 2):
            return "violates", "mp.richardson differs from the exact model: %s vs %s (maxc %s vs %s)" % (float(v), float(va), float(c), float(ca))
        return "ok", None

    return {"task": t, "site": "calculus.extrapolation.richardson[T1]", "lines": lines, "judge": judge, "nontrivial": n >= 4}


def run(ctx):
    r = random.Random(ctx.seed)
    st = CO.Stats()
    quick = ctx.quick
    n1, n2, n3, n4 = (330, 90, 90, 60) if quick else (5000, 1200, 1200, 600)
    n5, n6 = (48, 24) if quick else (1500, 700)
    cases = ([case_nsum(r, st, quick) for _ in range(n1)] + [case_nprod(r, st, quick) for _ in range(n2)] +
             [case_limit(r, st, quick) for _ in range(n3)] + [case_richardson(r, st, quick) for _ in range(n4)])
    # the additional sumem classes draw from their own generator stream so that the older streams are unchanged
    r2 = random.Random(ctx.seed * 7919 + 27)
    cases += [case_sumem_poly(r2, st, quick) for _ in range(n5)] + [case_sumem_lin(r2, st, quick) for _ in range(n6)]
    # complex-valued summand classes for every routine, and the extrapolation classes used directly (harness/calc_cplx.py): own stream
    r3 = random.Random(ctx.seed * 104729 + 2713)
    cases += CX.gen_cases(r3, st, quick)
    info, fails = CO.run_cases(cases, ctx, nworkers=6, default_timeout=20.0, budget_s=90 if quick else 3600)
    s = info["summary"]
    evaluations = sum(1 for c in cases if c.get("verdict") in ("ok", "violates", "undecided"))
    dis = []
    if "transcription_mismatch" in st.hist:
        dis.append({"name": "python-summand-vs-lean-term", "detail": st.hist["transcription_mismatch"]})
    cov = {
        "evaluations": evaluations,
        "distinct_nontrivial": info["distinct_nontrivial"],
        "programs": 10,    # nsum, nprod, limit, sumem (p-series tails, finite polynomial ranges, tails with vanishing first correction), sumap, richardson (T1), standardize, shanks, levin, cohen_alt
        "disagreements_checked": evaluations,
        "rule": "series/product/limit drawn from the proved families with rational parameters; index range shape, shift, method (restricted "
                "to the documented applicability) and precision drawn independently; non-trivial = the real routine returned a finite real "
                "value that the Lean checker decided against the proved closed form; every summand transcription is cross-checked exactly; "
                "complex-valued classes and the direct use of shanks / levin / cohen_alt: harness/calc_cplx.py (exact Gaussian-rational oracle)",
        "cases": s, "undecided": s.get("undecided", 0),
        "input_distribution": st.as_dict(),
        "samples": info["samples"][:4],
    }
    return {"coverage": cov, "failing_inputs": fails, "disagreements": dis}


import calc_findings3  # noqa: E402,F401  registers the known-finding predicates of the complex-valued / doubly infinite classes
