"""C27 — series, products, limits and extrapolation converge to the right value (proved closed-form references).

The real nsum (every acceleration method on the series shapes it is documented for), nprod, limit, sumem, sumap run in worker
subprocesses on members of the families Ser / Prd / Lim of lean/MpModel/CalcSer.lean; Props/C27.lean proves that the closed
form is the limit of the partial sums / products (Mathlib), and that the checker's verdict is a theorem about
|y - S| <= 2^(10-p) * |S|.  Index ranges: [a, inf) with shifted start, (-inf, b] (reflected summand), (-inf, inf) (two glued
one-sided series), finite ranges (exact rational reference), 2-D and 3-D products.  The Python transcription of every summand is
cross-checked exactly against the Lean term function.  mp.richardson and mp.difference-style tables: mp.richardson is compared with
the exact rational Lean model of the same code.
"""
import json, random
from fractions import Fraction
import calc_ops as CO
from calc_ops import rtok, dy_tokens, is_dy, ser_tokens, ser_start, prd_tokens, prd_start, lim_tokens

LEVEL = "translation_validation"
LEAN_MODULES = ["MpProofs.CalcRef", "MpProofs.CalcSer", "MpProofs.CalcLogicA", "Props.C27"]
ASSUMPTIONS = [
    "'accurate to within 2^(10-p) relative' is instantiated as |y - S| <= 2^(10-p) * |S|, p = mp.prec at the call",
    "an acceleration method is only requested on the series shapes mpmath documents it for: richardson / euler-maclaurin on "
    "p-series and telescoping rational summands, shanks on geometric-type and alternating series, levin on all, alternating "
    "(cohen_alt) on alternating series, direct on series with ratio <= 1/2 or factorial decay; the default method on all; "
    "geometric ratios |r| <= 9/10; in 2-D/3-D sums the factors are well conditioned (sum|t|/|sum t| <= 2^6: exp series with x >= -2, "
    "sin/cos series with |x| <= 2) because nsum's cancellation-driven precision increase only acts in one dimension; "
    "sumem is only requested for p-series / telescoping rational summands; a doubly infinite sum glues two one-sided series of the SAME class; sumem is called on a tail "
    "[a, inf) with a >= max(20, p/2) (the Euler-Maclaurin series is asymptotic) and compared with S - (exact head)",
    "summands are evaluated by mpmath at the precision nsum sets; non-dyadic parameters are re-rounded at that precision",
    "the quantifier over series/ranges/precisions is sampled; the oracle (closed form + enclosure + comparison) is proved",
    "mp.richardson is compared with the exact rational model of its code (lean/MpModel/CalcLogicA.lean) within "
    "2^(12-p) * maxc * (N+1) * max|seq| (rounding of the weights), on exactly representable sequences",
]

PRECS = [30, 53, 53, 64, 100, 150, 200, 300]
RATIOS = [Fraction(n, d) for n, d in [(1, 2), (1, 3), (2, 3), (3, 4), (1, 4), (1, 10), (9, 10), (1, 8), (3, 5), (4, 5)]]


def gen_ser(r, classes=None):
    k = r.choice(classes or ["geom", "geom", "zeta2", "zeta4", "tele", "expS", "sinS", "cosS", "logS", "logS", "leibniz"])
    if k == "geom":
        q = r.choice(RATIOS) * r.choice([1, 1, -1])
        c = Fraction(r.choice([1, 1, 3, -2, 5]), r.choice([1, 1, 2, 3]))
        return {"ser": "geom", "c": rtok(c), "r": rtok(q), "k0": r.choice([0, 0, 1, 2, 5])}
    if k in ("zeta2", "zeta4", "leibniz"):
        return {"ser": k}
    if k == "tele":
        return {"ser": "tele", "a": r.choice([0, 0, 1, 3, 10])}
    if k == "expS":
        return {"ser": k, "x": rtok(Fraction(r.randint(-16, 16), r.choice([1, 2, 3])))}
    if k in ("sinS", "cosS"):
        return {"ser": k, "x": rtok(Fraction(r.randint(-12, 12), r.choice([1, 2, 3])))}
    if k == "logS":
        return {"ser": k, "x": rtok(r.choice(RATIOS) * r.choice([1, -1]))}
    raise ValueError(k)


def ser_class(d):
    k = d["ser"]
    if k == "geom":
        return "geo+" if Fraction(d["r"]) > 0 else "geo-"
    if k == "logS":
        return "geo+" if Fraction(d["x"]) > 0 else "geo-"
    if k in ("zeta2", "zeta4", "tele"):
        return "pser"
    if k in ("expS", "sinS", "cosS"):
        return "fact"
    return "calt"


def ratio_of(d):
    if d["ser"] == "geom":
        return abs(Fraction(d["r"]))
    if d["ser"] == "logS":
        return abs(Fraction(d["x"]))
    return None


def methods_for(d):
    c = ser_class(d)
    ms = {"geo+": [None, None, "shanks", "levin", "euler-maclaurin", "r+s", "s+l"],
          "geo-": [None, None, "shanks", "levin", "alternating", "r+s", "a+s"],
          "pser": [None, None, "richardson", "levin", "euler-maclaurin", "r+s+e", "r+l"],
          "fact": [None, None, "richardson", "shanks", "levin", "direct", "r+s"],
          "calt": [None, None, "shanks", "levin", "alternating", "richardson", "r+s"]}[c]
    q = ratio_of(d)
    if q is not None and q <= Fraction(1, 2):
        ms = ms + ["direct"]
    return ms


def fast(d):
    """summand classes cheap and well-conditioned enough for multi-dimensional sums (sum|t| / |sum t| <= 2^6)"""
    q = ratio_of(d)
    if q is not None:
        return q <= Fraction(2, 3)
    if d["ser"] == "expS":
        return -2 <= Fraction(d["x"]) <= 8
    if d["ser"] in ("sinS", "cosS"):
        return abs(Fraction(d["x"])) <= 2 and Fraction(d["x"]) != 0
    return False


def _judge(prec, st, what="relative error exceeds 2^(10-p)"):
    def judge(res, ans):
        a = ans.get("v")
        bad = []
        if res.get("prec_after") != prec:
            bad.append("working precision not restored (%s)" % res.get("prec_after"))
        if a is None:
            bad.append("non-real or non-finite result %s" % json.dumps(res.get("v")))
        elif a == "violates":
            bad.append(what)
        if bad:
            return "violates", "; ".join(bad)
        return ("ok", None) if a == "ok" else ("undecided", None)
    return judge


def _yline(res, fmt, prec):
    v = res["v"]
    y = v.get("re")
    if "im" in v or not is_dy(y):
        return {}
    return {"v": fmt % (dy_tokens(y), prec)}


def case_nsum(r, st, quick):
    shape = r.choices(["toinf", "fromneginf", "all", "finite", "inf_inf", "fin_inf", "fin_fin", "fin_fin_inf", "sumem", "sumap"],
                      weights=[34, 10, 10, 10, 8, 8, 5, 4, 6, 5])[0]
    prec = r.choice(PRECS)
    t = {"kind": "nsum", "shape": shape, "prec": prec, "timeout": 20 if quick else 120}
    if shape in ("toinf", "fromneginf"):
        d = gen_ser(r)
        t["sers"] = [d]
        t["method"] = r.choice(methods_for(d))
        if shape == "toinf":
            t["shift"] = r.choice([0, 0, 1, -3, 7, -ser_start(d) - 2])
        else:
            t["b"] = r.choice([0, -1, 4, -7])
        ref = "sersum inf %s" % ser_tokens(d)
    elif shape == "all":
        d1 = gen_ser(r)
        d2 = gen_ser(r)
        while ser_class(d2) != ser_class(d1):     # the two-sided summand f(k)+f(-k) must stay in ONE documented class
            d2 = gen_ser(r)
        t["sers"] = [d1, d2]
        common = [m for m in methods_for(d1) if m in methods_for(d2)]
        t["method"] = r.choice(common)
        ref = "sersum add inf %s inf %s" % (ser_tokens(d1), ser_tokens(d2))
    elif shape == "finite":
        d = gen_ser(r)
        a = ser_start(d) + r.choice([0, 0, 1, 3])
        b = a + r.choice([0, 1, 5, 20, 60, -1, -3])
        t["sers"] = [d]; t["a"], t["b"] = a, b
        t["method"] = r.choice([None, None, "direct", "richardson", "levin"])
        ref = "sersum fin %s %d %d" % (ser_tokens(d), a, max(b, 0))
        if b < a:
            ref = None   # empty range: exactly zero expected
    elif shape == "inf_inf":
        d1, d2 = gen_ser(r, ["geom", "expS", "logS", "cosS"]), gen_ser(r, ["geom", "expS", "sinS", "logS"])
        if not (fast(d1) and fast(d2)):
            d1 = {"ser": "geom", "c": "1", "r": "1/2", "k0": 0}
            d2 = {"ser": "expS", "x": "1"}
        t["sers"] = [d1, d2]; t["method"] = None
        t["prec"] = prec = r.choice([30, 53, 64, 100])
        ref = "sersum mul inf %s inf %s" % (ser_tokens(d1), ser_tokens(d2))
    elif shape == "fin_inf":
        d1, d2 = gen_ser(r), gen_ser(r)
        while not fast(d1) and d1["ser"] in ("expS", "sinS", "cosS"):
            d1 = gen_ser(r)
        while not fast(d2) and d2["ser"] in ("expS", "sinS", "cosS"):
            d2 = gen_ser(r)
        a = ser_start(d1) + r.choice([0, 1]); b = a + r.choice([0, 2, 6])
        t["sers"] = [d1, d2]; t["a"], t["b"] = a, b; t["swap"] = r.random() < 0.4
        t["method"] = r.choice(methods_for(d2))
        ref = "sersum mul fin %s %d %d inf %s" % (ser_tokens(d1), a, b, ser_tokens(d2))
    elif shape == "fin_fin":
        d1, d2 = gen_ser(r), gen_ser(r)
        a = ser_start(d1); b = a + r.choice([0, 3, 9]); a2 = ser_start(d2) + 1; b2 = a2 + r.choice([0, 2, 7])
        t["sers"] = [d1, d2]; t.update(a=a, b=b, a2=a2, b2=b2); t["method"] = None
        ref = "sersum mul fin %s %d %d fin %s %d %d" % (ser_tokens(d1), a, b, ser_tokens(d2), a2, b2)
    elif shape == "fin_fin_inf":
        d1 = gen_ser(r, ["geom", "tele", "zeta2"]); d2 = gen_ser(r, ["geom", "expS", "logS"])
        if not fast(d2):
            d2 = {"ser": "expS", "x": "-1/2"}
        a = ser_start(d1); b = a + r.choice([0, 2]); a2 = a + 1; b2 = a2 + r.choice([0, 3])
        t["sers"] = [d1, d2]; t.update(a=a, b=b, a2=a2, b2=b2); t["method"] = None
        t["prec"] = prec = r.choice([30, 53, 64])
        ref = "sersum mul fin %s %d %d mul fin %s %d %d inf %s" % (ser_tokens(d1), a, b, ser_tokens(d1), a2, b2, ser_tokens(d2))
    elif shape == "sumem":
        d = gen_ser(r, ["zeta2", "zeta4", "tele"])
        t["sers"] = [d]
        a = max(20, prec // 2) + r.choice([0, 1, 5])        # Euler-Maclaurin is asymptotic: documented use is on a tail
        t["a"] = a
        ref = "sersum sub inf %s fin %s %d %d" % (ser_tokens(d), ser_tokens(d), ser_start(d), a - 1)
    else:  # sumap: analytic summands, start 0 or 1
        d = gen_ser(r, ["zeta2", "zeta4", "tele"])
        t["sers"] = [d]
        ref = "sersum inf %s" % ser_tokens(d)
    st.note("nsum_shape", shape); st.note("method", t.get("method") or "default"); st.note("prec", prec)
    for d in t["sers"]:
        st.note("series", d["ser"]); st.note("class", ser_class(d))
    sers = t["sers"]

    def lines(res):
        out = {}
        v = res["v"]; y = v.get("re")
        if "im" not in v and is_dy(y):
            if isinstance(ref, str):
                out["v"] = "%s %s %d 10" % (ref, dy_tokens(y), prec)
                out["v13"] = "%s %s %d 13" % (ref, dy_tokens(y), prec)
        # transcription cross-check
        for i, d in enumerate(sers):
            for j in range(len(res["terms"][i])):
                out["t%d_%d" % (i, j)] = "serterm %s %d" % (ser_tokens(d), ser_start(d) + j)
        return out

    base_judge = _judge(prec, st)

    def judge(res, ans):
        # transcription: python summand at prec 300 vs exact Lean term
        for i, d in enumerate(sers):
            for j, tv in enumerate(res["terms"][i]):
                a = ans.get("t%d_%d" % (i, j), "")
                if not a.startswith("Q:") or not is_dy(tv.get("re")):
                    return "undecided", None
                q = Fraction(a[2:])
                y = CO.dy_fraction(tv["re"])
                if abs(y - q) > abs(q) * Fraction(1, 2 ** 280):
                    st.note("transcription_mismatch", json.dumps(d))
                    return "undecided", "transcription mismatch"
        if ref is None:
            v = res["v"]
            if v.get("re") == [0, 0] and "im" not in v:
                return "ok", None
            return "violates", "empty range b < a must give exactly 0, got %s" % json.dumps(v)
        v_, w_ = base_judge(res, ans)
        if v_ == "violates" and ans.get("v") == "violates":
            if shape == "sumem" and ans.get("v13") == "ok":
                return v_, w_ + " (but within 2^(13-p))", "calculus.extrapolation.sumem[within 2^(13-p)]"
            if prec < 40 and shape not in ("sumem", "sumap"):
                return v_, w_, "calculus.extrapolation.nsum[prec<40]"
            if any(ratio_of(d) is not None and ratio_of(d) >= Fraction(4, 5) for d in sers) and shape not in ("sumem", "sumap"):
                return v_, w_, "calculus.extrapolation.nsum[geometric,|r|>=4/5]"
        return v_, w_

    site = "calculus.extrapolation.nsum[%s]" % shape
    if shape in ("sumem", "sumap"):
        site = "calculus.extrapolation.%s" % shape
    return {"task": t, "site": site, "lines": lines, "judge": judge, "nontrivial": True, "report_timeout": False}


def case_nprod(r, st, quick):
    shape = r.choices(["toinf", "fromneginf", "finite"], weights=[50, 20, 30])[0]
    prec = r.choice(PRECS)
    t = {"kind": "nprod", "shape": shape, "prec": prec, "timeout": 20 if quick else 120}
    if shape == "finite":
        d = r.choice([{"prd": "tele1"}, {"prd": "tele2"}, {"prd": "ratio", "a": r.randint(0, 5), "b": r.randint(0, 5)}])
        a = prd_start(d) + r.choice([0, 1, 4]); b = a + r.choice([0, 1, 7, 30])
        t.update(prd=d, a=a, b=b)
        ref = "prdfin %s %d %d" % (prd_tokens(d), a, b)
    else:
        d = r.choice([{"prd": "tele1"}, {"prd": "tele2"}])
        t["prd"] = d
        t["method"] = r.choice([None, None, "richardson", "levin", "r+s"])
        t["nsum"] = r.random() < 0.25
        if shape == "toinf":
            t["shift"] = r.choice([0, 0, 2, -5])
        else:
            t["b"] = r.choice([0, -1, 3, -4])
        ref = "prdinf %s" % prd_tokens(d)
    st.note("nprod_shape", shape); st.note("prec", prec); st.note("product", d["prd"])

    def lines(res):
        out = _yline(res, ref + " %s %d 10", prec)
        for j in range(len(res["terms"][0])):
            out["t%d" % j] = "prdterm %s %d" % (prd_tokens(d), prd_start(d) + j)
        return out

    base = _judge(prec, st)

    def judge(res, ans):
        for j, tv in enumerate(res["terms"][0]):
            a = ans.get("t%d" % j, "")
            if not a.startswith("Q:") or not is_dy(tv.get("re")):
                return "undecided", None
            q = Fraction(a[2:]); y = CO.dy_fraction(tv["re"])
            if abs(y - q) > abs(q) * Fraction(1, 2 ** 280):
                st.note("transcription_mismatch", json.dumps(d))
                return "undecided", "transcription mismatch"
        return base(res, ans)

    return {"task": t, "site": "calculus.extrapolation.nprod[%s]" % shape, "lines": lines, "judge": judge,
            "nontrivial": True, "report_timeout": False}


def case_limit(r, st, quick):
    prec = r.choice(PRECS)
    k = r.choice(["ratSeq", "ratSeq", "euler", "slopeExp", "slopeSin"])
    if k == "ratSeq":
        d = {"lim": k, "a": rtok(Fraction(r.randint(-9, 9), r.choice([1, 2, 3]))), "b": rtok(r.randint(-9, 9)),
             "c": rtok(Fraction(r.choice([-3, -2, -1, 1, 2, 3, 7]), r.choice([1, 2]))), "d": rtok(r.randint(1, 9))}
        if Fraction(d["a"]) == 0:
            d["a"] = "1"
        if Fraction(d["c"]) < 0:      # keep the pole -d/c away from the sampled points x = 1, 2, 3, ...
            d["d"] = rtok(-Fraction(r.randint(1, 9), 2) + Fraction(1, 4))
    elif k == "euler":
        d = {"lim": k, "t": rtok(Fraction(r.randint(-6, 6), r.choice([1, 2, 3])))}
    else:
        d = {"lim": k, "c": rtok(Fraction(r.choice([-5, -3, -2, -1, 1, 2, 3, 5]), r.choice([1, 2, 3])))}
    t = {"kind": "limit", "lim": d, "prec": prec, "timeout": 20 if quick else 120,
         "method": r.choice([None, None, None, "richardson", "levin", "r+s"]), "exp": (k == "euler" and r.random() < 0.5)}
    if k in ("slopeExp", "slopeSin"):
        t["direction"] = r.choice([1, 1, -1])
    st.note("limit", k); st.note("prec", prec)
    ref = "limcheck %s" % lim_tokens(d)
    return {"task": t, "site": "calculus.extrapolation.limit[%s]" % k, "lines": lambda res: _yline(res, ref + " %s %d 10", prec),
            "judge": _judge(prec, st), "nontrivial": True, "report_timeout": False}


def case_richardson(r, st, quick):
    """T1: mp.richardson vs the exact rational model of its code"""
    prec = r.choice([100, 150, 200, 300])
    n = r.randint(3, 14)
    kind_ = r.choice(["rational", "alternating", "random"])
    seq = []
    for i in range(n):
        if kind_ == "rational":
            q = Fraction(3) + Fraction(2 ** 20 // (i + 1), 2 ** 20) + Fraction(2 ** 20 // (i + 1) ** 2, 2 ** 19)
        elif kind_ == "alternating":
            q = Fraction(1) + Fraction((-1) ** i * (2 ** 16 // (i + 1)), 2 ** 16)
        else:
            q = Fraction(r.randint(-2 ** 12, 2 ** 12), 2 ** 8)
        seq.append(q)
    t = {"kind": "richardson", "prec": prec, "seq": [rtok(q) for q in seq], "timeout": 10}
    st.note("richardson_seq", kind_)

    def lines(res):
        return {"m": "richardson " + " ".join(rtok(q) for q in seq)}

    def judge(res, ans):
        a = ans.get("m", "")
        if not a.startswith("Q:"):
            return "violates", "model raised %s but mp.richardson returned" % a
        va, ca = [Fraction(x[2:]) for x in a.split()]
        v, c = res["v"].get("re"), res["c"].get("re")
        if not (is_dy(v) and is_dy(c)):
            return "violates", "non-finite output"
        v, c = CO.dy_fraction(v), CO.dy_fraction(c)
        N = n // 2 - 1
        tol = Fraction(2) ** (12 - prec) * ca * (N + 2) * max(1, max(abs(q) for q in seq))
        if abs(v - va) > tol or abs(c - ca) > Fraction(2) ** (12 - prec) * ca * (N + 2):
            return "violates", "mp.richardson differs from the exact model: %s vs %s (maxc %s vs %s)" % (float(v), float(va), float(c), float(ca))
        return "ok", None

    return {"task": t, "site": "calculus.extrapolation.richardson[T1]", "lines": lines, "judge": judge, "nontrivial": n >= 4}


def run(ctx):
    r = random.Random(ctx.seed)
    st = CO.Stats()
    quick = ctx.quick
    n1, n2, n3, n4 = (330, 90, 90, 60) if quick else (5000, 1200, 1200, 600)
    cases = ([case_nsum(r, st, quick) for _ in range(n1)] + [case_nprod(r, st, quick) for _ in range(n2)] +
             [case_limit(r, st, quick) for _ in range(n3)] + [case_richardson(r, st, quick) for _ in range(n4)])
    info, fails = CO.run_cases(cases, ctx, nworkers=6, default_timeout=20.0, budget_s=70 if quick else 3000)
    s = info["summary"]
    evaluations = sum(1 for c in cases if c.get("verdict") in ("ok", "violates", "undecided"))
    dis = []
    if "transcription_mismatch" in st.hist:
        dis.append({"name": "python-summand-vs-lean-term", "detail": st.hist["transcription_mismatch"]})
    cov = {
        "evaluations": evaluations,
        "distinct_nontrivial": info["distinct_nontrivial"],
        "programs": 7,     # nsum, nprod, limit, sumem, sumap, richardson (T1), standardize (through nsum ranges)
        "disagreements_checked": evaluations,
        "rule": "series/product/limit drawn from the proved families with rational parameters; index range shape, shift, method (restricted "
                "to the documented applicability) and precision drawn independently; non-trivial = the real routine returned a finite real "
                "value that the Lean checker decided against the proved closed form; every summand transcription is cross-checked exactly",
        "cases": s, "undecided": s.get("undecided", 0),
        "input_distribution": st.as_dict(),
        "samples": info["samples"][:4],
    }
    return {"coverage": cov, "failing_inputs": fails, "disagreements": dis}
