"""C40 — pickling and copying preserve values exactly."""
from props import _helpers
import helpers_ops

LEVEL = "proof"
LEAN_MODULES = ["Props.C40"]
ASSUMPTIONS = [
    "the theorems are about to_pickable/from_pickable, __getstate__/__setstate__ and a heap model of matrix.copy "
    "(MpModel/Helpers.lean); pickle/copyreg themselves are exercised, not modelled: real pickle over every protocol, "
    "copy.copy, copy.deepcopy, type identity and == checked on the running objects",
    "'same representation' is decided on the raw _mpf_/_mpc_ tuples; repr() strings are compared for ordinary sizes only "
    "(repr of > ~14000-bit mantissas or exponents ~1e18 raises / takes minutes: that is C08 territory)",
]

RULE = ("helpers_ops.py C40 streams (mantissas 1..20000 bits, specials, non-canonical tuples, malformed hex strings, "
        "matrices with mixed mpf/mpc/int/zero entries copied by .copy()/copy.copy/deepcopy and then mutated on either side) "
        "+ direct probes: matrix pickling over every protocol, pickling/copying values of a cloned context; non-trivial = "
        "the round trip / independence was decided exactly on the raw tuples")


def run(ctx):
    site = lambda line, what: _helpers.C40_SITE.get(line.split()[0], line.split()[0])
    res = _helpers.run_streams(ctx, helpers_ops.C40_OPS, 30000, 600000, _helpers.decide_c40, site, RULE)
    cov = res["coverage"]
    n = 150 if ctx.quick else 3000
    per = {}
    cap = {}
    for s, what, inp in _helpers.c40_probes(ctx.seed, n):
        d = per.setdefault(s, [0, 0])
        d[0] += 1
        cov["evaluations"] += 1
        if what is not None:
            d[1] += 1
            c = cap.get(s, 0)
            cap[s] = c + 1
            if c < 5:
                res["failing_inputs"].append({"site": s, "what": what, "input": inp})
        else:
            cov["distinct_nontrivial"] += 1
    cov["probes_per_site"] = {k: {"cases": v[0], "failing": v[1]} for k, v in per.items()}
    return res
