"""C04 — complex arithmetic is correctly rounded per component."""
from props import _civ
import cplx_iv_ops as CI

LEVEL = "proof"
LEAN_MODULES = ["Props.C04"]
ASSUMPTIONS = ["theorems cover add/sub/mul/mul_mpf/mul_int/square/neg/pos componentwise; division/reciprocal/negative powers are bit-exactly "
               "modelled and their accuracy clause is decided per case in exact arithmetic",
               "the final fallback of mpc_pow_int (mpc_exp/mpc_log) is not modelled: both sides answer NotImplementedError on that branch"]


def run(ctx):
    return _civ.run_civ(ctx, "C04", CI.COMPLEX_OPS + ["malformed"], 40000, 1500000)
