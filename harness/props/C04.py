"""C04 — complex arithmetic is correctly rounded per component."""
from props import _civ
import cplx_iv_ops as CI
import c04_api

LEVEL = "proof"
LEAN_MODULES = ["Props.C04", "Props.C04pow", "Props.C04div", "Props.C04powneg"]
ASSUMPTIONS = ["theorems cover add/sub/mul/mul_mpf/mul_int/square/neg/pos componentwise and z**n in the exact regime (Props/C04pow.lean: both components nonzero, "
               "n >= 3, n*(|e_a-e_b|+max bc) < 10000: complex_int_pow = (A+Bi)^n in Z[i], each component rounded once), and division z/w, 1/z, p/z (Props/C04div.lean: every component within 2^(2-prec) relative of the exact "
               "component, hence in modulus; z/p correctly rounded), and negative powers z**(-m), m >= 3 in the exact regime, prec >= 3 (Props/C04powneg.lean: every "
               "component within 6*2^-prec relative); all of these are also bit-exactly modelled and their accuracy clause decided per case in exact arithmetic",
               "the public routes (operators with mpc/mpf/int/float/complex operand mixes under the context rounding mode; fadd/fsub/fmul with "
               "prec=/rounding= keywords) are decided componentwise against correct rounding in exact rational arithmetic on a seeded sample (glue not proved)",
               "the final fallback of mpc_pow_int (mpc_exp/mpc_log) is not modelled: both sides answer NotImplementedError on that branch"]


def run(ctx):
    res = _civ.run_civ(ctx, "C04", CI.COMPLEX_OPS + ["malformed"], 40000, 1500000)
    cov, failing = c04_api.run_api(ctx, 12000 if ctx.quick else 400000)
    res["coverage"]["api_complex"] = cov
    res["coverage"]["evaluations"] = res["coverage"].get("evaluations", 0) + cov["cases"]
    res["failing_inputs"] += failing
    return res
