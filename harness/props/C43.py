"""C43 — the fp context matches mp conventions for elementary functions.

Decisions taken from the property text
 * "fp functions return Python float or complex values": the type of every result must be exactly `float` or `complex`;
   a function of the list that is missing from `fp`, or raises for a finite argument where mp returns a value, fails.
   (Results whose mp value lies outside the binary64 range, |v| >= 2^1024 or 0 < |v| < 2^-1074, are skipped: fp cannot
   represent them.)
 * "For real arguments outside a function's real domain they return the principal complex value instead of raising, as mp
   does": table DOMAIN below — inside the real domain the result must be a float, outside it a complex equal (within
   the tolerance) to mp's value; the real domains are sqrt/log/ln: x >= 0 (log: x > 0), asin/acos/atanh: |x| <= 1
   (atanh: |x| < 1), acosh: x >= 1, cbrt/power with non-integer exponent: x >= 0.
 * "agree with mp at 53 bits to within 2^-48 relative or 2^-300 absolute": with v = mp's value at mp.prec = 53 (double
   argument converted exactly) and w = fp's value, both read exactly as (pairs of) dyadic rationals,
   |w - v| <= max(2^-48 |v|, 2^-300) is decided in exact rational arithmetic (complex values: the modulus, compared through
   squares).  This literal comparison is the pass/fail decision.
 * in addition (DESIGN.md C43) every real in-domain value is sent to the verified evaluator with the same tolerance
   (`acc <f> x w 53 5`, i.e. 2^(5-53) = 2^-48 relative to the TRUE value); the verdicts are reported as
   `fp_vs_true_value`; they do not decide pass/fail (C12 covers mp's own accuracy).

Argument families (round 3).  Besides the seeded mixture of DGen the check walks, for EVERY function of the list, the
neighbourhoods of the points where a rewritten formula typically breaks (CRIT below: zeros, poles, branch points, thresholds
of the binary64 range, exact powers) by 0, +-1, +-2, +-3 and +-2^k units in the last place, with both signs; the same
centres combined with signed zeros / tiny / huge second components as complex arguments (and real values passed with the
complex TYPE); for cospi/sinpi every binade from 2^-3 to 2^53 (first and last half-integers of the binade, a random one,
the binade boundary) and the binades beyond, where every double is an integer; for power zero bases of every type,
integer exponents up to several hundred in both signs for real and complex bases, half-integer / reciprocal-integer
exponents, bases next to 1 with huge exponents, complex-typed operands with zero imaginary part.

Site attribution.  Several recorded findings are described by broad predicates (e.g. "the cospi result is below 1/8").
A disagreement that the recorded MECHANISM cannot produce is therefore reported under the name of the inner routine
(`math2._cospi_real`, `math2.pow[integer exponent]`, `math2.asin[not the conjugate branch]` ...) so that it is not absorbed:
 * sinpi/cospi multiply the exactly reduced argument r = |x| mod 1/2 by the double pi; the relative error of the result is
   about 2^-52 r/(1/2 - r) and exceeds 2^-48 only for r > 0.47: a real-argument disagreement with r < 0.4375 is not that;
   likewise complex arguments with |Im| <= 4 and (r < 0.4375 or a result of modulus >= 1/8);
 * float ** float with a negative base and an INTEGER exponent is libm's pow, not the polar formula of finding D26;
 * asin/acos of a real x > 1 that is not the complex conjugate of mp's value; a value at a complex argument on a branch cut
   that is neither conj(v) nor -conj(v) of mp's value v (the value on the other side of the cut).
"""
import math, cmath, time, random, struct, sys
from fractions import Fraction
import encl_check as EC
from encl_check import mp, guarded
from encl_ops import ask
from mpmath import fp

LEVEL = "translation_validation"
LEAN_MODULES = ["Props.C12"]
ASSUMPTIONS = [
    "libm / CPython's math and cmath modules are outside the model: fp values are observed, not modelled",
    "the dispatch table (real branch inside the real domain, complex principal value outside) is derived from the property "
    "text; mp at 53 bits is the reference for the agreement clause; the verified evaluator is used only for the "
    "additional comparison with the true value",
    "arguments are sampled binary64 numbers (all classes named by the property); no forall-statement is proved",
]

# function -> (real domain predicate name, evaluator name or None)
FUNS = {
    "sqrt": ("nonneg", "sqrt"), "exp": ("R", "exp"), "log": ("pos", "log"), "ln": ("pos", "log"),
    "sin": ("R", "sin"), "cos": ("R", "cos"), "tan": ("R", "tan"), "cot": ("nozero", "cot"), "sec": ("R", "sec"), "csc": ("nozero", "csc"),
    "sinh": ("R", "sinh"), "cosh": ("R", "cosh"), "tanh": ("R", "tanh"), "coth": ("nozero", None), "sech": ("R", None), "csch": ("nozero", None),
    "asin": ("unit", "asin"), "acos": ("unit", "acos"), "atan": ("R", "atan"), "acot": ("R", None), "asec": ("outside_unit", None), "acsc": ("outside_unit", None),
    "asinh": ("R", "asinh"), "acosh": ("ge1", "acosh"), "atanh": ("openunit", "atanh"), "acoth": ("outside_unit_open", None),
    "asech": ("unit_pos", None), "acsch": ("nozero", None),
    "cbrt": ("nonneg", None), "cospi": ("R", "cospi"), "sinpi": ("R", "sinpi"),
}
# functions bound directly in the FPContext table to math2 wrappers; the others are generic compositions (functions.py)
TABLE = ("sqrt", "exp", "log", "ln", "sin", "cos", "tan", "sinh", "cosh", "tanh", "asin", "acos", "atan", "cbrt", "cospi", "sinpi")
DOM = {
    "R": lambda x: True, "nonneg": lambda x: x >= 0, "pos": lambda x: x > 0, "nozero": lambda x: x != 0,
    "unit": lambda x: -1 <= x <= 1, "openunit": lambda x: -1 < x < 1, "ge1": lambda x: x >= 1,
    "outside_unit": lambda x: abs(x) >= 1, "outside_unit_open": lambda x: abs(x) > 1, "unit_pos": lambda x: 0 < x <= 1,
}
TOL_REL = Fraction(1, 2 ** 48)
TOL_ABS = Fraction(1, 2 ** 300)


def fr(x):
    return Fraction(x)            # exact for floats


def dy(x):
    """(m, e) of a finite float, exactly"""
    if x == 0:
        return (0, 0)
    f = Fraction(x)
    e = -(f.denominator.bit_length() - 1)
    return (f.numerator, e)


def agree(w, v):
    """|w - v| <= max(2^-48 |v|, 2^-300) exactly; w, v: float or complex (python), mp values converted before"""
    if isinstance(w, complex) or isinstance(v, complex):
        w, v = complex(w), complex(v)
        d2 = (fr(w.real) - fr(v.real)) ** 2 + (fr(w.imag) - fr(v.imag)) ** 2
        m2 = fr(v.real) ** 2 + fr(v.imag) ** 2
        return d2 <= max(TOL_REL ** 2 * m2, TOL_ABS ** 2)
    d = abs(fr(w) - fr(v))
    return d <= max(TOL_REL * abs(fr(v)), TOL_ABS)


def mp_value_hp(name, args, prec=200):
    """mp's value at `prec` bits rounded to binary64 parts (tie-breaker for site attribution only; not rigorous)"""
    def thunk():
        old = mp.prec
        try:
            mp.prec = prec
            v = getattr(mp, name)(*[mp.mpmathify(a) for a in args])
            return complex(v) if isinstance(v, mp.mpc) else float(v)
        finally:
            mp.prec = old
    st, v = guarded(thunk)
    return v if st == "ok" else None


def blame(name, args, w, v):
    """which side of a disagreement is the inaccurate one, judged by mp at 200 bits"""
    h = mp_value_hp(name, args)
    try:
        if h is not None and cmath.isfinite(h) and agree(w, h) and not agree(v, h):
            return "mp." + name
    except (OverflowError, ValueError):
        pass
    return None


def mp_value(name, args):
    """mp's value at 53 bits as exact python float/complex (53-bit mpf -> float is exact inside the double range);
    ('ok', value) | ('range', None) | ('exc', name) | ('special', str)"""
    def thunk():
        old = mp.prec
        try:
            mp.prec = 53
            return getattr(mp, name)(*[mp.mpmathify(a) for a in args])
        finally:
            mp.prec = old
    st, v = guarded(thunk)
    if st != "ok":
        return (st, v)
    parts = [v.real, v.imag] if isinstance(v, mp.mpc) else [v]
    out = []
    for q in parts:
        if not mp.isfinite(q):
            return ("special", str(v))
        if q != 0:
            s, man, ex, bc = q._mpf_
            if ex + bc > 1024 or ex < -1074:
                return ("range", None)
        out.append(float(q))
    return ("ok", complex(out[0], out[1]) if isinstance(v, mp.mpc) else out[0])


class DGen:
    def __init__(self, r):
        self.r = r
        self.hist = {}

    def note(self, k):
        self.hist[k] = self.hist.get(k, 0) + 1

    def double(self, name):
        r = self.r
        c = r.random()
        if c < 0.25:
            k, x = "ordinary", r.uniform(-8, 8)
        elif c < 0.35:
            k, x = "unit", r.uniform(-1, 1)
        elif c < 0.43:
            k, x = "above_one", r.choice([1, -1]) * (1 + r.random() * r.choice([1e-12, 1e-3, 1, 100]))
        elif c < 0.50:
            kk = r.randint(1, 52)
            k, x = "near_one", r.choice([1, -1]) * (1 + r.choice([1, -1]) * 2.0 ** -kk)
        elif c < 0.57:
            k, x = "half_integer", r.choice([1, -1]) * r.randint(0, 1 << r.choice([3, 20, 52])) / 2.0
        elif c < 0.64:
            k, x = "tiny", r.choice([1, -1]) * math.ldexp(1 + r.random(), -r.choice([30, 100, 500, 1000, 1060]))
        elif c < 0.71:
            k, x = "huge", r.choice([1, -1]) * math.ldexp(1 + r.random(), r.choice([30, 60, 200, 700, 1000]))
        elif c < 0.80:
            k = "near_k_pi_2"
            e = r.randint(-55, 200)
            t = EC.nearest_to_k_pi_2(53, e)
            x = math.ldexp(t[0] + r.choice([0, 0, 1, -1]), e) * r.choice([1, -1]) if t else 1.5
        elif c < 0.86:
            k, x = "small_integer", float(r.randint(-10, 10))
        elif c < 0.90:
            k, x = "signed_zero", r.choice([0.0, -0.0])
        elif c < 0.94:
            k, x = "one", r.choice([1.0, -1.0])
        else:
            k, x = "random_bits", struct.unpack("<d", struct.pack("<Q", r.getrandbits(64)))[0]
            if x != x or x in (float("inf"), float("-inf")):
                x = 0.75
        if name in ("exp", "sinh", "cosh", "cospi", "sinpi") and abs(x) > 700 and name in ("exp", "sinh", "cosh"):
            x = math.copysign(700 * self.r.random(), x)
        self.note(k)
        return x, k


# ------------------------------------------------------------------------------------------------------------------------
# structured families (round 3)
# ------------------------------------------------------------------------------------------------------------------------
MAXD = sys.float_info.max
TINY = 2.0 ** -1074
LN2 = math.log(2.0)
EXPLIKE_RE = ("exp", "sinh", "cosh", "tanh", "coth", "sech", "csch")        # e^{|Re z|} governs the size of the result


def P2(k):
    return math.ldexp(1.0, k)


def ulps(x, j):
    """the double j units in the last place away from x (ordered-integer representation of binary64); x itself when the
    step leaves the finite range"""
    if j == 0:
        return x
    i = struct.unpack("<q", struct.pack("<d", x))[0]
    if i < 0:
        i = -(i & 0x7FFFFFFFFFFFFFFF)
    i += j
    b = ((-i) | (1 << 63)) if i < 0 else i
    y = struct.unpack("<d", struct.pack("<Q", b & 0xFFFFFFFFFFFFFFFF))[0]
    return y if math.isfinite(y) else x


def perturbation(r):
    c = r.random()
    if c < 0.2:
        return 0
    if c < 0.65:
        return r.choice([1, -1, 2, -2, 3, -3])
    k = r.randint(2, 44)
    return r.choice([1, -1]) * ((1 << k) + r.getrandbits(k) * r.choice([0, 1]))


BASE = [0.0, TINY, P2(-1022), P2(-537), P2(-512), P2(-60), P2(-27), P2(-26), 0.5, 1.0, 1.0, 2.0, P2(27), P2(52), P2(53), P2(512),
        P2(1023), MAXD]


def crit(name, r):
    """centres of the structured neighbourhoods of `name` (non-negative; the sign is drawn separately): zeros, poles,
    branch points, thresholds of the binary64 range, arguments with exactly representable values"""
    if name in ("sqrt",):
        m = r.randint(1, (1 << 26) - 1)
        return BASE + [float(m * m), float(m * m) * P2(2 * r.randint(-480, 480)), P2(2 * r.randint(-511, 511)),
                       P2(2 * r.randint(-511, 511) + 1), 4.0, 0.25, 2.25]
    if name == "cbrt":
        m = r.randint(1, (1 << 17) - 1)
        k = r.randint(-340, 320)
        return BASE + [float(m ** 3), float(m ** 3) * P2(3 * r.randint(-300, 300)), 8.0, 27.0, 0.125, P2(3 * k), P2(3 * k + 1),
                       P2(3 * k + 2)]
    if name == "exp":
        k = r.choice([1, 2, 3, 10, 100, 1000, 1021, 1022, 1023, 1024, 1074])
        return BASE[:12] + [k * LN2, 709.782712893384, 709.0, 710.0, 708.3964185322641, 745.1332191019411, 744.0, 746.0,
                            88.72283905206835, 36.04365338911715, float(r.randint(1, 709))]
    if name in ("log", "ln"):
        k = r.randint(1, 700)
        return BASE + [P2(r.randint(-1074, 1023)), P2(r.randint(-60, 60)), math.e, math.exp(k), math.exp(-k), 10.0,
                       10.0 ** r.randint(1, 22), 1.0, 1.0]
    if name in ("sin", "cos", "tan", "cot", "sec", "csc"):
        out = BASE + [k * (math.pi / 2) for k in (1, 2, 3, 4, r.randint(5, 100), r.randint(100, 1 << 20))]
        for e in (r.randint(-55, 200), r.randint(200, 960)):
            t = EC.nearest_to_k_pi_2(53, e)
            if t:
                out.append(math.ldexp(t[0], e))
        return out
    if name in ("sinh", "cosh", "tanh", "coth", "sech", "csch"):
        return BASE[:12] + [math.asinh(1.0), 19.061547465398498, 22.0, 22.18070977791825, 354.891356446692, 709.782712893384,
                            710.4758600739439, 710.0, 711.0, 745.1332191019411, 750.0, 1000.0, P2(27), float(r.randint(1, 709))]
    if name in ("asin", "acos", "atanh", "asech"):
        return BASE + [math.sqrt(0.5), math.sqrt(0.75), 1.0, 1.0, 1.0 + P2(-r.randint(1, 52)), 1.0 - P2(-r.randint(1, 53))]
    if name in ("asec", "acsc", "acosh", "acoth"):
        return BASE + [1.0, 1.0, math.sqrt(2.0), 1.0 + P2(-r.randint(1, 52)), 1.0 - P2(-r.randint(1, 53))]
    return BASE + [math.sqrt(3.0), 1 / math.sqrt(3.0), P2(r.randint(-1074, 1023))]        # atan, acot, asinh, acsch


def pi_family(r):
    """arguments of cospi / sinpi: for every binade [2^e, 2^(e+1)), e = -3..53, the boundary, the first and the last
    half-integers / integers of the binade and a random one, each moved by 0, a few and 2^k units in the last place (so that
    the zero of the function is approached from both sides in every binade, also where x + 1/2 or 2x is not exact); then
    binades in which every double is an even integer"""
    out = []

    def around(c, tag):
        out.append((c, tag))
        out.append((ulps(c, r.choice([1, -1, 2, -2, 3, -3])), tag + "+ulps"))
        k = r.randint(2, 44)
        out.append((ulps(c, r.choice([1, -1]) * ((1 << k) + r.getrandbits(k) * r.choice([0, 1]))), tag + "+2^k ulps"))

    for e in range(-3, 54):
        lo = P2(e)
        around(lo, "binade_boundary")
        if e < 0:
            around(lo * 1.5, "mid_binade")            # 0.75, 0.375, 0.1875
            continue
        n = 1 << e
        if e <= 51:
            around(lo + 0.5, "first_half_integer")
            around(2 * lo - 0.5, "last_half_integer")
            around(2 * lo - 1.0, "last_integer")
            around(r.randint(2 * n, 4 * n - 1) / 2.0, "random_half_integer")
            if e >= 1:
                around(r.randint(4 * n, 8 * n - 1) / 4.0, "random_quarter_integer")
        elif e == 52:
            for c in (lo + 1, 2 * lo - 1, 2 * lo - 2, float(n + r.randint(0, n - 1))):
                around(c, "integers_only")
        else:
            for c in (lo + 2, 2 * lo - 2, float(n + 2 * r.randint(0, n // 2 - 1))):
                around(c, "even_integers_only")
    for e in (54, 55, 56, 60, 64, 100, 511, 512, 1000, 1022, 1023):
        around(P2(e), "multiples_of_four")
        around(math.ldexp(1 + r.random(), e), "multiples_of_four")
    around(0.0, "zero"); around(TINY, "tiny"); around(P2(-1022), "tiny"); around(P2(-537), "tiny"); around(MAXD, "max")
    return out


def real_family(name, r, count):
    """count structured real arguments of `name`"""
    cs = crit(name, r)
    out = []
    for i in range(count):
        c = cs[i % len(cs)] if i < len(cs) else r.choice(cs)
        x = ulps(c, perturbation(r))
        if r.random() < 0.5:
            x = -x
        out.append((x, "crit"))
    return out


def complex_family(name, r, count):
    """count structured complex arguments: a (perturbed) centre of `name` in one component, and in the other one a signed
    zero (a real or purely imaginary value with the complex TYPE), a tiny, an ordinary, a second centre or a huge number;
    points of modulus 1 (exactly: Pythagorean pairs; nearly: rounded (cos t, sin t), also for tiny t); points 2^-k away from
    1, -1, i, -i, 0 in every direction; for the functions that grow like e^|Re z| or e^|Im z| arguments just beyond the
    overflow threshold of |e^z| whose result still has representable components; every combination of signs"""
    cs = [c for c in crit(name, r)]
    # components that only push the result out of the binary64 range are mostly (not always) brought back
    lim_re = 700.0 if name in ("exp", "sinh", "cosh", "sech", "csch") else None
    lim_im = 700.0 if name in ("sin", "cos", "sec", "csc") else None
    small = [0.0, 0.0, TINY, P2(-1022), P2(-537), P2(-60), P2(-27)]
    big = [P2(27), P2(60), P2(511), P2(512), 1e300, MAXD]
    pyth = [(3, 4, 5), (5, 12, 13), (8, 15, 17), (7, 24, 25), (20, 21, 29), (119, 120, 169), (696, 697, 985)]
    edge = {"exp": 709.782712893384, "sinh": 710.4758600739439, "cosh": 710.4758600739439, "sech": 710.4758600739439,
            "csch": 710.4758600739439, "sin": 710.4758600739439, "cos": 710.4758600739439, "sec": 710.4758600739439,
            "csc": 710.4758600739439, "cospi": 710.4758600739439 / math.pi, "sinpi": 710.4758600739439 / math.pi}
    out = []
    for i in range(count):
        c = ulps(cs[i % len(cs)] if i < len(cs) else r.choice(cs), perturbation(r))
        q = r.random()
        fixed = None
        if q < 0.22:
            o = r.choice(small[:2])
        elif q < 0.37:
            o = r.choice(small)
        elif q < 0.47:
            o = r.uniform(0, 4)
        elif q < 0.60:
            o = ulps(r.choice(cs), perturbation(r))
        elif q < 0.68:
            o = r.choice(big)
        elif q < 0.76:
            if r.random() < 0.5:
                a, b, h = r.choice(pyth)
                s = P2(r.choice([0, 0, 1, -1, 10, -10]))
                c, o = a / h * s, b / h * s              # |z| = s up to the rounding of the two quotients
            else:
                t = r.uniform(0, math.pi / 2) if r.random() < 0.5 else P2(-r.randint(1, 60))
                c, o = math.cos(t), math.sin(t)
        elif q < 0.88 or name not in edge:
            # next to 1, -1, i, -i (branch points / zeros / poles of most functions of the list) and to 0
            z0 = r.choice([1, 1, -1, 1j, -1j, 0])
            d = P2(-r.randint(1, 60 if z0 else 1074))
            dz = complex(d * r.choice([1, -1, 0, r.uniform(-1, 1)]), d * r.choice([1, -1, 0, r.uniform(-1, 1), P2(-r.randint(1, 40))]))
            fixed = z0 + dz
        else:
            # |e^z| just beyond the overflow threshold: the components |e^z| cos t, |e^z| sin t of the result are both still
            # representable for t within ~0.4 of an odd multiple of pi/4 and |e^z| up to sqrt(2) * max double
            sc = math.pi if name in ("cospi", "sinpi") else 1.0
            if r.random() < 0.6:
                u = edge[name] + r.uniform(0, 0.34) / sc
                v = (math.pi / 4 + r.randint(-2, 1) * math.pi / 2 + r.uniform(-0.4, 0.4)) / sc
            else:
                u = edge[name] + r.uniform(-0.6, 0.4) / sc
                v = r.uniform(-math.pi, math.pi) / sc
            if name != "exp" and r.random() < 0.5:
                u = -u
            out.append((complex(u, v) if name in EXPLIKE_RE else complex(v, u), "complex"))
            continue
        if fixed is not None:
            if r.random() < 0.5:
                fixed = fixed.conjugate()
            if r.random() < 0.3:
                fixed = -fixed
            out.append((fixed, "complex"))
            continue
        re, im = (c, o) if r.random() < 0.5 else (o, c)
        if lim_re is not None and abs(re) > lim_re and r.random() < 0.85:
            re = r.uniform(0, lim_re)
        if lim_im is not None and abs(im) > lim_im and r.random() < 0.85:
            im = r.uniform(0, lim_im)
        if r.random() < 0.5:
            re = -re
        if r.random() < 0.5:
            im = -im
        out.append((complex(re, im), "complex"))
    return out


def power_family(r, quick):
    """structured (base, exponent) pairs of fp.power"""
    out = []
    zero_bases = [0.0, -0.0, 0j, complex(0.0, -0.0), complex(-0.0, 0.0), complex(-0.0, -0.0)]
    for a in zero_bases:
        for b in [1.0, 2.0, 3.0, 0.5, 1 / 3., 100.0, 101.0, 1e300, TINY, 0.0, -0.0, r.uniform(0, 10), float(r.randint(1, 400)),
                  complex(2.0, 0.0), complex(0.5, 0.0), complex(r.randint(1, 9), 0.0), complex(r.uniform(0, 9), -0.0), 0j,
                  -1.0, complex(2, 1), 1j]:
            out.append((a, b, "zero_base"))

    def base_of_modulus(mag, kind):
        if kind == "pos":
            return mag
        if kind == "neg":
            return -mag
        if kind == "real_as_complex":
            return complex(r.choice([1, -1]) * mag, r.choice([0.0, -0.0]))
        if kind == "imag":
            return complex(r.choice([0.0, -0.0]), r.choice([1, -1]) * mag)
        if kind == "gauss":
            # small Gaussian dyadic: both parts have a few bits, products stay exact for a while
            k = r.randint(0, 3)
            return complex(r.randint(-15, 15) / 2.0 ** k, r.choice([1, -1]) * r.randint(1, 15) / 2.0 ** k)
        t = r.uniform(-math.pi, math.pi)
        return complex(mag * math.cos(t), mag * math.sin(t))

    kinds = ["pos", "neg", "real_as_complex", "imag", "gauss", "generic", "generic", "gauss"]
    n_int = 1800 if quick else 36000
    for i in range(n_int):
        c = i % 9
        if c in (0, 7):
            n = r.randint(2, 12)
        elif c == 8:
            n = r.randint(12, 24)
        elif c == 1:
            n = r.randint(20, 98)
        elif c == 2:
            n = r.choice([99, 100, 101, 102, 127, 128, 129])           # CPython multiplies out |n| <= 100
        elif c == 3:
            n = r.randint(101, 400)
        elif c == 4:
            n = r.randint(400, 1000)
        elif c == 5:
            n = 1 << r.randint(1, 9)
        else:
            n = r.choice([1, 2, 3])
        lim = min(r.choice([1.0, 3.0, 40.0]), 1000.0 / n)
        kind = kinds[(i // 9) % len(kinds)]
        a = base_of_modulus(2.0 ** r.uniform(-lim, lim), kind)
        if kind == "gauss" and abs(a) > 0 and abs(math.log2(abs(a))) * n > 1000:
            a = a / abs(a) * 2.0 ** r.uniform(-lim, lim)
        if r.random() < 0.5:
            n = -n
        b = float(n) if r.random() < 0.7 else complex(n, r.choice([0.0, -0.0]))
        out.append((a, b, "integer_exponent:" + kind))
    n_frac = 900 if quick else 18000
    for i in range(n_frac):
        kind = kinds[i % len(kinds)]
        c = r.random()
        if c < 0.3:
            b = r.choice([0.5, -0.5, 1.5, 2.5, -1.5, r.randint(0, 300) + 0.5, -(r.randint(0, 300) + 0.5)])
        elif c < 0.5:
            b = 1.0 / r.choice([3, 3, 5, 7, 10, r.randint(2, 1000)]) * r.choice([1, -1, 2])
        elif c < 0.7:
            b = r.uniform(-700, 700)
        elif c < 0.8:
            b = r.choice([0.0, -0.0, 1.0, -1.0, 2.0, -2.0])
        else:
            b = complex(r.uniform(-6, 6), r.choice([r.uniform(-6, 6), P2(-r.randint(20, 1074)), 0.0, -0.0]))
        lim = min(6.0, 1000.0 / max(1.0, abs(b)))
        a = base_of_modulus(2.0 ** r.uniform(-lim, lim), kind)
        out.append((a, b, "fractional_exponent:" + kind))
    n_one = 400 if quick else 8000
    for i in range(n_one):
        k = r.randint(1, 52)
        a = 1.0 + r.choice([1, -1]) * P2(-k) * r.choice([1, 1, 3, 1 + r.random()])
        j = r.randint(0, k + 9)
        b = r.choice([1, -1]) * (P2(j) if r.random() < 0.5 else float(r.randint(1 << j, (2 << j) - 1)) if r.random() < 0.5
                                 else math.ldexp(1 + r.random(), j))
        if r.random() < 0.3:
            a = complex(a, r.choice([0.0, -0.0, P2(-k), -P2(-k), TINY]))
        out.append((a, b, "base_next_to_one"))
    n_range = 400 if quick else 8000
    for i in range(n_range):
        # bases over the whole binary64 range with exponents keeping the result inside it; exact powers of 2 and 10
        c = r.random()
        if c < 0.3:
            a, b = 2.0, float(r.randint(-1074, 1023))
        elif c < 0.45:
            a, b = 10.0, float(r.randint(-323, 308))
        elif c < 0.6:
            a, b = r.choice([TINY, P2(-1022), MAXD, P2(1023), 1e300, 1e-300]), r.choice([1.0, -1.0, 0.5, -0.5, 1 / 3., 2.0, 0.0, 1e-3])
        else:
            e = r.randint(-1074, 1023)
            a = math.ldexp(1 + r.random(), e)
            b = r.uniform(-1, 1) * 1000.0 / max(1, abs(e))
        if r.random() < 0.25:
            a = complex(a, r.choice([0.0, -0.0]))
        out.append((a, b, "whole_range"))
    for i in range(60 if quick else 1500):
        # complex bases whose modulus is next to (or beyond) the ends of the binary64 range while the parts are inside
        h = r.choice([MAXD, P2(1023), 1e308, P2(1022), TINY, 3 * TINY, P2(-1070), P2(-1022), P2(-1030)])
        a = complex(r.choice([1, -1]) * h * r.choice([1, 1, 0.75, 0.5, r.random()]), r.choice([1, -1]) * h * r.choice([1, 1, 0.75, 0.5, r.random()]))
        b = r.choice([0.5, 1 / 3., -0.5, 1.0, -1.0, 0.25, 0.9, 1e-3, complex(0.5, 0.0), complex(0.5, 0.5), 2.0 if h < 1 else 0.125])
        out.append((a, b, "modulus_at_range_end"))
    return out


def cut_mirror(w, v):
    """w is (within the tolerance) the value on the other side of a branch cut: conj(v) (cut on the real axis) or -conj(v)
    (cut on the imaginary axis, odd function)"""
    v = complex(v)
    return agree(w, v.conjugate()) or agree(w, -v.conjugate())


def on_cut(name, z):
    """z (complex type) lies exactly on a branch cut of the table function `name`"""
    if name in ("sqrt", "log", "ln", "cbrt"):
        return z.imag == 0 and z.real < 0
    if name in ("asin", "acos"):
        return z.imag == 0 and abs(z.real) > 1
    if name == "atan":
        return z.real == 0 and abs(z.imag) > 1
    return None


def narrow_site(name, x, w, v, cplx, site):
    """a more specific site name when the mechanism of the recorded finding cannot have produced the disagreement (module
    docstring, 'Site attribution'); `site` otherwise"""
    try:
        if name in ("sinpi", "cospi"):
            if abs(x.real) >= 2.0 ** 1023:
                return site                                                 # divmod(x, 0.5) overflows (separate finding)
            if not cplx:
                rr = math.fmod(abs(x), 0.5)                                  # exact
                return site if rr >= 0.4375 else "math2._%s_real" % name
            rr = math.fmod(abs(x.real), 0.5)
            if abs(x.imag) > 4 or (rr >= 0.4375 and abs(complex(w)) < 0.125):
                return site
            return "math2._%s_complex" % name
        if name in ("asin", "acos") and not cplx and x > 1:
            return site if agree(complex(w).conjugate(), v) else site + "[not the conjugate branch]"
        if cplx and (x.real == 0 or x.imag == 0) and on_cut(name, x) is not None:
            if name == "cbrt" and x != 0 and abs(math.log2(abs(x))) >= 200:
                return site                                                 # z**(1./3) far from |z| = 1: finding D24
            if on_cut(name, x):
                return site if cut_mirror(w, v) else site + "[not the value across the cut]"
            return site + "[not on a branch cut]"
    except (OverflowError, ValueError):
        pass
    return site


def power_site(a, b, w, v):
    """site of a disagreement of fp.power: float**float with an integer exponent is libm's pow; a complex-typed base on
    the negative real axis follows the sign of its zero imaginary part (cmath convention; mp has no signed zero) - only
    then, and only if fp's value is the one across the cut, the disagreement is reported as the branch-cut finding"""
    if type(a) is float and type(b) is float and b == math.floor(b):
        return "math2.pow[integer exponent]"
    if type(a) is complex and a.imag == 0 and a.real < 0:
        def thunk():
            old = mp.prec
            try:
                mp.prec = 120
                z = mp.exp(mp.mpmathify(b) * mp.conj(mp.log(mp.mpmathify(a))))
                return complex(z)
            finally:
                mp.prec = old
        st, v2 = guarded(thunk)
        try:
            if st == "ok" and cmath.isfinite(v2) and not agree(w, v) and agree(w, v2):
                return "math2.pow[base on the branch cut]"
        except (OverflowError, ValueError):
            pass
    return "math2.pow"


def run(ctx):
    t0 = time.time()
    r = random.Random(ctx.seed * 15485863 + 43)
    g = DGen(r)
    fails = []
    cov = {"evaluations": 0, "decided": 0, "skipped_out_of_double_range": 0, "no_result": 0, "per_function": {}}
    informational = {}
    samples = []

    def per(name):
        return cov["per_function"].setdefault(name, {"cases": 0, "agree": 0, "failing": 0, "real_branch": 0, "complex_branch": 0})

    def fail(name, site, what, case):
        per(name)["failing"] += 1
        fails.append({"site": site, "what": what, "input": {"case": case}})

    missing = [n for n in FUNS if not hasattr(fp, n)]
    for n in missing:
        fail(n, "ctx_fp.FPContext", "fp.%s does not exist (the property lists the hyperbolic functions and their inverses)" % n,
             {"kind": "missing", "fun": n})
    names = [n for n in FUNS if n not in missing]
    N = 7000 if ctx.quick else 300000
    acc_lines, acc_meta = [], []
    attr_errors = {}
    core = [n for n in names if n in TABLE]
    families = {}

    def check1(name, x, kind, cplx):
        domname, ev = FUNS[name]
        case = {"kind": "fp1", "fun": name, "x": repr(x), "class": kind}
        d = per(name); d["cases"] += 1; cov["evaluations"] += 1
        st_m, v = mp_value(name, [x])
        if st_m == "range":
            cov["skipped_out_of_double_range"] += 1; return
        if st_m == "timeout":
            cov["no_result"] += 1; return
        st_f, w = guarded(lambda: getattr(fp, name)(x))
        if st_f == "exc" and w == "AttributeError":
            attr_errors[name] = attr_errors.get(name, 0) + 1
        if st_f == "timeout":
            cov["no_result"] += 1; return
        cov["decided"] += 1
        site = ("math2." if name in TABLE else "functions.") + name
        if st_m == "exc":
            # mp raises (poles such as cot(0)): fp must not return a finite value silently either
            if st_f == "ok" and isinstance(w, (float, complex)) and cmath.isfinite(w):
                informational.setdefault("mp raises %s, fp returns a finite value" % v, []).append(case)
            return
        if st_m == "special":
            # mp returns an infinity / nan (log(0) = -inf, atanh(1) = inf, ...)
            if st_f != "ok":
                fail(name, "ctx_fp.FPContext" if w == "AttributeError" else site, "fp.%s(%r) raises %s where mp returns %s" % (name, x, w, v), case)
            elif type(w) not in (float, complex) or str(mp.mpmathify(w)) != v:
                fail(name, site, "fp.%s(%r) = %r where mp returns %s" % (name, x, w, v), case)
            return
        if st_f != "ok":
            fail(name, "ctx_fp.FPContext" if w == "AttributeError" else site, "fp.%s(%r) raises %s; mp returns %r" % (name, x, w, v), case)
            return
        if type(w) not in (float, complex):
            fail(name, site, "fp.%s(%r) returns a %s, not float/complex" % (name, x, type(w).__name__), case)
            return
        case["fp"] = repr(w)
        if not cmath.isfinite(w):
            fail(name, site, "fp.%s(%r) = %r is not finite; mp returns %r" % (name, x, w, v), case)
            return
        if not cplx:
            inside = DOM[domname](x)
            if inside:
                d["real_branch"] += 1
                if type(w) is not float and not (isinstance(v, complex)):
                    fail(name, site, "fp.%s(%r) inside the real domain returns the complex %r (mp: %r)" % (name, x, w, v), case)
                    return
            else:
                d["complex_branch"] += 1
                if type(w) is float and isinstance(v, complex) and v.imag != 0:
                    fail(name, site, "fp.%s(%r) outside the real domain returns the float %r, mp returns %r" % (name, x, w, v), case)
                    return
        if agree(w, v):
            d["agree"] += 1
            if len(samples) < 6 and kind in ("near_k_pi_2", "above_one", "complex"):
                samples.append({"fun": name, "x": repr(x), "fp": repr(w), "mp": repr(v)})
        else:
            b = blame(name, [x], w, v)
            fail(name, b or narrow_site(name, x, w, v, cplx, site),
                 "fp.%s(%r) = %r differs from mp's 53-bit value %r by more than max(2^-48 rel, 2^-300 abs)%s" %
                 (name, x, w, v, " [mp at 200 bits agrees with fp: the 53-bit mp value is the inaccurate one]" if b else ""), case)
        if (not cplx) and ev and type(w) is float and DOM[domname](x) and math.isfinite(w):
            mx, ex = dy(x)
            mw, ew = dy(w)
            acc_lines.append("acc %s %d %d %d %d 53 5" % (ev, mx, ex, mw, ew)); acc_meta.append((name, case, w))

    # 1. seeded mixture
    for i in range(N):
        name = names[i % len(names)]
        if attr_errors.get(name, 0) >= 5:
            name = core[i % len(core)]            # a function that cannot be called at all is reported 5 times, not 300
        cplx = r.random() < 0.12
        if cplx:
            a, _ = g.double(name)
            b, _ = g.double(name)
            if abs(a) > 300:
                a = math.copysign(r.random() * 300, a)
            if abs(b) > 300:
                b = math.copysign(r.random() * 300, b)
            x = complex(a, b)
            kind = "complex"
        else:
            x, kind = g.double(name)
        check1(name, x, kind, cplx)

    # 2. structured neighbourhoods of the critical points of every function, real and complex
    rs = random.Random(ctx.seed * 32452843 + 4343)
    scale = 1 if ctx.quick else 25
    for name in names:
        if name in ("cospi", "sinpi"):
            fam = []
            for rep in range(scale):
                fam += [(x if rs.random() < 0.5 else -x, "pi:" + tag) for x, tag in pi_family(rs)]
            cfam = []
            pts = pi_family(rs)
            for x, tag in rs.sample(pts, min(len(pts), 160 * scale)):
                y = rs.choice([0.0, -0.0, TINY, -P2(-1022), P2(-537), P2(-60), -P2(-27), 1e-3, -0.25, 1.0, -3.0, 4.0, 7.5, rs.uniform(-8, 8)])
                cfam.append((complex(x if rs.random() < 0.5 else -x, y), "complex"))
        else:
            fam = real_family(name, rs, 100 * scale)
            cfam = complex_family(name, rs, 130 * scale)
        for x, kind in fam:
            if attr_errors.get(name, 0) >= 5:
                break
            families[kind.split("+")[0]] = families.get(kind.split("+")[0], 0) + 1
            check1(name, x, kind, False)
        for x, kind in cfam:
            if attr_errors.get(name, 0) >= 5:
                break
            families["structured_complex"] = families.get("structured_complex", 0) + 1
            check1(name, x, kind, True)

    # two-argument power
    def check2(a, b, kind):
        case = {"kind": "fp2", "fun": "power", "x": repr(a), "y": repr(b), "class": kind}
        d = per("power"); d["cases"] += 1; cov["evaluations"] += 1
        st_m, v = mp_value("power", [a, b])
        if st_m in ("range", "timeout"):
            cov["skipped_out_of_double_range" if st_m == "range" else "no_result"] += 1; return
        st_f, w = guarded(lambda: fp.power(a, b))
        if st_f == "timeout":
            cov["no_result"] += 1; return
        cov["decided"] += 1
        if st_m in ("exc", "special"):
            return
        site = "math2.pow[integer exponent]" if (type(a) is float and type(b) is float and b == math.floor(b)) else "math2.pow"
        if st_f != "ok":
            big = max(abs(v.real), abs(v.imag)) if isinstance(v, complex) else abs(v)
            if w == "OverflowError" and big >= 2.0 ** 1022:
                cov["skipped_out_of_double_range"] += 1; return      # within a factor 4 of the overflow threshold
            fail("power", site, "fp.power(%r, %r) raises %s; mp returns %r" % (a, b, w, v), case); return
        if type(w) not in (float, complex) and not (type(w) is int):
            fail("power", site, "fp.power(%r, %r) returns a %s" % (a, b, type(w).__name__), case); return
        case["fp"] = repr(w)
        if not cmath.isfinite(w):
            fail("power", site, "fp.power(%r, %r) = %r is not finite; mp returns %r" % (a, b, w, v), case); return
        if agree(w if not isinstance(w, int) else float(w), v):
            d["agree"] += 1
        else:
            bl = blame("power", [a, b], w, v)
            fail("power", bl or power_site(a, b, w, v), "fp.power(%r, %r) = %r differs from mp's %r by more than the tolerance%s" %
                 (a, b, w, v, " [mp at 200 bits agrees with fp: the 53-bit mp value is the inaccurate one]" if bl else ""), case)

    NP = 1000 if ctx.quick else 40000
    for i in range(NP):
        a, ka = g.double("power")
        b, kb = g.double("power")
        if r.random() < 0.5:
            a = r.uniform(-4, 4)
        if r.random() < 0.6:
            b = r.choice([0.5, -0.5, 2.0, 3.0, -1.0, 1 / 3., r.uniform(-6, 6)])
        check2(a, b, "mixture")
    for a, b, kind in power_family(rs, ctx.quick):
        families["power:" + kind.split(":")[0]] = families.get("power:" + kind.split(":")[0], 0) + 1
        check2(a, b, kind)

    verdicts = ask(acc_lines)
    vt = {"ok": 0, "violates": 0, "undecided": 0}
    far = []
    for (name, case, w), a in zip(acc_meta, verdicts):
        vt[a] = vt.get(a, 0) + 1
        if a == "violates" and abs(w) > 2.0 ** -250 and len(far) < 10:
            far.append({"fun": name, "x": case["x"], "fp": repr(w)})
    cov["fp_vs_true_value"] = {"tolerance": "2^-48 relative (acc p=53 k=5)", "verdicts": vt, "violates_examples": far}
    cov["informational"] = {k: {"count": len(v), "example": v[0]} for k, v in informational.items()}
    cov["distinct_nontrivial"] = cov["decided"]
    cov["programs"] = len(cov["per_function"])
    cov["disagreements_checked"] = len(fails)
    cov["undecided"] = cov["skipped_out_of_double_range"] + cov["no_result"]
    cov["rule"] = ("seeded binary64 arguments per function: ordinary, [-1,1], just above 1, 1 +- 2^-k, half-integers, tiny (to subnormal), "
                   "huge, doubles nearest to k*pi/2 (continued fraction of the verified pi enclosure), small integers, signed zeros, +-1, "
                   "random bit patterns, complex pairs; power with two arguments; structured families (module docstring): critical-point "
                   "neighbourhoods of every function in ulps (real, complex, complex-typed reals), cospi/sinpi at the half-integers of every "
                   "binade up to 2^53 and beyond, power with zero bases / integer exponents up to 1000 / bases next to 1 / the whole range. Non-trivial = decided (both fp and mp produced a result "
                   "inside the binary64 range, or one of them raised)")
    cov["samples"] = samples
    cov["input_distribution"] = g.hist
    cov["structured_families"] = families
    cov["missing_in_fp"] = missing
    cov["failing_per_site"] = {}
    for f in fails:
        cov["failing_per_site"][f["site"]] = cov["failing_per_site"].get(f["site"], 0) + 1
    cov["wall_dynamic_s"] = round(time.time() - t0, 1)
    return {"coverage": cov, "failing_inputs": fails, "disagreements": []}


import fp_findings3  # noqa: E402,F401  (registers the predicates of the round-3 findings with findings.PREDICATES)
