"""C43 — the fp context matches mp conventions for elementary functions.

Decisions taken from the property text
 * "fp functions return Python float or complex values": the type of every result must be exactly `float` or `complex`;
   a function of the list that is missing from `fp`, or raises for a finite argument where mp returns a value, fails.
   (Results whose mp value lies outside the binary64 range, |v| >= 2^1024 or 0 < |v| < 2^-1074, are skipped: fp cannot
   represent them.)
 * "For real arguments outside a function's real domain they return the principal complex value instead of raising, as mp
   does": table DOMAIN below — inside the real domain the result must be a float, outside it a complex equal (within
   the tolerance) to mp's value; the real domains are sqrt/log/ln: x >= 0 (log: x > 0), asin/acos/atanh: |x| <= 1
   (atanh: |x| < 1), acosh: x >= 1, cbrt/power with non-integer exponent: x >= 0.
 * "agree with mp at 53 bits to within 2^-48 relative or 2^-300 absolute": with v = mp's value at mp.prec = 53 (double
   argument converted exactly) and w = fp's value, both read exactly as (pairs of) dyadic rationals,
   |w - v| <= max(2^-48 |v|, 2^-300) is decided in exact rational arithmetic (complex values: the modulus, compared through
   squares).  This literal comparison is the pass/fail decision.
 * in addition (DESIGN.md C43) every real in-domain value is sent to the verified evaluator with the same tolerance
   (`acc <f> x w 53 5`, i.e. 2^(5-53) = 2^-48 relative to the TRUE value); the verdicts are reported as
   `fp_vs_true_value`; they do not decide pass/fail (C12 covers mp's own accuracy).
"""
import math, cmath, time, random, struct
from fractions import Fraction
import encl_check as EC
from encl_check import mp, guarded
from encl_ops import ask
from mpmath import fp

LEVEL = "translation_validation"
LEAN_MODULES = ["Props.C12"]
ASSUMPTIONS = [
    "libm / CPython's math and cmath modules are outside the model: fp values are observed, not modelled",
    "the dispatch table (real branch inside the real domain, complex principal value outside) is derived from the property "
    "text; mp at 53 bits is the reference for the agreement clause; the verified evaluator is used only for the "
    "additional comparison with the true value",
    "arguments are sampled binary64 numbers (all classes named by the property); no forall-statement is proved",
]

# function -> (real domain predicate name, evaluator name or None)
FUNS = {
    "sqrt": ("nonneg", "sqrt"), "exp": ("R", "exp"), "log": ("pos", "log"), "ln": ("pos", "log"),
    "sin": ("R", "sin"), "cos": ("R", "cos"), "tan": ("R", "tan"), "cot": ("nozero", "cot"), "sec": ("R", "sec"), "csc": ("nozero", "csc"),
    "sinh": ("R", "sinh"), "cosh": ("R", "cosh"), "tanh": ("R", "tanh"), "coth": ("nozero", None), "sech": ("R", None), "csch": ("nozero", None),
    "asin": ("unit", "asin"), "acos": ("unit", "acos"), "atan": ("R", "atan"), "acot": ("R", None), "asec": ("outside_unit", None), "acsc": ("outside_unit", None),
    "asinh": ("R", "asinh"), "acosh": ("ge1", "acosh"), "atanh": ("openunit", "atanh"), "acoth": ("outside_unit_open", None),
    "asech": ("unit_pos", None), "acsch": ("nozero", None),
    "cbrt": ("nonneg", None), "cospi": ("R", "cospi"), "sinpi": ("R", "sinpi"),
}
# functions bound directly in the FPContext table to math2 wrappers; the others are generic compositions (functions.py)
TABLE = ("sqrt", "exp", "log", "ln", "sin", "cos", "tan", "sinh", "cosh", "tanh", "asin", "acos", "atan", "cbrt", "cospi", "sinpi")
DOM = {
    "R": lambda x: True, "nonneg": lambda x: x >= 0, "pos": lambda x: x > 0, "nozero": lambda x: x != 0,
    "unit": lambda x: -1 <= x <= 1, "openunit": lambda x: -1 < x < 1, "ge1": lambda x: x >= 1,
    "outside_unit": lambda x: abs(x) >= 1, "outside_unit_open": lambda x: abs(x) > 1, "unit_pos": lambda x: 0 < x <= 1,
}
TOL_REL = Fraction(1, 2 ** 48)
TOL_ABS = Fraction(1, 2 ** 300)


def fr(x):
    return Fraction(x)            # exact for floats


def dy(x):
    """(m, e) of a finite float, exactly"""
    if x == 0:
        return (0, 0)
    f = Fraction(x)
    e = -(f.denominator.bit_length() - 1)
    return (f.numerator, e)


def agree(w, v):
    """|w - v| <= max(2^-48 |v|, 2^-300) exactly; w, v: float or complex (python), mp values converted before"""
    if isinstance(w, complex) or isinstance(v, complex):
        w, v = complex(w), complex(v)
        d2 = (fr(w.real) - fr(v.real)) ** 2 + (fr(w.imag) - fr(v.imag)) ** 2
        m2 = fr(v.real) ** 2 + fr(v.imag) ** 2
        return d2 <= max(TOL_REL ** 2 * m2, TOL_ABS ** 2)
    d = abs(fr(w) - fr(v))
    return d <= max(TOL_REL * abs(fr(v)), TOL_ABS)


def mp_value_hp(name, args, prec=200):
    """mp's value at `prec` bits rounded to binary64 parts (tie-breaker for site attribution only; not rigorous)"""
    def thunk():
        old = mp.prec
        try:
            mp.prec = prec
            v = getattr(mp, name)(*[mp.mpmathify(a) for a in args])
            return complex(v) if isinstance(v, mp.mpc) else float(v)
        finally:
            mp.prec = old
    st, v = guarded(thunk)
    return v if st == "ok" else None


def blame(name, args, w, v):
    """which side of a disagreement is the inaccurate one, judged by mp at 200 bits"""
    h = mp_value_hp(name, args)
    try:
        if h is not None and cmath.isfinite(h) and agree(w, h) and not agree(v, h):
            return "mp." + name
    except (OverflowError, ValueError):
        pass
    return None


def mp_value(name, args):
    """mp's value at 53 bits as exact python float/complex (53-bit mpf -> float is exact inside the double range);
    ('ok', value) | ('range', None) | ('exc', name) | ('special', str)"""
    def thunk():
        old = mp.prec
        try:
            mp.prec = 53
            return getattr(mp, name)(*[mp.mpmathify(a) for a in args])
        finally:
            mp.prec = old
    st, v = guarded(thunk)
    if st != "ok":
        return (st, v)
    parts = [v.real, v.imag] if isinstance(v, mp.mpc) else [v]
    out = []
    for q in parts:
        if not mp.isfinite(q):
            return ("special", str(v))
        if q != 0:
            s, man, ex, bc = q._mpf_
            if ex + bc > 1024 or ex < -1074:
                return ("range", None)
        out.append(float(q))
    return ("ok", complex(out[0], out[1]) if isinstance(v, mp.mpc) else out[0])


class DGen:
    def __init__(self, r):
        self.r = r
        self.hist = {}

    def note(self, k):
        self.hist[k] = self.hist.get(k, 0) + 1

    def double(self, name):
        r = self.r
        c = r.random()
        if c < 0.25:
            k, x = "ordinary", r.uniform(-8, 8)
        elif c < 0.35:
            k, x = "unit", r.uniform(-1, 1)
        elif c < 0.43:
            k, x = "above_one", r.choice([1, -1]) * (1 + r.random() * r.choice([1e-12, 1e-3, 1, 100]))
        elif c < 0.50:
            kk = r.randint(1, 52)
            k, x = "near_one", r.choice([1, -1]) * (1 + r.choice([1, -1]) * 2.0 ** -kk)
        elif c < 0.57:
            k, x = "half_integer", r.choice([1, -1]) * r.randint(0, 1 << r.choice([3, 20, 52])) / 2.0
        elif c < 0.64:
            k, x = "tiny", r.choice([1, -1]) * math.ldexp(1 + r.random(), -r.choice([30, 100, 500, 1000, 1060]))
        elif c < 0.71:
            k, x = "huge", r.choice([1, -1]) * math.ldexp(1 + r.random(), r.choice([30, 60, 200, 700, 1000]))
        elif c < 0.80:
            k = "near_k_pi_2"
            e = r.randint(-55, 200)
            t = EC.nearest_to_k_pi_2(53, e)
            x = math.ldexp(t[0] + r.choice([0, 0, 1, -1]), e) * r.choice([1, -1]) if t else 1.5
        elif c < 0.86:
            k, x = "small_integer", float(r.randint(-10, 10))
        elif c < 0.90:
            k, x = "signed_zero", r.choice([0.0, -0.0])
        elif c < 0.94:
            k, x = "one", r.choice([1.0, -1.0])
        else:
            k, x = "random_bits", struct.unpack("<d", struct.pack("<Q", r.getrandbits(64)))[0]
            if x != x or x in (float("inf"), float("-inf")):
                x = 0.75
        if name in ("exp", "sinh", "cosh", "cospi", "sinpi") and abs(x) > 700 and name in ("exp", "sinh", "cosh"):
            x = math.copysign(700 * self.r.random(), x)
        self.note(k)
        return x, k


def run(ctx):
    t0 = time.time()
    r = random.Random(ctx.seed * 15485863 + 43)
    g = DGen(r)
    fails = []
    cov = {"evaluations": 0, "decided": 0, "skipped_out_of_double_range": 0, "no_result": 0, "per_function": {}}
    informational = {}
    samples = []

    def per(name):
        return cov["per_function"].setdefault(name, {"cases": 0, "agree": 0, "failing": 0, "real_branch": 0, "complex_branch": 0})

    def fail(name, site, what, case):
        per(name)["failing"] += 1
        fails.append({"site": site, "what": what, "input": {"case": case}})

    missing = [n for n in FUNS if not hasattr(fp, n)]
    for n in missing:
        fail(n, "ctx_fp.FPContext", "fp.%s does not exist (the property lists the hyperbolic functions and their inverses)" % n,
             {"kind": "missing", "fun": n})
    names = [n for n in FUNS if n not in missing]
    N = 9000 if ctx.quick else 300000
    acc_lines, acc_meta = [], []
    attr_errors = {}
    core = [n for n in names if n in TABLE]
    for i in range(N):
        name = names[i % len(names)]
        if attr_errors.get(name, 0) >= 5:
            name = core[i % len(core)]            # a function that cannot be called at all is reported 5 times, not 300
        domname, ev = FUNS[name]
        cplx = r.random() < 0.12
        if cplx:
            a, _ = g.double(name)
            b, _ = g.double(name)
            if abs(a) > 300:
                a = math.copysign(r.random() * 300, a)
            if abs(b) > 300:
                b = math.copysign(r.random() * 300, b)
            x = complex(a, b)
            kind = "complex"
        else:
            x, kind = g.double(name)
        case = {"kind": "fp1", "fun": name, "x": repr(x), "class": kind}
        d = per(name); d["cases"] += 1; cov["evaluations"] += 1
        st_m, v = mp_value(name, [x])
        if st_m == "range":
            cov["skipped_out_of_double_range"] += 1; continue
        if st_m == "timeout":
            cov["no_result"] += 1; continue
        st_f, w = guarded(lambda: getattr(fp, name)(x))
        if st_f == "exc" and w == "AttributeError":
            attr_errors[name] = attr_errors.get(name, 0) + 1
        if st_f == "timeout":
            cov["no_result"] += 1; continue
        cov["decided"] += 1
        site = ("math2." if name in TABLE else "functions.") + name
        if st_m == "exc":
            # mp raises (poles such as cot(0)): fp must not return a finite value silently either
            if st_f == "ok" and isinstance(w, (float, complex)) and cmath.isfinite(w):
                informational.setdefault("mp raises %s, fp returns a finite value" % v, []).append(case)
            continue
        if st_m == "special":
            # mp returns an infinity / nan (log(0) = -inf, atanh(1) = inf, ...)
            if st_f != "ok":
                fail(name, "ctx_fp.FPContext" if w == "AttributeError" else site, "fp.%s(%r) raises %s where mp returns %s" % (name, x, w, v), case)
            elif type(w) not in (float, complex) or str(mp.mpmathify(w)) != v:
                fail(name, site, "fp.%s(%r) = %r where mp returns %s" % (name, x, w, v), case)
            continue
        if st_f != "ok":
            fail(name, "ctx_fp.FPContext" if w == "AttributeError" else site, "fp.%s(%r) raises %s; mp returns %r" % (name, x, w, v), case)
            continue
        if type(w) not in (float, complex):
            fail(name, site, "fp.%s(%r) returns a %s, not float/complex" % (name, x, type(w).__name__), case)
            continue
        case["fp"] = repr(w)
        if not cmath.isfinite(w):
            fail(name, site, "fp.%s(%r) = %r is not finite; mp returns %r" % (name, x, w, v), case)
            continue
        if not cplx:
            inside = DOM[domname](x)
            if inside:
                d["real_branch"] += 1
                if type(w) is not float and not (isinstance(v, complex)):
                    fail(name, site, "fp.%s(%r) inside the real domain returns the complex %r (mp: %r)" % (name, x, w, v), case)
                    continue
            else:
                d["complex_branch"] += 1
                if type(w) is float and isinstance(v, complex) and v.imag != 0:
                    fail(name, site, "fp.%s(%r) outside the real domain returns the float %r, mp returns %r" % (name, x, w, v), case)
                    continue
        if agree(w, v):
            d["agree"] += 1
            if len(samples) < 6 and kind in ("near_k_pi_2", "above_one", "complex"):
                samples.append({"fun": name, "x": repr(x), "fp": repr(w), "mp": repr(v)})
        else:
            b = blame(name, [x], w, v)
            fail(name, b or site, "fp.%s(%r) = %r differs from mp's 53-bit value %r by more than max(2^-48 rel, 2^-300 abs)%s" %
                 (name, x, w, v, " [mp at 200 bits agrees with fp: the 53-bit mp value is the inaccurate one]" if b else ""), case)
        if (not cplx) and ev and type(w) is float and DOM[domname](x) and math.isfinite(w):
            mx, ex = dy(x)
            mw, ew = dy(w)
            acc_lines.append("acc %s %d %d %d %d 53 5" % (ev, mx, ex, mw, ew)); acc_meta.append((name, case, w))

    # two-argument power
    NP = 1500 if ctx.quick else 40000
    for i in range(NP):
        a, ka = g.double("power")
        b, kb = g.double("power")
        if r.random() < 0.5:
            a = r.uniform(-4, 4)
        if r.random() < 0.6:
            b = r.choice([0.5, -0.5, 2.0, 3.0, -1.0, 1 / 3., r.uniform(-6, 6)])
        case = {"kind": "fp2", "fun": "power", "x": repr(a), "y": repr(b)}
        d = per("power"); d["cases"] += 1; cov["evaluations"] += 1
        st_m, v = mp_value("power", [a, b])
        if st_m in ("range", "timeout"):
            cov["skipped_out_of_double_range" if st_m == "range" else "no_result"] += 1; continue
        st_f, w = guarded(lambda: fp.power(a, b))
        if st_f == "timeout":
            cov["no_result"] += 1; continue
        cov["decided"] += 1
        if st_m in ("exc", "special"):
            continue
        if st_f != "ok":
            if w == "OverflowError":
                cov["skipped_out_of_double_range"] += 1; continue
            fail("power", "math2.pow", "fp.power(%r, %r) raises %s; mp returns %r" % (a, b, w, v), case); continue
        if type(w) not in (float, complex) and not (type(w) is int):
            fail("power", "math2.pow", "fp.power(%r, %r) returns a %s" % (a, b, type(w).__name__), case); continue
        if not cmath.isfinite(w):
            fail("power", "math2.pow", "fp.power(%r, %r) = %r is not finite; mp returns %r" % (a, b, w, v), case); continue
        if agree(w if not isinstance(w, int) else float(w), v):
            d["agree"] += 1
        else:
            fail("power", "math2.pow", "fp.power(%r, %r) = %r differs from mp's %r by more than the tolerance" % (a, b, w, v), case)

    verdicts = ask(acc_lines)
    vt = {"ok": 0, "violates": 0, "undecided": 0}
    far = []
    for (name, case, w), a in zip(acc_meta, verdicts):
        vt[a] = vt.get(a, 0) + 1
        if a == "violates" and abs(w) > 2.0 ** -250 and len(far) < 10:
            far.append({"fun": name, "x": case["x"], "fp": repr(w)})
    cov["fp_vs_true_value"] = {"tolerance": "2^-48 relative (acc p=53 k=5)", "verdicts": vt, "violates_examples": far}
    cov["informational"] = {k: {"count": len(v), "example": v[0]} for k, v in informational.items()}
    cov["distinct_nontrivial"] = cov["decided"]
    cov["programs"] = len(cov["per_function"])
    cov["disagreements_checked"] = len(fails)
    cov["undecided"] = cov["skipped_out_of_double_range"] + cov["no_result"]
    cov["rule"] = ("seeded binary64 arguments per function: ordinary, [-1,1], just above 1, 1 +- 2^-k, half-integers, tiny (to subnormal), "
                   "huge, doubles nearest to k*pi/2 (continued fraction of the verified pi enclosure), small integers, signed zeros, +-1, "
                   "random bit patterns, complex pairs; power with two arguments. Non-trivial = decided (both fp and mp produced a result "
                   "inside the binary64 range, or one of them raised)")
    cov["samples"] = samples
    cov["input_distribution"] = g.hist
    cov["missing_in_fp"] = missing
    cov["failing_per_site"] = {}
    for f in fails:
        cov["failing_per_site"][f["site"]] = cov["failing_per_site"].get(f["site"], 0) + 1
    cov["wall_dynamic_s"] = round(time.time() - t0, 1)
    return {"coverage": cov, "failing_inputs": fails, "disagreements": []}
