"""C34 — ODE solutions are accurate and independent of evaluation order (proved exact solutions + proved store logic).

The real odefun runs in worker subprocesses on y' = a*y, the harmonic oscillator (2-vector) and y' = -y^2 with rational data.
Per case: a scout run learns the segment boundaries; then the SAME multiset of queries (random dyadic points, exact segment
boundary points, repeated points, with the caller's precision changed between queries) is evaluated in several orders on fresh
solution objects, and the closure's lists (series_boundaries, series_data) are inspected.
  * accuracy: every returned component, read exactly, is decided by the Lean checker against the exact solution
    (Props/C34.lean: solRef denotes THE solution: it satisfies the ODE and the initial condition, uniqueness by Gronwall);
  * history independence (T1 on the store): the stored boundaries of every history are a prefix of one sequence
    (segments_prefix), and the value returned for the same (x, caller precision) is bit-identical in every history;
  * precision independence: the value at caller precision q is the correct rounding of the value at full working precision.
Props/C34.lean proves the positive part (off boundaries / inside the stored range) and REFUTES full history independence at
segment boundaries (get_series: bisect is left-closed but the extension loop exits on x <= xb).
"""
import json, random
from fractions import Fraction
import calc_ops as CO
from calc_ops import rtok, dy_tokens, is_dy, ode_tokens

LEVEL = "translation_validation"
LEAN_MODULES = ["MpProofs.CalcRef", "MpProofs.CalcOde", "MpProofs.CalcLogicB", "Props.C34"]
ASSUMPTIONS = [
    "'within the requested tolerance (default about 2^(10-p))' is instantiated as |y - y_exact| <= 2^10 * tol * max(|y_exact|, 1) with "
    "tol = 2^-p by default (p = mp.prec when odefun was called) or the tol argument (a power of two)",
    "problems: y' = a*y (|a| <= 3), harmonic oscillator (w <= 4), y' = -y^2 (y0 > 0), rational data, x0 and query points dyadic, "
    "x - x0 <= 4; the right-hand side is evaluated by mpmath at the precision ode_taylor sets",
    "history independence is checked bit-exactly on the returned values (same x, same caller precision) and on the closure's "
    "series_boundaries list; the full working-precision value is observed by calling the interpolant with mp.prec = workprec + 8",
    "the quantifier over problems/histories is sampled; the exact solutions and the store logic (prefix property, unique segment off "
    "boundaries, termination) are proved, and full history independence at boundary points is refuted in Lean on a concrete witness",
]


def gen_ode(r):
    k = r.choice(["lin", "lin", "osc", "osc", "riccati"])
    x0 = Fraction(r.randint(-16, 16), 8)
    if k == "lin":
        return {"ode": "lin", "a": rtok(Fraction(r.choice([-3, -2, -1, 1, 2, 3, 1, -1]), r.choice([1, 2, 3]))),
                "x0": rtok(x0), "y0": rtok(Fraction(r.choice([1, 1, 2, -3, 5]), r.choice([1, 2, 4])))}
    if k == "osc":
        return {"ode": "osc", "w": rtok(Fraction(r.choice([1, 1, 2, 3, 4]), r.choice([1, 2]))), "x0": rtok(x0),
                "c0": rtok(Fraction(r.randint(-4, 4), r.choice([1, 2]))), "s0": rtok(Fraction(r.randint(1, 4), r.choice([1, 3])))}
    return {"ode": "riccati", "x0": rtok(x0), "y0": rtok(Fraction(r.randint(1, 12), r.choice([1, 2, 4, 3])))}


def case_ode(r, st, quick):
    ode = gen_ode(r)
    prec = r.choice([30, 53, 53, 64, 100, 150] if quick else [30, 53, 64, 100, 150, 200, 300])
    x0 = Fraction(ode["x0"])
    span = Fraction(r.choice([1, 2, 4, 8, 16, 32]), 8)
    xmax = x0 + span
    t = {"kind": "odefun", "ode": ode, "prec": prec, "xmax": rtok(xmax), "vector_form": ode["ode"] != "osc" and r.random() < 0.3,
         "timeout": 30 if quick else 180}
    tol_exp = None
    if r.random() < 0.25:
        tol_exp = r.choice([10, 20, prec // 2, prec - 5])
        t["tol_exp"] = tol_exp
    if r.random() < 0.2:
        t["degree"] = r.choice([12, 16, 20, 30])
    # queries
    nq = r.randint(4, 9)
    queries = []
    for _ in range(nq):
        k = r.random()
        if k < 0.45:
            xs = rtok(x0 + span * Fraction(r.randint(0, 64), 64))
        elif k < 0.55:
            xs = rtok(x0)
        else:
            xs = ["b", r.randint(1, 12)]          # exact boundary point of the scout run
        qp = r.choice([prec, prec, "full", "full", max(20, prec - 13), prec + 17])
        queries.append([xs, qp])
    # repeated queries (same point twice, possibly at the two observation precisions)
    for _ in range(r.randint(1, 3)):
        q = list(r.choice(queries))
        queries.append([q[0], r.choice([q[1], "full"])])
    n = len(queries)
    orders = [list(range(n))]
    for _ in range(2):
        o = list(range(n)); r.shuffle(o); orders.append(o)
    orders.append(sorted(range(n), key=lambda i: -i))
    t["queries"] = queries; t["orders"] = orders
    st.note("ode", ode["ode"]); st.note("prec", prec); st.note("tol", "default" if tol_exp is None else "explicit")
    st.note("boundary_queries", sum(1 for q in queries if isinstance(q[0], list)))
    ot = ode_tokens(ode)
    dim = 2 if ode["ode"] == "osc" else 1
    p_tol = prec if tol_exp is None else tol_exp

    def lines(res):
        out = {}
        h0 = res["hist"][0]
        for v in h0["vals"]:
            x, qp = res["queries"][v["i"]]
            xq = rtok(CO.dy_fraction(x))
            for c, y in enumerate(v["v"]):
                if is_dy(y):
                    # the caller's rounding to qp bits adds at most 2^-qp relative: only full/at-least-prec observations are judged
                    if qp >= prec:
                        out["a%d_%d" % (v["i"], c)] = "odeval %s %d %s %s %d 10" % (ot, c, xq, dy_tokens(y), p_tol)
        return out

    def judge(res, ans):
        bad, und = [], []
        # (1) accuracy
        for k_, a in ans.items():
            if a == "violates":
                bad.append("accuracy:%s" % k_)
            elif a != "ok":
                und.append(k_)
        # (2) boundaries: prefix property across histories and the scout
        lists = [res["scout_boundaries"]] + [h["boundaries"] for h in res["hist"]]
        for L in lists:
            for M in lists:
                m = min(len(L), len(M))
                if L[:m] != M[:m]:
                    bad.append("store: boundaries of two histories are not prefixes of one sequence")
        for h in res["hist"]:
            if h["ndata"] != len(h["boundaries"]) - 1:
                bad.append("store: len(series_data) != len(series_boundaries) - 1")
        # (3) bit-identical values across histories for the same query (same x, same caller precision)
        by_q = {}
        for hi, h in enumerate(res["hist"]):
            for v in h["vals"]:
                x, qp = res["queries"][v["i"]]
                by_q.setdefault((json.dumps(x), qp), []).append((hi, v["i"], json.dumps(v["v"])))
        on_boundary = set(json.dumps(b) for b in res["scout_boundaries"])
        for (xj, qp), lst in by_q.items():
            vals = set(v for _, _, v in lst)
            if len(vals) > 1:
                kind_ = "boundary" if xj in on_boundary else "interior"
                st.note("order_dependence", kind_)
                bad.append("order-dependence[%s point x=%s, caller prec %s]: %d different values over %d evaluations" %
                           (kind_, xj, qp, len(vals), len(lst)))
        if res.get("prec_after") != prec:
            bad.append("working precision not restored")
        bad = sorted(set(bad))
        if bad:
            return "violates", "; ".join(bad[:4])
        return ("undecided", None) if und else ("ok", None)

    return {"task": t, "site": "calculus.odes.odefun", "lines": lines, "judge": judge, "nontrivial": True}


def run(ctx):
    r = random.Random(ctx.seed)
    st = CO.Stats()
    quick = ctx.quick
    n = 150 if quick else 4000
    cases = [case_ode(r, st, quick) for _ in range(n)]
    info, fails = CO.run_cases(cases, ctx, nworkers=6, default_timeout=30.0, budget_s=70 if quick else 3000)
    # split the failing inputs by what failed, so that the order-dependence finding has its own stable site
    out = []
    for f in fails:
        w = f["what"]
        if "order-dependence[boundary" in w and "accuracy" not in w and "store:" not in w and "interior" not in w:
            f = dict(f, site="calculus.odes.odefun.get_series[boundary]")
        elif "accuracy" in w and "order-dependence" not in w and "store:" not in w:
            f = dict(f, site="calculus.odes.odefun[accuracy]")
        out.append(f)
    s = info["summary"]
    evaluations = sum(sum(len(h["vals"]) for h in c["res"]["ok"]["hist"]) for c in cases if "ok" in c.get("res", {}))
    cov = {
        "evaluations": evaluations,
        "distinct_nontrivial": info["distinct_nontrivial"],
        "programs": 3,   # odefun scalar form, vector form, get_series store
        "disagreements_checked": evaluations,
        "traces_validated_against_impl": sum(len(c["res"]["ok"]["hist"]) for c in cases if "ok" in c.get("res", {})),
        "rule": "ODE with rational data from the three proved families; 4-12 queries (random dyadic points, exact boundary points of a scout run, "
                "repeats; caller precision in {p, p-13, p+17, workprec+8}) evaluated in 4 orders on fresh solution objects; non-trivial = all "
                "histories ran and every judged value was decided by the Lean checker",
        "cases": s, "undecided": s.get("undecided", 0),
        "input_distribution": st.as_dict(),
        "samples": [{"input": x["input"]} for x in info["samples"][:2]],
    }
    return {"coverage": cov, "failing_inputs": out, "disagreements": []}
