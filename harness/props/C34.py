"""C34 — ODE solutions are accurate and independent of evaluation order (proved exact solutions + proved store logic).

The real odefun runs in worker subprocesses on y' = a*y, the harmonic oscillator (2-vector) and y' = -y^2 with rational data.
Per case: a scout run learns the segment boundaries; then the SAME multiset of queries (random dyadic points, exact segment
boundary points, repeated points, with the caller's precision changed between queries) is evaluated in several orders on fresh
solution objects, and the closure's lists (series_boundaries, series_data) are inspected.
  * accuracy: every returned component, read exactly, is decided by the Lean checker against the exact solution
    (Props/C34.lean: solRef denotes THE solution: it satisfies the ODE and the initial condition, uniqueness by Gronwall);
  * history independence (T1 on the store): the stored boundaries of every history are a prefix of one sequence
    (segments_prefix), and the value returned for the same (x, caller precision) is bit-identical in every history;
  * precision independence: the value at caller precision q is the correct rounding of the value at full working precision.
Props/C34.lean proves the positive part (off boundaries / inside the stored range) and REFUTES full history independence at
segment boundaries (get_series: bisect is left-closed but the extension loop exits on x <= xb).
Vector systems beyond the oscillator: DECOUPLED systems of 2-4 scalar problems of the proved families from one x0 (worker kind 'dec'),
one component with a huge last Taylor coefficient, the others with tiny ones, every sign pattern and every position, each system run
in both component orders with the same plan; component i of every value is decided against the exact solution of scalar problem i,
so a step size that is not governed by the least smooth component (whatever its position or the sign of its coefficients) is seen.
"""
import json, random
from fractions import Fraction
import calc_ops as CO
from calc_ops import rtok, dy_tokens, is_dy, ode_tokens

LEVEL = "translation_validation"
LEAN_MODULES = ["MpProofs.CalcRef", "MpProofs.CalcOde", "MpProofs.CalcLogicB", "Props.C34", "Props.C34tol"]
ASSUMPTIONS = [
    "'within the requested tolerance (default about 2^(10-p))' is instantiated as |y - y_exact| <= 2^10 * tol * max(|y_exact|, 1) with "
    "tol = 2^-p by default (p = mp.prec when odefun was called) or the tol argument (a power of two)",
    "an EXPLICIT tolerance tol = 2^-t with 20 <= t <= p - 10 is additionally decided literally ('within the requested tolerance'): "
    "|y - y_exact| <= tol * max(|y_exact|, 1) for every value observed at a caller precision >= p; these inputs have their own site "
    "odefun[accuracy,explicit-tol]: for t + 10 <= p the first Taylor segment has enough working precision (p*(n+1) >= (t+10)*n bits), so "
    "the mechanism of the known finding CA-odefun-acc (first segment computed with too few bits at the DEFAULT tolerance) is absent",
    "explicit-tolerance runs also use the non-autonomous problem y' = -2(x-c)y^2, y(x0) = y0 > 0, c <= x0 (exact solution "
    "1/(1/y0 + (x-c)^2 - (x0-c)^2), Props/C34tol.lean); for c = x0 and an odd Taylor degree the top Taylor coefficient at x0 is exactly "
    "zero; those inputs are reported under the site odefun[accuracy,explicit-tol,top-taylor-coefficient-zero]",
    "problems: y' = a*y (|a| <= 3), harmonic oscillator (w <= 4), y' = -y^2 (y0 > 0), rational data, x0 and query points dyadic, "
    "x - x0 <= 4; the right-hand side is evaluated by mpmath at the precision ode_taylor sets",
    "decoupled vector systems y_i' = f_i(x, y_i), i < m, 2 <= m <= 4, every f_i from the scalar families above (lin with |a| <= 8 here, "
    "riccati, ricx) with the common x0: component i of the solution of the system IS the solution of scalar problem i (the system's "
    "right-hand side is locally Lipschitz, so its solution is unique, and the tuple of scalar solutions solves it), hence it is decided "
    "against solRef of problem i with the same accuracy clause; explicit-tolerance inputs are reported under odefun[accuracy,explicit-tol] "
    "(or the top-taylor-coefficient-zero site when a component whose last Taylor coefficient at x0 is exactly zero would have needed a "
    "smaller first step than the other components enforce, decided from the exact coefficients c_(n-1), c_n), default-tolerance inputs "
    "under odefun[accuracy,decoupled-system]",
    "a non-finite returned value violates the accuracy clause; a returned value of magnitude above 2^(E+200), where 2^E is an elementary "
    "bound of the exact solution (|y0| e^(|a|(x-x0)) for lin, y0 for riccati/ricx, |c0|(1+w) + |s0|(1+1/w) for osc), is declared a "
    "violation by the harness without asking the exact checker (which would have to expand 2^e); a non-zero value below 2^-4000 is "
    "left undecided",
    "history independence is checked bit-exactly on the returned values (same x, same caller precision) and on the closure's "
    "series_boundaries list; the full working-precision value is observed by calling the interpolant with mp.prec = workprec + 8",
    "the quantifier over problems/histories is sampled; the exact solutions and the store logic (prefix property, unique segment off "
    "boundaries, termination) are proved, and full history independence at boundary points is refuted in Lean on a concrete witness",
]


def gen_ode(r):
    k = r.choice(["lin", "lin", "osc", "osc", "riccati"])
    x0 = Fraction(r.randint(-16, 16), 8)
    if k == "lin":
        return {"ode": "lin", "a": rtok(Fraction(r.choice([-3, -2, -1, 1, 2, 3, 1, -1]), r.choice([1, 2, 3]))),
                "x0": rtok(x0), "y0": rtok(Fraction(r.choice([1, 1, 2, -3, 5]), r.choice([1, 2, 4])))}
    if k == "osc":
        return {"ode": "osc", "w": rtok(Fraction(r.choice([1, 1, 2, 3, 4]), r.choice([1, 2]))), "x0": rtok(x0),
                "c0": rtok(Fraction(r.randint(-4, 4), r.choice([1, 2]))), "s0": rtok(Fraction(r.randint(1, 4), r.choice([1, 3])))}
    return {"ode": "riccati", "x0": rtok(x0), "y0": rtok(Fraction(r.randint(1, 12), r.choice([1, 2, 4, 3])))}


def gen_ricx(r):
    """y' = -2(x-c)y^2: c = x0 (every odd Taylor coefficient at x0 vanishes) or c < x0 (none does)"""
    x0 = Fraction(r.randint(-16, 16), 8)
    c = x0 if r.random() < 0.4 else x0 - Fraction(r.randint(1, 16), 8)
    return {"ode": "ricx", "c": rtok(c), "x0": rtok(x0), "y0": rtok(Fraction(r.randint(1, 12), r.choice([1, 2, 4, 3])))}


# ---- decoupled vector systems (components of different scales and signs, each with a proved scalar reference) ---------

_SMALL = [Fraction(1, 64), Fraction(1, 32), Fraction(1, 16), Fraction(1, 100), Fraction(3, 64), Fraction(1, 8)]


def gen_part(r, role, x0):
    """one scalar problem (without x0) for a component of a decoupled system.
       role 'rough' : large last Taylor coefficient (of either sign): this component must govern the step size;
       role 'smooth': tiny last Taylor coefficient (of either sign): its own radius estimate is capped at 1;
       role 'any'   : the data of the scalar classes"""
    k = r.choice(["lin", "riccati", "ricx"])
    sgn = r.choice([1, -1])
    if role == "any":
        d = gen_ode(r) if k != "ricx" else gen_ricx(r)
        while d["ode"] == "osc":
            d = gen_ode(r)
        if d["ode"] == "ricx":      # keep c <= x0 relative to the system's x0
            d["c"] = rtok(x0 - (Fraction(d["x0"]) - Fraction(d["c"])))
        d = dict(d); d.pop("x0")
        return d
    if k == "lin":
        if role == "rough":
            return {"ode": "lin", "a": rtok(sgn * Fraction(r.choice([4, 5, 6, 8, 8]), 1)),
                    "y0": rtok(r.choice([1, -1]) * Fraction(r.choice([1, 2, 5, 7]), r.choice([1, 2])))}
        return {"ode": "lin", "a": rtok(sgn * Fraction(r.choice([1, 1, 2]), r.choice([3, 4, 8]))),
                "y0": rtok(r.choice([1, -1]) * r.choice([Fraction(1), Fraction(1, 64), Fraction(5), Fraction(3, 2), Fraction(1, 100)]))}
    y0 = Fraction(r.randint(2, 12), r.choice([1, 1, 2])) if role == "rough" else r.choice(_SMALL)
    if k == "riccati":
        return {"ode": "riccati", "y0": rtok(y0)}
    c = x0 if r.random() < 0.25 else x0 - Fraction(r.randint(1, 16), 8)
    return {"ode": "ricx", "c": rtok(c), "y0": rtok(y0)}


def gen_dec(r):
    """2-4 decoupled scalar problems from one x0: exactly one 'rough' component at a random position, the others smooth (mostly) or
    arbitrary, so that the last Taylor coefficients differ by many orders of magnitude and in sign between the components"""
    x0 = Fraction(r.randint(-16, 16), 8)
    m = r.choice([2, 2, 2, 3, 3, 4])
    roles = ["rough"] + [r.choice(["smooth", "smooth", "smooth", "any"]) for _ in range(m - 1)]
    parts = [gen_part(r, role, x0) for role in roles]
    pos = r.randrange(m)
    parts[0], parts[pos] = parts[pos], parts[0]
    return {"ode": "dec", "x0": rtok(x0), "parts": parts}


def dec_reversed(ode):
    return dict(ode, parts=list(reversed(ode["parts"])))


def taylor_tail(part, x0, n):
    """exact Taylor coefficients (c_{n-1}, c_n) at x0 of the solution of the scalar problem `part`"""
    k = part["ode"]
    y0 = Fraction(part["y0"])
    if k == "lin":
        a = Fraction(part["a"])
        f = 1
        for j in range(2, n):
            f *= j
        return y0 * a ** (n - 1) / f, y0 * a ** n / (f * n)
    if k == "riccati":
        return (-1) ** (n - 1) * y0 ** n, (-1) ** n * y0 ** (n + 1)
    # ricx: y = 1/(A + B u + u^2), u = x - x0, A = 1/y0, B = 2 (x0 - c)
    A = 1 / y0
    B = 2 * (Fraction(x0) - Fraction(part["c"]))
    g2, g1 = Fraction(0), 1 / A
    for _ in range(n):
        g2, g1 = g1, -(B * g1 + g2) / A
    return g2, g1


def sol_log2_bound(ode, c, dx):
    """an integer E with |component c of the exact solution at x0 + dx| < 2^E (dx >= 0): used only to decide absurdly large returned
    values (|y| > 2^(E+200)) without expanding them exactly"""
    def bl(q):
        q = abs(Fraction(q))
        return int(q.numerator // q.denominator + 1).bit_length()
    k = ode["ode"]
    if k == "dec":
        return sol_log2_bound(ode["parts"][c], 0, dx)
    if k == "lin":          # |y0| e^(|a| dx), e^z <= 2^(1.4427 z)
        z = abs(Fraction(ode["a"])) * max(Fraction(dx), 0) * Fraction(14427, 10000)
        return bl(ode["y0"]) + int(z) + 2
    if k == "osc":          # |y0| <= |c0| + |s0/w|, |y1| <= |c0 w| + |s0|
        w, c0, s0 = abs(Fraction(ode["w"])), abs(Fraction(ode["c0"])), abs(Fraction(ode["s0"]))
        return bl(c0 * (1 + w) + s0 * (1 + 1 / w))
    return bl(ode["y0"])    # riccati, ricx: 0 < y <= y0 on [x0, oo)


def dec_profile(ode, n, tol_prec):
    """which component should govern the first step (smallest radius estimate tol/|c_n| -> largest |c_n|), the sign of its last
    coefficient, whether a component whose last coefficient is exactly zero would have needed a smaller step (judged by c_{n-1})"""
    import math
    x0 = Fraction(ode["x0"])
    tails = [taylor_tail(p, x0, n) for p in ode["parts"]]

    def rad(c, m):
        if c == 0:
            return 1.0
        c = abs(c)
        lg = -tol_prec - (math.log2(c.numerator) - math.log2(c.denominator))
        return min(1.0, 2.0 ** (lg / m))
    rs = [rad(c, n) for _, c in tails]
    dom = min(range(len(rs)), key=lambda i: rs[i])
    r_used = rs[dom]
    zero_dominates = any(c == 0 and rad(c1, n - 1) < 0.75 * r_used for c1, c in tails)
    smax = max(range(len(tails)), key=lambda i: tails[i][1])
    return {"dominant": dom, "dominant_sign": "neg" if tails[dom][1] < 0 else "pos", "radius": r_used,
            "second_radius": sorted(rs)[1] if len(rs) > 1 else r_used, "signed_max_is_dominant": smax == dom,
            "zero_dominates": zero_dominates}


def case_ode(r, st, quick, explicit=False, dec=None):
    """explicit=True: the explicit-tolerance class (tol = 2^-t, 20 <= t <= prec - 10), mostly nonlinear right-hand sides"""
    if dec is not None:
        # decoupled vector system (given, so that the same plan can be run on a permutation of the components); mostly explicit tolerance,
        # where the requested tolerance is decided literally and the known first-segment defect is absent
        ode = dec
        explicit = r.random() < 0.7
    else:
        ode = gen_ode(r)
    prec = r.choice([30, 53, 53, 64, 100, 150] if quick else [30, 53, 64, 100, 150, 200, 300])
    if explicit:
        k = r.random()
        if dec is not None:
            pass
        elif k < 0.45:
            while ode["ode"] != "riccati":
                ode = gen_ode(r)
        elif k < 0.8:
            ode = gen_ricx(r)
        prec = r.choice([53, 53, 64, 100, 100, 150, 200] if quick else [53, 64, 100, 150, 200, 300])
    x0 = Fraction(ode["x0"])
    span = Fraction(r.choice([1, 2, 4, 8, 16, 32]), 8)
    xmax = x0 + span
    t = {"kind": "odefun", "ode": ode, "prec": prec, "xmax": rtok(xmax), "vector_form": ode["ode"] != "osc" and r.random() < 0.3,
         "timeout": 30 if quick else 180}
    if dec is not None:
        t["vector_form"] = False        # a 'dec' system is a vector system by construction
        t["timeout"] = 30 if quick else 90
    tol_exp = None
    if r.random() < 0.25:
        tol_exp = r.choice([10, 20, prec // 2, prec - 5])
        t["tol_exp"] = tol_exp
    if explicit:
        tol_exp = r.randint(20, prec - 10)
        t["tol_exp"] = tol_exp
    if r.random() < 0.2:
        t["degree"] = r.choice([12, 16, 20, 30] if not explicit else [12, 16, 21, 30, 41])
    # queries
    nq = r.randint(4, 9)
    queries = []
    for _ in range(nq):
        k = r.random()
        if k < 0.45:
            xs = rtok(x0 + span * Fraction(r.randint(0, 64), 64))
        elif k < 0.55:
            xs = rtok(x0)
        else:
            xs = ["b", r.randint(1, 12)]          # exact boundary point of the scout run
        qp = r.choice([prec, prec, "full", "full", max(20, prec - 13), prec + 17])
        queries.append([xs, qp])
    # repeated queries (same point twice, possibly at the two observation precisions)
    for _ in range(r.randint(1, 3)):
        q = list(r.choice(queries))
        queries.append([q[0], r.choice([q[1], "full"])])
    n = len(queries)
    orders = [list(range(n))]
    for _ in range(2):
        o = list(range(n)); r.shuffle(o); orders.append(o)
    orders.append(sorted(range(n), key=lambda i: -i))
    t["queries"] = queries; t["orders"] = orders
    st.note("ode", ode["ode"]); st.note("prec", prec); st.note("tol", "default" if tol_exp is None else "explicit")
    st.note("boundary_queries", sum(1 for q in queries if isinstance(q[0], list)))
    if dec is not None:
        # component c of the system is judged against the reference of ITS OWN scalar problem (component 0 of that problem)
        comp = [dict(p, x0=ode["x0"]) for p in ode["parts"]]
        comp = [("odevalx" if p["ode"] == "ricx" else "odeval", ode_tokens(p), 0) for p in comp]
        st.note("dec_dim", len(comp)); st.note("dec_kinds", "+".join(p["ode"] for p in ode["parts"]))
    else:
        ot = ode_tokens(ode)
        op = "odevalx" if ode["ode"] == "ricx" else "odeval"
        comp = [(op, ot, c) for c in range(2 if ode["ode"] == "osc" else 1)]
    p_tol = prec if tol_exp is None else tol_exp
    # the explicit-tolerance class: the requested tolerance is decided literally (k = 0) and under its own site
    tol_class = tol_exp is not None and 20 <= tol_exp <= prec - 10
    st.note("tol_class", "explicit 2^-t, 20<=t<=p-10" if tol_class else ("explicit, other" if tol_exp is not None else "default"))
    if tol_class:
        st.note("explicit_tol_ode", ode["ode"]); st.note("explicit_tol_t/p", "%.1f" % (round(5.0 * tol_exp / prec) / 5))

    pre = {}        # observations decided without the driver (non-finite or absurdly large values), filled by lines()

    def lines(res):
        out = {}
        h0 = res["hist"][0]
        for v in h0["vals"]:
            x, qp = res["queries"][v["i"]]
            xq = rtok(CO.dy_fraction(x))
            # the caller's rounding to qp bits adds at most 2^-qp relative: only full/at-least-prec observations are judged
            if qp < prec:
                continue
            for c, y in enumerate(v["v"][:len(comp)]):
                names = ["a%d_%d" % (v["i"], c)] + (["s%d_%d" % (v["i"], c)] if tol_class else [])
                if not is_dy(y):
                    # nan / inf returned for an in-domain problem: no tolerance is met
                    for nm in names:
                        pre[nm] = "violates"
                    continue
                e = abs(int(y[0])).bit_length() + int(y[1])
                if int(y[0]) != 0 and e > sol_log2_bound(ode, c, CO.dy_fraction(x) - x0) + 200:
                    # |y| >= 2^199 * (a bound of |y_exact|): decided here, the exact checker is not asked to expand 2^e
                    for nm in names:
                        pre[nm] = "violates"
                    continue
                if int(y[0]) != 0 and e < -4000:
                    for nm in names:
                        pre[nm] = "undecided"
                    continue
                op, ot, ci = comp[c]
                out[names[0]] = "%s %s %d %s %s %d 10" % (op, ot, ci, xq, dy_tokens(y), p_tol)
                if tol_class:
                    out[names[1]] = "%s %s %d %s %s %d 0" % (op, ot, ci, xq, dy_tokens(y), p_tol)
        return out

    def judge(res, ans):
        ans = dict(ans, **pre)
        bad, und = [], []
        deg = res.get("degree_used")
        prof = None
        if dec is not None:
            # every value is a vector with one entry per component, each an exact finite number
            for h in res["hist"]:
                for v in h["vals"]:
                    if len(v["v"]) != len(comp) or not all(is_dy(y) for y in v["v"]):
                        bad.append("vector system of %d components: a returned value is not a vector of %d finite numbers" %
                                   (len(comp), len(comp)))
            if deg is not None and res.get("tol_prec_used") is not None:
                prof = dec_profile(ode, int(deg), int(res["tol_prec_used"]))
                st.note("dec_dominant_component", "%d of %d" % (prof["dominant"], len(comp)))
                st.note("dec_dominant_last_coeff", "%s, %s" % (prof["dominant_sign"], "is the signed max" if prof["signed_max_is_dominant"]
                                                               else "is NOT the signed max"))
                st.note("dec_radius_ratio_2nd/1st", "%.0f" % min(64.0, prof["second_radius"] / prof["radius"]))
        # (1) accuracy
        nstrict = n10 = 0
        worst = set()
        for k_, a in ans.items():
            if a == "violates":
                worst.add(k_.split("_")[-1])
                if tol_class:
                    nstrict += k_.startswith("s")
                    n10 += k_.startswith("a")
                elif dec is None:
                    bad.append("accuracy:%s" % k_)
            elif a != "ok":
                und.append(k_)
        if dec is not None and worst:
            bad.append("accuracy[decoupled system %s]: component(s) %s miss the exact solution of their own scalar problem%s" %
                       ("+".join(p["ode"] for p in ode["parts"]), ",".join(sorted(worst)),
                        "" if prof is None else "; the first step should be governed by component %d (last Taylor coefficient %s)" %
                        (prof["dominant"], "negative" if prof["dominant_sign"] == "neg" else "positive")))
        if nstrict or n10:
            zero_top = ode["ode"] == "ricx" and ode["c"] == ode["x0"] and deg is not None and deg % 2 == 1
            if dec is not None:
                # the recorded defect (an exactly zero last coefficient is skipped by the radius estimate) acts on a system only when the
                # skipped component would have needed a smaller first step than the one the other components enforce
                zero_top = prof is not None and prof["zero_dominates"]
            bad.append("accuracy[explicit-tol%s]: %d observed value(s) differ from the exact solution by more than the requested "
                       "tol = 2^-%d (times max(|y|,1)), %d of them by more than 2^10*tol; mp.prec = %d, Taylor degree %s" %
                       (",top-taylor-coefficient-zero" if zero_top else "", nstrict,
                        tol_exp, n10, prec, deg))
        # (2) boundaries: prefix property across histories and the scout
        lists = [res["scout_boundaries"]] + [h["boundaries"] for h in res["hist"]]
        for L in lists:
            for M in lists:
                m = min(len(L), len(M))
                if L[:m] != M[:m]:
                    bad.append("store: boundaries of two histories are not prefixes of one sequence")
        for h in res["hist"]:
            if h["ndata"] != len(h["boundaries"]) - 1:
                bad.append("store: len(series_data) != len(series_boundaries) - 1")
        # (3) bit-identical values across histories for the same query (same x, same caller precision)
        by_q = {}
        for hi, h in enumerate(res["hist"]):
            for v in h["vals"]:
                x, qp = res["queries"][v["i"]]
                by_q.setdefault((json.dumps(x), qp), []).append((hi, v["i"], json.dumps(v["v"])))
        on_boundary = set(json.dumps(b) for b in res["scout_boundaries"])
        for (xj, qp), lst in by_q.items():
            vals = set(v for _, _, v in lst)
            if len(vals) > 1:
                kind_ = "boundary" if xj in on_boundary else "interior"
                st.note("order_dependence", kind_)
                bad.append("order-dependence[%s point x=%s, caller prec %s]: %d different values over %d evaluations" %
                           (kind_, xj, qp, len(vals), len(lst)))
        if res.get("prec_after") != prec:
            bad.append("working precision not restored")
        bad = sorted(set(bad))
        if bad:
            return "violates", "; ".join(bad[:4])
        return ("undecided", None) if und else ("ok", None)

    return {"task": t, "site": "calculus.odes.odefun", "lines": lines, "judge": judge, "nontrivial": True}


def run(ctx):
    r = random.Random(ctx.seed)
    st = CO.Stats()
    quick = ctx.quick
    n = 150 if quick else 1400
    cases = [case_ode(r, st, quick) for _ in range(n)]
    # explicit-tolerance class from its own generator stream (the older stream is unchanged)
    r2 = random.Random(ctx.seed * 7919 + 34)
    cases += [case_ode(r2, st, quick, explicit=True) for _ in range(60 if quick else 560)]
    # decoupled vector systems from their own stream: every system is run in both component orders with the SAME plan
    r3 = random.Random(ctx.seed * 104729 + 3434)
    dcases = []
    for _ in range(28 if quick else 100):
        ode = gen_dec(r3)
        k = r3.getrandbits(64)
        dcases.append(case_ode(random.Random(k), st, quick, dec=ode))
        dcases.append(case_ode(random.Random(k), st, quick, dec=dec_reversed(ode)))
    # (thorough: run them first, the time budget cuts the tail of the list)
    cases = cases + dcases if quick else dcases + cases
    info, fails = CO.run_cases(cases, ctx, nworkers=6, default_timeout=30.0, budget_s=100 if quick else 1500)
    # split the failing inputs by what failed, so that the order-dependence finding has its own stable site
    out = []
    for f in fails:
        w = f["what"]
        if "order-dependence[boundary" in w and "accuracy" not in w and "store:" not in w and "interior" not in w:
            f = dict(f, site="calculus.odes.odefun.get_series[boundary]")
        elif "accuracy[explicit-tol,top-taylor-coefficient-zero]" in w and "order-dependence[interior" not in w and "store:" not in w:
            f = dict(f, site="calculus.odes.odefun[accuracy,explicit-tol,top-taylor-coefficient-zero]")
        elif "accuracy[explicit-tol]" in w:
            # the requested tolerance is missed where the known first-segment defect cannot act: never merged with other sites
            f = dict(f, site="calculus.odes.odefun[accuracy,explicit-tol]")
        elif "decoupled system" in w and "order-dependence" not in w and "store:" not in w:
            # default / other tolerance on a decoupled vector system: its own site (not merged with the scalar first-segment finding)
            f = dict(f, site="calculus.odes.odefun[accuracy,decoupled-system]")
        elif "accuracy" in w and "order-dependence" not in w and "store:" not in w:
            f = dict(f, site="calculus.odes.odefun[accuracy]")
        out.append(f)
    # report the most blatant miss of an explicit tolerance first (the runner prints the first violation)
    out.sort(key=lambda f: 0 if ("accuracy[explicit-tol]" in f["what"] and ", 0 of them by more than 2^10*tol" not in f["what"]) else 1)
    s = info["summary"]
    evaluations = sum(sum(len(h["vals"]) for h in c["res"]["ok"]["hist"]) for c in cases if "ok" in c.get("res", {}))
    cov = {
        "evaluations": evaluations,
        "distinct_nontrivial": info["distinct_nontrivial"],
        "programs": 4,   # odefun scalar form, vector form (default and explicit tolerance / degree), decoupled m-vector systems, get_series store
        "disagreements_checked": evaluations,
        "traces_validated_against_impl": sum(len(c["res"]["ok"]["hist"]) for c in cases if "ok" in c.get("res", {})),
        "rule": "ODE with rational data from the proved families, or a decoupled system of 2-4 of them (one rough component, both component "
                "orders); 4-12 queries (random dyadic points, exact boundary points of a scout run, "
                "repeats; caller precision in {p, p-13, p+17, workprec+8}) evaluated in 4 orders on fresh solution objects; non-trivial = all "
                "histories ran and every judged value was decided by the Lean checker",
        "cases": s, "undecided": s.get("undecided", 0),
        "input_distribution": st.as_dict(),
        "samples": [{"input": x["input"]} for x in info["samples"][:2]],
    }
    return {"coverage": cov, "failing_inputs": out, "disagreements": []}
