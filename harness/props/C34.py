"""C34 — ODE solutions are accurate and independent of evaluation order (proved exact solutions + proved store logic).

The real odefun runs in worker subprocesses on y' = a*y, the harmonic oscillator (2-vector) and y' = -y^2 with rational data.
Per case: a scout run learns the segment boundaries; then the SAME multiset of queries (random dyadic points, exact segment
boundary points, repeated points, with the caller's precision changed between queries) is evaluated in several orders on fresh
solution objects, and the closure's lists (series_boundaries, series_data) are inspected.
  * accuracy: every returned component, read exactly, is decided by the Lean checker against the exact solution
    (Props/C34.lean: solRef denotes THE solution: it satisfies the ODE and the initial condition, uniqueness by Gronwall);
  * history independence (T1 on the store): the stored boundaries of every history are a prefix of one sequence
    (segments_prefix), and the value returned for the same (x, caller precision) is bit-identical in every history;
  * precision independence: the value at caller precision q is the correct rounding of the value at full working precision.
Props/C34.lean proves the positive part (off boundaries / inside the stored range) and REFUTES full history independence at
segment boundaries (get_series: bisect is left-closed but the extension loop exits on x <= xb).
"""
import json, random
from fractions import Fraction
import calc_ops as CO
from calc_ops import rtok, dy_tokens, is_dy, ode_tokens

LEVEL = "translation_validation"
LEAN_MODULES = ["MpProofs.CalcRef", "MpProofs.CalcOde", "MpProofs.CalcLogicB", "Props.C34", "Props.C34tol"]
ASSUMPTIONS = [
    "'within the requested tolerance (default about 2^(10-p))' is instantiated as |y - y_exact| <= 2^10 * tol * max(|y_exact|, 1) with "
    "tol = 2^-p by default (p = mp.prec when odefun was called) or the tol argument (a power of two)",
    "an EXPLICIT tolerance tol = 2^-t with 20 <= t <= p - 10 is additionally decided literally ('within the requested tolerance'): "
    "|y - y_exact| <= tol * max(|y_exact|, 1) for every value observed at a caller precision >= p; these inputs have their own site "
    "odefun[accuracy,explicit-tol]: for t + 10 <= p the first Taylor segment has enough working precision (p*(n+1) >= (t+10)*n bits), so "
    "the mechanism of the known finding CA-odefun-acc (first segment computed with too few bits at the DEFAULT tolerance) is absent",
    "explicit-tolerance runs also use the non-autonomous problem y' = -2(x-c)y^2, y(x0) = y0 > 0, c <= x0 (exact solution "
    "1/(1/y0 + (x-c)^2 - (x0-c)^2), Props/C34tol.lean); for c = x0 and an odd Taylor degree the top Taylor coefficient at x0 is exactly "
    "zero; those inputs are reported under the site odefun[accuracy,explicit-tol,top-taylor-coefficient-zero]",
    "problems: y' = a*y (|a| <= 3), harmonic oscillator (w <= 4), y' = -y^2 (y0 > 0), rational data, x0 and query points dyadic, "
    "x - x0 <= 4; the right-hand side is evaluated by mpmath at the precision ode_taylor sets",
    "history independence is checked bit-exactly on the returned values (same x, same caller precision) and on the closure's "
    "series_boundaries list; the full working-precision value is observed by calling the interpolant with mp.prec = workprec + 8",
    "the quantifier over problems/histories is sampled; the exact solutions and the store logic (prefix property, unique segment off "
    "boundaries, termination) are proved, and full history independence at boundary points is refuted in Lean on a concrete witness",
]


def gen_ode(r):
    k = r.choice(["lin", "lin", "osc", "osc", "riccati"])
    x0 = Fraction(r.randint(-16, 16), 8)
    if k == "lin":
        return {"ode": "lin", "a": rtok(Fraction(r.choice([-3, -2, -1, 1, 2, 3, 1, -1]), r.choice([1, 2, 3]))),
                "x0": rtok(x0), "y0": rtok(Fraction(r.choice([1, 1, 2, -3, 5]), r.choice([1, 2, 4])))}
    if k == "osc":
        return {"ode": "osc", "w": rtok(Fraction(r.choice([1, 1, 2, 3, 4]), r.choice([1, 2]))), "x0": rtok(x0),
                "c0": rtok(Fraction(r.randint(-4, 4), r.choice([1, 2]))), "s0": rtok(Fraction(r.randint(1, 4), r.choice([1, 3])))}
    return {"ode": "riccati", "x0": rtok(x0), "y0": rtok(Fraction(r.randint(1, 12), r.choice([1, 2, 4, 3])))}


def gen_ricx(r):
    """y' = -2(x-c)y^2: c = x0 (every odd Taylor coefficient at x0 vanishes) or c < x0 (none does)"""
    x0 = Fraction(r.randint(-16, 16), 8)
    c = x0 if r.random() < 0.4 else x0 - Fraction(r.randint(1, 16), 8)
    return {"ode": "ricx", "c": rtok(c), "x0": rtok(x0), "y0": rtok(Fraction(r.randint(1, 12), r.choice([1, 2, 4, 3])))}


def case_ode(r, st, quick, explicit=False):
    """explicit=True: the explicit-tolerance class (tol = 2^-t, 20 <= t <= prec - 10), mostly nonlinear right-hand sides"""
    ode = gen_ode(r)
    prec = r.choice([30, 53, 53, 64, 100, 150] if quick else [30, 53, 64, 100, 150, 200, 300])
    if explicit:
        k = r.random()
        if k < 0.45:
            while ode["ode"] != "riccati":
                ode = gen_ode(r)
        elif k < 0.8:
            ode = gen_ricx(r)
        prec = r.choice([53, 53, 64, 100, 100, 150, 200] if quick else [53, 64, 100, 150, 200, 300])
    x0 = Fraction(ode["x0"])
    span = Fraction(r.choice([1, 2, 4, 8, 16, 32]), 8)
    xmax = x0 + span
    t = {"kind": "odefun", "ode": ode, "prec": prec, "xmax": rtok(xmax), "vector_form": ode["ode"] != "osc" and r.random() < 0.3,
         "timeout": 30 if quick else 180}
    tol_exp = None
    if r.random() < 0.25:
        tol_exp = r.choice([10, 20, prec // 2, prec - 5])
        t["tol_exp"] = tol_exp
    if explicit:
        tol_exp = r.randint(20, prec - 10)
        t["tol_exp"] = tol_exp
    if r.random() < 0.2:
        t["degree"] = r.choice([12, 16, 20, 30] if not explicit else [12, 16, 21, 30, 41])
    # queries
    nq = r.randint(4, 9)
    queries = []
    for _ in range(nq):
        k = r.random()
        if k < 0.45:
            xs = rtok(x0 + span * Fraction(r.randint(0, 64), 64))
        elif k < 0.55:
            xs = rtok(x0)
        else:
            xs = ["b", r.randint(1, 12)]          # exact boundary point of the scout run
        qp = r.choice([prec, prec, "full", "full", max(20, prec - 13), prec + 17])
        queries.append([xs, qp])
    # repeated queries (same point twice, possibly at the two observation precisions)
    for _ in range(r.randint(1, 3)):
        q = list(r.choice(queries))
        queries.append([q[0], r.choice([q[1], "full"])])
    n = len(queries)
    orders = [list(range(n))]
    for _ in range(2):
        o = list(range(n)); r.shuffle(o); orders.append(o)
    orders.append(sorted(range(n), key=lambda i: -i))
    t["queries"] = queries; t["orders"] = orders
    st.note("ode", ode["ode"]); st.note("prec", prec); st.note("tol", "default" if tol_exp is None else "explicit")
    st.note("boundary_queries", sum(1 for q in queries if isinstance(q[0], list)))
    ot = ode_tokens(ode)
    op = "odevalx" if ode["ode"] == "ricx" else "odeval"
    dim = 2 if ode["ode"] == "osc" else 1
    p_tol = prec if tol_exp is None else tol_exp
    # the explicit-tolerance class: the requested tolerance is decided literally (k = 0) and under its own site
    tol_class = tol_exp is not None and 20 <= tol_exp <= prec - 10
    st.note("tol_class", "explicit 2^-t, 20<=t<=p-10" if tol_class else ("explicit, other" if tol_exp is not None else "default"))
    if tol_class:
        st.note("explicit_tol_ode", ode["ode"]); st.note("explicit_tol_t/p", "%.1f" % (round(5.0 * tol_exp / prec) / 5))

    def lines(res):
        out = {}
        h0 = res["hist"][0]
        for v in h0["vals"]:
            x, qp = res["queries"][v["i"]]
            xq = rtok(CO.dy_fraction(x))
            for c, y in enumerate(v["v"]):
                if is_dy(y):
                    # the caller's rounding to qp bits adds at most 2^-qp relative: only full/at-least-prec observations are judged
                    if qp >= prec:
                        out["a%d_%d" % (v["i"], c)] = "%s %s %d %s %s %d 10" % (op, ot, c, xq, dy_tokens(y), p_tol)
                        if tol_class:
                            out["s%d_%d" % (v["i"], c)] = "%s %s %d %s %s %d 0" % (op, ot, c, xq, dy_tokens(y), p_tol)
        return out

    def judge(res, ans):
        bad, und = [], []
        # (1) accuracy
        nstrict = n10 = 0
        for k_, a in ans.items():
            if a == "violates":
                if tol_class:
                    nstrict += k_.startswith("s")
                    n10 += k_.startswith("a")
                else:
                    bad.append("accuracy:%s" % k_)
            elif a != "ok":
                und.append(k_)
        if nstrict or n10:
            deg = res.get("degree_used")
            zero_top = ode["ode"] == "ricx" and ode["c"] == ode["x0"] and deg is not None and deg % 2 == 1
            bad.append("accuracy[explicit-tol%s]: %d observed value(s) differ from the exact solution by more than the requested "
                       "tol = 2^-%d (times max(|y|,1)), %d of them by more than 2^10*tol; mp.prec = %d, Taylor degree %s" %
                       (",top-taylor-coefficient-zero" if zero_top else "", nstrict,
                        tol_exp, n10, prec, deg))
        # (2) boundaries: prefix property across histories and the scout
        lists = [res["scout_boundaries"]] + [h["boundaries"] for h in res["hist"]]
        for L in lists:
            for M in lists:
                m = min(len(L), len(M))
                if L[:m] != M[:m]:
                    bad.append("store: boundaries of two histories are not prefixes of one sequence")
        for h in res["hist"]:
            if h["ndata"] != len(h["boundaries"]) - 1:
                bad.append("store: len(series_data) != len(series_boundaries) - 1")
        # (3) bit-identical values across histories for the same query (same x, same caller precision)
        by_q = {}
        for hi, h in enumerate(res["hist"]):
            for v in h["vals"]:
                x, qp = res["queries"][v["i"]]
                by_q.setdefault((json.dumps(x), qp), []).append((hi, v["i"], json.dumps(v["v"])))
        on_boundary = set(json.dumps(b) for b in res["scout_boundaries"])
        for (xj, qp), lst in by_q.items():
            vals = set(v for _, _, v in lst)
            if len(vals) > 1:
                kind_ = "boundary" if xj in on_boundary else "interior"
                st.note("order_dependence", kind_)
                bad.append("order-dependence[%s point x=%s, caller prec %s]: %d different values over %d evaluations" %
                           (kind_, xj, qp, len(vals), len(lst)))
        if res.get("prec_after") != prec:
            bad.append("working precision not restored")
        bad = sorted(set(bad))
        if bad:
            return "violates", "; ".join(bad[:4])
        return ("undecided", None) if und else ("ok", None)

    return {"task": t, "site": "calculus.odes.odefun", "lines": lines, "judge": judge, "nontrivial": True}


def run(ctx):
    r = random.Random(ctx.seed)
    st = CO.Stats()
    quick = ctx.quick
    n = 150 if quick else 1500
    cases = [case_ode(r, st, quick) for _ in range(n)]
    # explicit-tolerance class from its own generator stream (the older stream is unchanged)
    r2 = random.Random(ctx.seed * 7919 + 34)
    cases += [case_ode(r2, st, quick, explicit=True) for _ in range(60 if quick else 600)]
    info, fails = CO.run_cases(cases, ctx, nworkers=6, default_timeout=30.0, budget_s=100 if quick else 1500)
    # split the failing inputs by what failed, so that the order-dependence finding has its own stable site
    out = []
    for f in fails:
        w = f["what"]
        if "order-dependence[boundary" in w and "accuracy" not in w and "store:" not in w and "interior" not in w:
            f = dict(f, site="calculus.odes.odefun.get_series[boundary]")
        elif "accuracy[explicit-tol,top-taylor-coefficient-zero]" in w and "order-dependence[interior" not in w and "store:" not in w:
            f = dict(f, site="calculus.odes.odefun[accuracy,explicit-tol,top-taylor-coefficient-zero]")
        elif "accuracy[explicit-tol]" in w:
            # the requested tolerance is missed where the known first-segment defect cannot act: never merged with other sites
            f = dict(f, site="calculus.odes.odefun[accuracy,explicit-tol]")
        elif "accuracy" in w and "order-dependence" not in w and "store:" not in w:
            f = dict(f, site="calculus.odes.odefun[accuracy]")
        out.append(f)
    # report the most blatant miss of an explicit tolerance first (the runner prints the first violation)
    out.sort(key=lambda f: 0 if ("accuracy[explicit-tol]" in f["what"] and ", 0 of them by more than 2^10*tol" not in f["what"]) else 1)
    s = info["summary"]
    evaluations = sum(sum(len(h["vals"]) for h in c["res"]["ok"]["hist"]) for c in cases if "ok" in c.get("res", {}))
    cov = {
        "evaluations": evaluations,
        "distinct_nontrivial": info["distinct_nontrivial"],
        "programs": 3,   # odefun scalar form, vector form (default and explicit tolerance / degree), get_series store
        "disagreements_checked": evaluations,
        "traces_validated_against_impl": sum(len(c["res"]["ok"]["hist"]) for c in cases if "ok" in c.get("res", {})),
        "rule": "ODE with rational data from the three proved families; 4-12 queries (random dyadic points, exact boundary points of a scout run, "
                "repeats; caller precision in {p, p-13, p+17, workprec+8}) evaluated in 4 orders on fresh solution objects; non-trivial = all "
                "histories ran and every judged value was decided by the Lean checker",
        "cases": s, "undecided": s.get("undecided", 0),
        "input_distribution": st.as_dict(),
        "samples": [{"input": x["input"]} for x in info["samples"][:2]],
    }
    return {"coverage": cov, "failing_inputs": out, "disagreements": []}
