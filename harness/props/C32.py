"""C32 — matrix functions are mutually consistent (verified identity checking).

expm (taylor and pade), logm, sqrtm, powm, cosm, sinm run in worker processes (hard timeout: e.g. logm of a singular
matrix does not terminate); every intermediate result is read exactly and the composite identities are evaluated in
exact Gaussian-dyadic arithmetic by the compiled Lean checker (tolerances: linalg_ops.__doc__).
"""
import json
from fractions import Fraction
from common import *  # noqa
import linalg_ops as LA
from linalg_ops import MGen, Engine, tok, toks_of, flat, has_nonfinite, S

LEVEL = "translation_validation"
LEAN_MODULES = ["MpProofs.Cert", "MpProofs.CertResid", "Props.C32"]
ASSUMPTIONS = [
    "'within ||A||*2^(10-p) relative error' is instantiated as Frobenius residual <= 2^(10-p) * ||A||_F * max(1, ||A||_F) for "
    "expm(logm A) = A and sqrtm(A)^2 = A, 2^(10-p) * ||A||_F^k * max(1, ||A||_F) for powm(A,k) = A^k (A^k exact), and "
    "2^(10-p) * max(1,||A||_F) * max(sqrt n, ||C||_F^2 + ||S||_F^2) for cosm^2 + sinm^2 = I",
    "inputs are diagonalizable by construction (S D S^-1 with unimodular integer S and distinct-or-repeated integer/dyadic "
    "eigenvalues, symmetric positive definite, diagonal) with spectrum in the open right half plane for logm/sqrtm "
    "(away from the branch cut)",
    "expm(D) = diag(exp(d)) for diagonal D: off-diagonal entries must be exactly 0; diagonal entries are compared in the harness "
    "(exact rational arithmetic) with mp.exp(d) evaluated at 2p+40 bits, assumed accurate to 2^-(2p+30) relative "
    "(property C12), tolerance 2^(10-p) * max(1,||D||) relative",
    "nonsingular matrices with negative real eigenvalues (the documented sqrtm([[-1,0],[0,1]]), sqrtm([[1,1],[1,0]])) are given to "
    "sqrtm and powm(A, y/2) to reach the singular-iterate branch; they lie outside the property's quantifier (spectra away from the "
    "branch cut): a failure there is recorded as not applicable (coverage: per_class negaxis), never as a violation",
    "powm with non-integer exponent: X = powm(A, y/d), d in {2,4}, is decided as ||X^d - A^y||_F <= 2^(10-p) ||A||_F^y max(1,||A||_F) "
    "(X^d and A^y exact), the tolerance of powm(A, y)",
    "'moderate norm': eigenvalues between 2^-30 and 6*2^20 in modulus; 'diagonalizable' with a moderate eigenvector condition as in "
    "the old classes: S D S^-1 with S a product of at most 2n elementary integer row operations, diagonal, or triangular with "
    "eigenvalue gaps >= 1/2 and fill <= 3",
    "a history is one public call repeated at ascending precisions in a process started for it; the property is required of every "
    "stage (the value at precision p must not depend on what ran before at other precisions)",
]


def diagonalizable(g, n, p, cplx, positive):
    """exact S D S^-1, S unimodular; eigenvalues small integers or dyadics; positive -> real parts > 0"""
    r = g.r
    how = r.choice(["similar", "similar", "spd", "diagonal", "upper_distinct"])
    if how == "spd":
        A = g.matrix("spd", n, p, cplx, kind="int")
        return how, A
    lams = []
    for _ in range(n):
        re = r.randint(1, 6) if positive else r.randint(-4, 4)
        if r.random() < 0.3:
            lam = S(2 * re + 1, -1, (r.randint(-3, 3) if cplx else 0), 0)
        else:
            lam = S(re, 0, (r.randint(-3, 3) if cplx else 0), 0)
        lams.append(lam)
    Z = S(0)
    D = [[lams[i] if i == j else Z for j in range(n)] for i in range(n)]
    if how == "diagonal":
        return how, D
    if how == "upper_distinct":
        # distinct diagonal entries => diagonalizable
        seen = set()
        for i in range(n):
            while LA.frac(D[i][i]) in seen:
                D[i][i] = MGen.s_add(D[i][i], S(1))
            seen.add(LA.frac(D[i][i]))
        for i in range(n):
            for j in range(i + 1, n):
                D[i][j] = S(r.randint(-3, 3))
        return how, D
    Sm, Si = g.unimodular(n)
    return how, MGen.m_mul(MGen.m_mul(Sm, D), Si)


def _case(g, op, positive, extra=None, max_n=6):
    r = g.r
    p = g.prec()
    n = min(g.size(), max_n)
    cplx = r.random() < 0.35
    how, A = diagonalizable(g, n, p, cplx, positive)
    g.note("class", how)
    g.note("field", "complex" if LA.is_cplx_matrix(A) else "real")
    task = {"op": op, "prec": p, "cplx": cplx and LA.is_cplx_matrix(A), "A": toks_of(A)}
    task.update(extra or {})
    return p, n, how, A, task


def _judge_simple(site, what):
    def judge(c, res, ans):
        if "exc" in res:
            return "violates", "%s raised %s: %s" % (site, res["exc"], res.get("msg"))
        if not ans:
            return "violates", "non-finite entries in the output"
        bad = {k: v for k, v in ans.items() if v != "V:ok"}
        if not bad:
            return "ok", None
        return "violates", what + ": " + json.dumps(bad)
    return judge


def _noresult(c, res, ans):
    return "violates", "no result within the time limit (in-domain input)"


def case_explog(g):
    method = g.r.choice(["taylor", "pade"])
    g.note("expm_method", method)
    p, n, how, A, task = _case(g, "explog", True, {"method": method})
    At = flat(task["A"])

    def lines(c, res):
        o = (res or {}).get("ok")
        if o and not has_nonfinite(o["X"], o["L"]):
            return {"cert": "cert_close %d %d %s %s" % (n, p, At, flat(o["X"]))}
        return {}
    return {"task": task, "site": "calculus.expm(logm)[%s]" % method, "cls": how, "lines": lines,
            "judge": _judge_simple("expm(logm(A))", "expm(logm(A)) differs from A"), "nontrivial": n >= 2,
            "noresult_judge": _noresult}


def case_sqrtm(g):
    p, n, how, A, task = _case(g, "sqrtm", True)
    At = flat(task["A"])

    def lines(c, res):
        o = (res or {}).get("ok")
        if o and not has_nonfinite(o["X"]):
            return {"cert": "cert_sqrtm %d %d %s %s" % (n, p, At, flat(o["X"]))}
        return {}
    return {"task": task, "site": "calculus.sqrtm", "cls": how, "lines": lines,
            "judge": _judge_simple("sqrtm", "sqrtm(A)^2 differs from A"), "nontrivial": n >= 2, "noresult_judge": _noresult}


def case_powm(g):
    k = g.r.randint(0, 5)
    p, n, how, A, task = _case(g, "powm", False, {"k": k})
    At = flat(task["A"])
    g.note("powm_k", k)

    def lines(c, res):
        o = (res or {}).get("ok")
        if o and not has_nonfinite(o["X"]):
            return {"cert": "cert_powm %d %d %d %s %s" % (n, k, p, At, flat(o["X"]))}
        return {}
    return {"task": task, "site": "calculus.powm", "cls": how, "lines": lines,
            "judge": _judge_simple("powm", "powm(A,%d) differs from the exact power" % k), "nontrivial": n >= 2 and k >= 2,
            "noresult_judge": _noresult}


def case_cossin(g):
    p, n, how, A, task = _case(g, "cossin", False)
    At = flat(task["A"])

    def lines(c, res):
        o = (res or {}).get("ok")
        if o and not has_nonfinite(o["C"], o["S"]):
            return {"cert": "cert_cossin %d %d %s %s %s" % (n, p, At, flat(o["C"]), flat(o["S"]))}
        return {}
    return {"task": task, "site": "calculus.cosm/sinm", "cls": how, "lines": lines,
            "judge": _judge_simple("cosm/sinm", "cosm(A)^2 + sinm(A)^2 differs from I"), "nontrivial": n >= 2,
            "noresult_judge": _noresult}


def case_expdiag(g):
    r = g.r
    p = min(g.prec(), 200)
    n = min(g.size(), 6)
    cplx = r.random() < 0.3
    method = r.choice(["taylor", "pade"])
    kind = r.choice(["int", "dyadic", "decimal"])
    D = g.matrix("diagonal", n, p, cplx, kind=kind)
    g.note("class", "expm_diag")
    g.note("expm_method", method)
    task = {"op": "expm_diag", "prec": p, "cplx": cplx, "A": toks_of(D), "method": method}

    def lines(c, res):
        return {}

    def judge(c, res, ans):
        if "exc" in res:
            return "violates", "expm raised %s: %s" % (res["exc"], res.get("msg"))
        o = res["ok"]
        if has_nonfinite(o["X"]) or "NONFINITE" in o["ref"]:
            return "violates", "non-finite entries"
        X = [[LA.frac(LA.untok(t)) for t in row] for row in o["X"]]
        ref = [LA.frac(LA.untok(t)) for t in o["ref"]]
        nD = max([abs(LA.frac(D[i][i])[0]) + abs(LA.frac(D[i][i])[1]) for i in range(n)] + [Fraction(1)])
        tol = Fraction(2) ** (10 - p) * nD
        for i in range(n):
            for j in range(n):
                if i != j and X[i][j] != (0, 0):
                    return "violates", "expm(diagonal) has a non-zero off-diagonal entry"
            dr = X[i][i][0] - ref[i][0]
            di = X[i][i][1] - ref[i][1]
            a2 = ref[i][0] ** 2 + ref[i][1] ** 2
            # |x - e| <= tol*|e| + slack for the reference's own error (2^-(2p+30) relative)
            lim = (tol + Fraction(2) ** (-(2 * p + 30))) ** 2 * a2
            if dr * dr + di * di > lim:
                return "violates", "expm(D)[%d,%d] differs from exp(d) by more than 2^(10-p)*max(1,||D||) relative" % (i, i)
        return "ok", None
    return {"task": task, "site": "calculus.expm[%s]" % method, "cls": "expm_diag", "lines": lines, "judge": judge,
            "nontrivial": True, "noresult_judge": _noresult}


def case_singular_logm(g):
    """out-of-domain probe kept small: logm/sqrtm of an exactly singular matrix must terminate (no result = recorded)"""
    r = g.r
    p = r.choice([30, 53])
    n = r.randint(1, 3)
    A = g.matrix("zero" if r.random() < 0.5 else "singular", n, p, False)
    g.note("class", "singular(out of domain)")
    task = {"op": "explog", "prec": p, "cplx": False, "A": toks_of(A), "timeout": 8.0}
    return {"task": task, "site": "calculus.logm(singular)", "cls": "singular(out of domain)", "lines": lambda c, res: {},
            "judge": lambda c, res, ans: ("na", "out of the property's domain; terminated"), "nontrivial": False}


# ---------------------------------------------------------------------------------------------------------------
# inputs that reach the branches of sqrtm / logm / powm the right-half-plane classes above never take, and
# ascending-precision histories in one fresh process
# ---------------------------------------------------------------------------------------------------------------
# mpmath/matrices/calculus.py, sqrtm(A, _may_rotate=2):
#   (z)  A == 0                                                   -> returned as is
#   (d)  det(A) numerically negative real                         -> _sqrtm_rot (u = j**0.3, sqrtm(u*A)/sqrt(u)) before iterating
#   (i)  Denman-Beavers iteration converges                       -> the only branch the old generators reached (spectrum with
#                                                                    real part >= 1, eigenvalue ratios <= 12)
#   (s)  k > 6 and the step is still > 0.001*||Y||                -> _sqrtm_rot from inside the iteration, at prec+10, and again at
#                                                                    prec+20 with _may_rotate = 0 (then the iteration must finish)
#   (e)  ZeroDivisionError from inverse(Y) / inverse(Z)           -> _sqrtm_rot (singular iterate: an eigenvalue -1, -3+-2sqrt2, ...)
# logm: repeated sqrtm at prec+10 until ||B - I|| < 1/8 (0 further roots for A near I, ~log2 log ||A|| otherwise), then the series.
# powm: integer r -> A**r; 2r integer -> sqrtm(A)**(2r); otherwise expm(r*logm(A)).
BRANCH_CLASSES = ["rot_det", "rot_slow_small", "rot_slow_big", "left_half", "near_identity", "negaxis"]


def _fill(g, n, lams, cplx):
    """exact diagonalizable matrix with the given eigenvalues: diagonal / upper triangular with distinct diagonal / S D S^-1"""
    r = g.r
    Z = S(0)
    D = [[lams[i] if i == j else Z for j in range(n)] for i in range(n)]
    how = r.choice(["similar", "similar", "upper", "diagonal"])
    # triangular fill only when the eigenvalues are separated like those of the old classes (gap >= 1/2 against fill <= 3): a
    # cluster of nearly equal eigenvalues coupled by O(1) entries is diagonalizable only with an enormous eigenvector condition
    fl = [LA.frac(x) for x in lams]
    separated = all(max(abs(fl[i][0] - fl[j][0]), abs(fl[i][1] - fl[j][1])) >= Fraction(1, 2) for i in range(n) for j in range(i))
    if how == "upper" and separated:
        for i in range(n):
            for j in range(i + 1, n):
                D[i][j] = S(r.randint(-3, 3), 0, r.randint(-2, 2) if cplx else 0, 0)
        return "upper", D
    if how == "diagonal" or n == 1:
        return "diagonal", D
    Sm, Si = g.unimodular(n)
    return "similar", MGen.m_mul(MGen.m_mul(Sm, D), Si)


def branch_matrix(g, cls, n):
    """(shape, A): exact, diagonalizable, nonsingular, spectrum as the class says.  Entries need at most ~45 bits."""
    r = g.r
    pos = lambda: S(r.randint(1, 6))                                    # positive real eigenvalue
    offax = lambda lo, hi: S(r.randint(lo, hi), 0, r.choice([-3, -2, -1, 1, 2, 3]), 0)   # not real
    cplx = True
    if cls == "rot_det":
        # product of the spectrum negative real, no eigenvalue on the negative real axis: (a+bi) * t(-a+bi) = -t(a^2+b^2),
        # the other eigenvalues positive or in conjugate pairs.  Only complex matrices can do this off the axis.
        n = max(n, 2)
        a, b, t = r.randint(-4, 4), r.choice([-3, -2, -1, 1, 2, 3]), r.choice([(1, 0), (1, -1), (2, 0), (3, 0), (3, -1)])
        lams = [S(a, 0, b, 0), S(-a * t[0], t[1], b * t[0], t[1])]
        while len(lams) < n:
            if n - len(lams) >= 2 and r.random() < 0.5:
                z = offax(-4, 4)
                lams += [z, MGen.s_conj(z)]
            else:
                lams.append(pos())
    elif cls in ("rot_slow_small", "rot_slow_big"):
        # eigenvalue ratio >= 2^13: the iteration halves the large ratio once per step and is still moving after 7 steps
        e = r.randint(13, 30) if cls == "rot_slow_small" else r.randint(13, 20)
        cplx = r.random() < 0.3
        lams = []
        for i in range(n):
            m = S(r.randint(1, 6), 0, r.randint(-3, 3) if cplx else 0, 0)
            if i == 0 or (i > 1 and r.random() < 0.4):
                m = S(m[0], -e, m[2], -e) if cls == "rot_slow_small" else S(m[0], e, m[2], e)
            lams.append(m)
        if n == 1:
            lams = [S(lams[0][0], lams[0][1])]
            cplx = False
    elif cls == "left_half":
        # eigenvalues in the open left half plane, off the axis (arg within pi - atan(1/6) of the cut), mixed with others
        lams = [offax(-6, -1)] + [r.choice([offax(-6, -1), offax(-4, 4), pos()]) for _ in range(n - 1)]
    elif cls == "near_identity":
        # ||A - I|| < 1/8: logm takes one square root and goes straight to the series; expm scales by 2^-1 only
        cplx = r.random() < 0.3
        lams = [MGen.s_add(S(1), S(r.randint(-60, 60), -r.randint(10, 16), r.randint(-60, 60) if cplx else 0, -r.randint(10, 16)))
                for _ in range(n)]
    elif cls == "negaxis":
        # nonsingular with negative real eigenvalues (sqrtm only: B^2 = A does not involve a branch of the logarithm; the
        # documented examples sqrtm([[-1,0],[0,1]]) and sqrtm([[1,1],[1,0]]) are of this kind).  -1 makes the first
        # Denman-Beavers iterate exactly singular; an odd number of negative eigenvalues makes det < 0
        cplx = r.random() < 0.3
        lams = [S(-r.choice([1, 1, 2, 3, 4, 9]))] + [r.choice([S(-r.choice([1, 2, 4])), pos(), offax(-4, 4) if cplx else pos()])
                                                    for _ in range(n - 1)]
    else:
        raise ValueError(cls)
    cplx = cplx or any(x[2] for x in lams)
    shape, A = _fill(g, n, lams, cplx)
    return shape, A


HIST_PRECS = [30, 40, 53, 64, 80, 100, 113, 150, 200]


def _bits(A):
    b = 1
    for row in A:
        for x in row:
            for m in (abs(x[0]), abs(x[2])):
                while m and not m & 1:
                    m >>= 1
                b = max(b, m.bit_length())
    return b


def _mpow(A, k):
    n = len(A)
    P = [[S(1 if i == j else 0) for j in range(n)] for i in range(n)]
    for _ in range(k):
        P = MGen.m_mul(P, A)
    return P


def case_history(g, forced=None, single=False):
    """one call (sqrtm / expm(logm) / powm with integer, half-integer or quarter-integer exponent / cosm,sinm) on one exactly
    given matrix, evaluated at 2-3 ASCENDING precisions in one fresh process; every stage is decided at its own precision"""
    r = g.r
    fn = forced or r.choice(["sqrtm"] * 4 + ["explog"] * 3 + ["powm_half"] * 2 + ["powm_quarter", "powm_int", "cossin"])
    n = r.choice([1, 2, 2, 2, 3, 3, 4, 5])
    if fn in ("sqrtm", "powm_half"):
        classes = BRANCH_CLASSES + ["right_half"]
    elif fn in ("explog", "powm_quarter"):
        classes = [c for c in BRANCH_CLASSES if c != "negaxis"] + ["right_half"]
    else:
        classes = ["left_half", "near_identity", "any"]
    cls = r.choice(classes)
    if cls in ("right_half", "any"):
        shape, A = diagonalizable(g, n, 53, r.random() < 0.35, cls == "right_half")
        if shape == "spd" and _bits(A) > 30:
            shape, A = "diagonal", [[S(r.randint(1, 6)) if i == j else S(0) for j in range(n)] for i in range(n)]
    else:
        shape, A = branch_matrix(g, cls, n)
    n = len(A)
    cplx = LA.is_cplx_matrix(A)
    need = _bits(A)
    pool = [q for q in HIST_PRECS if q >= need] or [200]
    precs = sorted(r.sample(pool, min(len(pool), r.choice([2, 3, 3]))))
    if single:
        precs = [r.choice(precs)]
    g.note("hist_fn", fn)
    g.note("hist_class", cls)
    g.note("hist_shape", shape)
    g.note("hist_precs", len(precs))
    g.note("field", "complex" if cplx else "real")
    call = {"op": {"sqrtm": "sqrtm", "explog": "explog", "cossin": "cossin"}.get(fn, "powm")}
    y = den = None
    if fn == "explog":
        call["method"] = r.choice(["taylor", "pade"])
    elif fn == "powm_int":
        y, den = r.randint(0, 5), 1
        call["k"] = y
    elif fn == "powm_half":
        y, den = r.choice([1, 1, 3, 5]), 2
        call["r"] = [y, den]
    elif fn == "powm_quarter":
        y, den = r.choice([1, 1, 3]), 4
        call["r"] = [y, den]
    task = {"op": "hist", "prec": precs[0], "precs": precs, "cplx": cplx, "A": toks_of(A), "call": call}
    if not single:
        task["fresh"] = True
    At = flat(task["A"])

    def stage_line(q, o):
        if fn == "sqrtm":
            return None if has_nonfinite(o["X"]) else "cert_sqrtm %d %d %s %s" % (n, q, At, flat(o["X"]))
        if fn == "explog":
            return None if has_nonfinite(o["X"], o["L"]) else "cert_close %d %d %s %s" % (n, q, At, flat(o["X"]))
        if fn == "cossin":
            return None if has_nonfinite(o["C"], o["S"]) else "cert_cossin %d %d %s %s %s" % (n, q, At, flat(o["C"]), flat(o["S"]))
        if has_nonfinite(o["X"]):
            return None
        if den == 1:
            return "cert_powm %d %d %d %s %s" % (n, y, q, At, flat(o["X"]))
        # X = powm(A, y/den): X^den is formed exactly here (integers) and must be A^y within the tolerance of powm(A, y)
        Xd = _mpow(LA.from_toks(o["X"]), den)
        return "cert_powm %d %d %d %s %s" % (n, y, q, At, flat(toks_of(Xd)))

    def lines(c, res):
        ls = {}
        for t, (q, st) in enumerate(zip(precs, ((res or {}).get("ok") or {}).get("stages", []))):
            if "ok" in st:
                l = stage_line(q, st["ok"])
                if l:
                    ls["cert%d" % t] = l
        return ls

    what = {"sqrtm": "sqrtm(A)^2 differs from A", "explog": "expm(logm(A)) differs from A", "cossin": "cosm(A)^2 + sinm(A)^2 differs from I",
            "powm_int": "powm(A,%s) differs from the exact power" % y, "powm_half": "powm(A,%s/2)^2 differs from the exact A^%s" % (y, y),
            "powm_quarter": "powm(A,%s/4)^4 differs from the exact A^%s" % (y, y)}[fn]

    def judge(c, res, ans):
        if "exc" in res:
            return "violates", "history raised %s: %s" % (res["exc"], res.get("msg"))
        stages = res["ok"]["stages"]
        bad, known = [], []
        for t, (q, st) in enumerate(zip(precs, stages)):
            if single:
                before = "single call"
            elif t:
                before = "after the same call at prec %s in the same process" % ", ".join(map(str, precs[:t]))
            else:
                before = "first call of a fresh process"
            if "exc" in st:
                msg = "%s raised %s at prec %d (%s): %s" % (fn, st["exc"], q, before, st.get("msg"))
                # the Denman-Beavers iteration stagnates above its stopping tolerance (defect family MF1): only when the
                # spectrum is wide by construction or the matrix is a strongly non-normal similarity transform (class rot_det), and only this exception
                if st["exc"] == "NoConvergence" and cls in ("rot_slow_small", "rot_slow_big", "rot_det"):
                    known.append(msg)
                else:
                    bad.append(msg)
                continue
            v = ans.get("cert%d" % t)
            if v is None:
                bad.append("non-finite entries in the output at prec %d (%s)" % (q, before))
            elif v != "V:ok":
                bad.append("%s at prec %d, %s: %s" % (what, q, before, v))
        if cls == "negaxis" and (bad or known):
            return "na", "eigenvalue on the negative real axis (outside the property's quantifier): " + (bad + known)[0]
        if bad:
            return "violates", bad[0]
        if known:
            return "violates", known[0], "sqrtm_noconvergence_wide_spectrum"
        return "ok", None
    site = {"sqrtm": "calculus.sqrtm", "explog": "calculus.expm(logm)[%s]" % call.get("method"), "cossin": "calculus.cosm/sinm"}.get(fn, "calculus.powm")
    return {"task": task, "site": site + ("" if single else "[ascending-precision history]"),
            "cls": ("branch:" if single else "history:") + cls + ":" + fn, "lines": lines, "judge": judge,
            "nontrivial": n >= 2, "noresult_judge": _noresult}


def case_branch_single(g):
    """the branch classes at a single precision in the shared worker processes (as the cases above)"""
    return case_history(g, single=True)


PROGRAMS = ["expm[taylor]", "expm[pade]", "logm", "sqrtm", "powm", "cosm", "sinm", "powm[sqrtm branch]", "powm[expm(r logm) branch]"]


def build_cases(g, n_cases):
    r = g.r
    mk = [
        (8, lambda: case_explog(g)),
        (8, lambda: case_sqrtm(g)),
        (6, lambda: case_powm(g)),
        (8, lambda: case_cossin(g)),
        (5, lambda: case_expdiag(g)),
    ]
    tot = sum(w for w, _ in mk)
    cases = []
    for _ in range(n_cases):
        x = r.random() * tot
        for w, f in mk:
            x -= w
            if x < 0:
                cases.append(f())
                break
    for _ in range(3):
        cases.append(case_singular_logm(g))
    return cases


def run(ctx):
    import_repo()
    g = MGen(ctx.seed * 1000003 + 32, max_n=6, max_prec=200)
    eng = Engine(ctx, timeout=90.0)
    n_cases = 400 if ctx.quick else 5000
    if ctx.replay:
        rp = json.load(open(ctx.replay))
        fi = (rp.get("failing_input") or {}).get("input") or {}
        if fi.get("task"):
            print("replaying recorded task on the real code:", json.dumps(LA.replay_task(fi["task"]))[:2000])
    for c in build_cases(g, n_cases):
        eng.add(c)
    # separate PRNG stream (the cases above stay what they were): branch-reaching inputs, singly and as ascending-precision
    # histories in a fresh process each; every sqrtm branch class is forced at least twice
    gh = MGen(ctx.seed * 1000003 + 3232, max_n=6, max_prec=200)
    n_hist, n_single = (60, 60) if ctx.quick else (1500, 1500)
    for i in range(n_hist):
        eng.add(case_history(gh))
    for i in range(n_single):
        eng.add(case_branch_single(gh))
    out = eng.run()
    for k, v in gh.hist.items():
        g.hist["branch/history:" + k] = v
    cov = LA.coverage_of(out, g,
        "cases from one seeded PRNG: diagonalizable matrices built exactly (unimodular similarity of a diagonal matrix with "
        "integer/half-integer, optionally complex eigenvalues; SPD/HPD; diagonal; upper triangular with distinct diagonal), sizes "
        "1..6, real and complex, spectrum in the right half plane for logm/sqrtm, precisions 30..200, both expm methods, powm "
        "k=0..5; each factor of a composite identity is computed by the real routine, read exactly, and the identity is decided in "
        "exact arithmetic; plus 3 out-of-domain probes (logm of exactly singular matrices, 8 s limit) recorded under noresult; plus "
        "branch-reaching classes (det negative real off the axis -> rotation before iterating; eigenvalue ratio 2^13..2^30 -> "
        "rotation from inside the Denman-Beavers iteration, twice; left half plane off the axis; ||A-I|| < 1/8; for sqrtm and the "
        "sqrtm branch of powm also negative real eigenvalues -> singular iterate / negative determinant), powm with half- and "
        "quarter-integer exponents (both non-integer branches), each also run as a history: the same call at 2-3 ascending "
        "precisions in one fresh process, every stage decided at its own precision",
        len(PROGRAMS))
    cov["checker_requests"] = eng.nlines
    return {"coverage": cov, "failing_inputs": out["failing"], "disagreements": []}
