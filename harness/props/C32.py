"""C32 — matrix functions are mutually consistent (verified identity checking).

expm (taylor and pade), logm, sqrtm, powm, cosm, sinm run in worker processes (hard timeout: e.g. logm of a singular
matrix does not terminate); every intermediate result is read exactly and the composite identities are evaluated in
exact Gaussian-dyadic arithmetic by the compiled Lean checker (tolerances: linalg_ops.__doc__).
"""
import json
from fractions import Fraction
from common import *  # noqa
import linalg_ops as LA
from linalg_ops import MGen, Engine, tok, toks_of, flat, has_nonfinite, S

LEVEL = "translation_validation"
LEAN_MODULES = ["MpProofs.Cert", "MpProofs.CertResid", "Props.C32"]
ASSUMPTIONS = [
    "'within ||A||*2^(10-p) relative error' is instantiated as Frobenius residual <= 2^(10-p) * ||A||_F * max(1, ||A||_F) for "
    "expm(logm A) = A and sqrtm(A)^2 = A, 2^(10-p) * ||A||_F^k * max(1, ||A||_F) for powm(A,k) = A^k (A^k exact), and "
    "2^(10-p) * max(1,||A||_F) * max(sqrt n, ||C||_F^2 + ||S||_F^2) for cosm^2 + sinm^2 = I",
    "inputs are diagonalizable by construction (S D S^-1 with unimodular integer S and distinct-or-repeated integer/dyadic "
    "eigenvalues, symmetric positive definite, diagonal) with spectrum in the open right half plane for logm/sqrtm "
    "(away from the branch cut)",
    "expm(D) = diag(exp(d)) for diagonal D: off-diagonal entries must be exactly 0; diagonal entries are compared in the harness "
    "(exact rational arithmetic) with mp.exp(d) evaluated at 2p+40 bits, assumed accurate to 2^-(2p+30) relative "
    "(property C12), tolerance 2^(10-p) * max(1,||D||) relative",
]


def diagonalizable(g, n, p, cplx, positive):
    """exact S D S^-1, S unimodular; eigenvalues small integers or dyadics; positive -> real parts > 0"""
    r = g.r
    how = r.choice(["similar", "similar", "spd", "diagonal", "upper_distinct"])
    if how == "spd":
        A = g.matrix("spd", n, p, cplx, kind="int")
        return how, A
    lams = []
    for _ in range(n):
        re = r.randint(1, 6) if positive else r.randint(-4, 4)
        if r.random() < 0.3:
            lam = S(2 * re + 1, -1, (r.randint(-3, 3) if cplx else 0), 0)
        else:
            lam = S(re, 0, (r.randint(-3, 3) if cplx else 0), 0)
        lams.append(lam)
    Z = S(0)
    D = [[lams[i] if i == j else Z for j in range(n)] for i in range(n)]
    if how == "diagonal":
        return how, D
    if how == "upper_distinct":
        # distinct diagonal entries => diagonalizable
        seen = set()
        for i in range(n):
            while LA.frac(D[i][i]) in seen:
                D[i][i] = MGen.s_add(D[i][i], S(1))
            seen.add(LA.frac(D[i][i]))
        for i in range(n):
            for j in range(i + 1, n):
                D[i][j] = S(r.randint(-3, 3))
        return how, D
    Sm, Si = g.unimodular(n)
    return how, MGen.m_mul(MGen.m_mul(Sm, D), Si)


def _case(g, op, positive, extra=None, max_n=6):
    r = g.r
    p = g.prec()
    n = min(g.size(), max_n)
    cplx = r.random() < 0.35
    how, A = diagonalizable(g, n, p, cplx, positive)
    g.note("class", how)
    g.note("field", "complex" if LA.is_cplx_matrix(A) else "real")
    task = {"op": op, "prec": p, "cplx": cplx and LA.is_cplx_matrix(A), "A": toks_of(A)}
    task.update(extra or {})
    return p, n, how, A, task


def _judge_simple(site, what):
    def judge(c, res, ans):
        if "exc" in res:
            return "violates", "%s raised %s: %s" % (site, res["exc"], res.get("msg"))
        if not ans:
            return "violates", "non-finite entries in the output"
        bad = {k: v for k, v in ans.items() if v != "V:ok"}
        if not bad:
            return "ok", None
        return "violates", what + ": " + json.dumps(bad)
    return judge


def _noresult(c, res, ans):
    return "violates", "no result within the time limit (in-domain input)"


def case_explog(g):
    method = g.r.choice(["taylor", "pade"])
    g.note("expm_method", method)
    p, n, how, A, task = _case(g, "explog", True, {"method": method})
    At = flat(task["A"])

    def lines(c, res):
        o = (res or {}).get("ok")
        if o and not has_nonfinite(o["X"], o["L"]):
            return {"cert": "cert_close %d %d %s %s" % (n, p, At, flat(o["X"]))}
        return {}
    return {"task": task, "site": "calculus.expm(logm)[%s]" % method, "cls": how, "lines": lines,
            "judge": _judge_simple("expm(logm(A))", "expm(logm(A)) differs from A"), "nontrivial": n >= 2,
            "noresult_judge": _noresult}


def case_sqrtm(g):
    p, n, how, A, task = _case(g, "sqrtm", True)
    At = flat(task["A"])

    def lines(c, res):
        o = (res or {}).get("ok")
        if o and not has_nonfinite(o["X"]):
            return {"cert": "cert_sqrtm %d %d %s %s" % (n, p, At, flat(o["X"]))}
        return {}
    return {"task": task, "site": "calculus.sqrtm", "cls": how, "lines": lines,
            "judge": _judge_simple("sqrtm", "sqrtm(A)^2 differs from A"), "nontrivial": n >= 2, "noresult_judge": _noresult}


def case_powm(g):
    k = g.r.randint(0, 5)
    p, n, how, A, task = _case(g, "powm", False, {"k": k})
    At = flat(task["A"])
    g.note("powm_k", k)

    def lines(c, res):
        o = (res or {}).get("ok")
        if o and not has_nonfinite(o["X"]):
            return {"cert": "cert_powm %d %d %d %s %s" % (n, k, p, At, flat(o["X"]))}
        return {}
    return {"task": task, "site": "calculus.powm", "cls": how, "lines": lines,
            "judge": _judge_simple("powm", "powm(A,%d) differs from the exact power" % k), "nontrivial": n >= 2 and k >= 2,
            "noresult_judge": _noresult}


def case_cossin(g):
    p, n, how, A, task = _case(g, "cossin", False)
    At = flat(task["A"])

    def lines(c, res):
        o = (res or {}).get("ok")
        if o and not has_nonfinite(o["C"], o["S"]):
            return {"cert": "cert_cossin %d %d %s %s %s" % (n, p, At, flat(o["C"]), flat(o["S"]))}
        return {}
    return {"task": task, "site": "calculus.cosm/sinm", "cls": how, "lines": lines,
            "judge": _judge_simple("cosm/sinm", "cosm(A)^2 + sinm(A)^2 differs from I"), "nontrivial": n >= 2,
            "noresult_judge": _noresult}


def case_expdiag(g):
    r = g.r
    p = min(g.prec(), 200)
    n = min(g.size(), 6)
    cplx = r.random() < 0.3
    method = r.choice(["taylor", "pade"])
    kind = r.choice(["int", "dyadic", "decimal"])
    D = g.matrix("diagonal", n, p, cplx, kind=kind)
    g.note("class", "expm_diag")
    g.note("expm_method", method)
    task = {"op": "expm_diag", "prec": p, "cplx": cplx, "A": toks_of(D), "method": method}

    def lines(c, res):
        return {}

    def judge(c, res, ans):
        if "exc" in res:
            return "violates", "expm raised %s: %s" % (res["exc"], res.get("msg"))
        o = res["ok"]
        if has_nonfinite(o["X"]) or "NONFINITE" in o["ref"]:
            return "violates", "non-finite entries"
        X = [[LA.frac(LA.untok(t)) for t in row] for row in o["X"]]
        ref = [LA.frac(LA.untok(t)) for t in o["ref"]]
        nD = max([abs(LA.frac(D[i][i])[0]) + abs(LA.frac(D[i][i])[1]) for i in range(n)] + [Fraction(1)])
        tol = Fraction(2) ** (10 - p) * nD
        for i in range(n):
            for j in range(n):
                if i != j and X[i][j] != (0, 0):
                    return "violates", "expm(diagonal) has a non-zero off-diagonal entry"
            dr = X[i][i][0] - ref[i][0]
            di = X[i][i][1] - ref[i][1]
            a2 = ref[i][0] ** 2 + ref[i][1] ** 2
            # |x - e| <= tol*|e| + slack for the reference's own error (2^-(2p+30) relative)
            lim = (tol + Fraction(2) ** (-(2 * p + 30))) ** 2 * a2
            if dr * dr + di * di > lim:
                return "violates", "expm(D)[%d,%d] differs from exp(d) by more than 2^(10-p)*max(1,||D||) relative" % (i, i)
        return "ok", None
    return {"task": task, "site": "calculus.expm[%s]" % method, "cls": "expm_diag", "lines": lines, "judge": judge,
            "nontrivial": True, "noresult_judge": _noresult}


def case_singular_logm(g):
    """out-of-domain probe kept small: logm/sqrtm of an exactly singular matrix must terminate (no result = recorded)"""
    r = g.r
    p = r.choice([30, 53])
    n = r.randint(1, 3)
    A = g.matrix("zero" if r.random() < 0.5 else "singular", n, p, False)
    g.note("class", "singular(out of domain)")
    task = {"op": "explog", "prec": p, "cplx": False, "A": toks_of(A), "timeout": 8.0}
    return {"task": task, "site": "calculus.logm(singular)", "cls": "singular(out of domain)", "lines": lambda c, res: {},
            "judge": lambda c, res, ans: ("na", "out of the property's domain; terminated"), "nontrivial": False}


PROGRAMS = ["expm[taylor]", "expm[pade]", "logm", "sqrtm", "powm", "cosm", "sinm"]


def build_cases(g, n_cases):
    r = g.r
    mk = [
        (8, lambda: case_explog(g)),
        (8, lambda: case_sqrtm(g)),
        (6, lambda: case_powm(g)),
        (8, lambda: case_cossin(g)),
        (5, lambda: case_expdiag(g)),
    ]
    tot = sum(w for w, _ in mk)
    cases = []
    for _ in range(n_cases):
        x = r.random() * tot
        for w, f in mk:
            x -= w
            if x < 0:
                cases.append(f())
                break
    for _ in range(3):
        cases.append(case_singular_logm(g))
    return cases


def run(ctx):
    import_repo()
    g = MGen(ctx.seed * 1000003 + 32, max_n=6, max_prec=200)
    eng = Engine(ctx, timeout=90.0)
    n_cases = 400 if ctx.quick else 5000
    if ctx.replay:
        rp = json.load(open(ctx.replay))
        fi = (rp.get("failing_input") or {}).get("input") or {}
        if fi.get("task"):
            print("replaying recorded task on the real code:", json.dumps(LA.replay_task(fi["task"]))[:2000])
    for c in build_cases(g, n_cases):
        eng.add(c)
    out = eng.run()
    cov = LA.coverage_of(out, g,
        "cases from one seeded PRNG: diagonalizable matrices built exactly (unimodular similarity of a diagonal matrix with "
        "integer/half-integer, optionally complex eigenvalues; SPD/HPD; diagonal; upper triangular with distinct diagonal), sizes "
        "1..6, real and complex, spectrum in the right half plane for logm/sqrtm, precisions 30..200, both expm methods, powm "
        "k=0..5; each factor of a composite identity is computed by the real routine, read exactly, and the identity is decided in "
        "exact arithmetic; plus 3 out-of-domain probes (logm of exactly singular matrices, 8 s limit) recorded under noresult",
        len(PROGRAMS))
    cov["checker_requests"] = eng.nlines
    return {"coverage": cov, "failing_inputs": out["failing"], "disagreements": []}
