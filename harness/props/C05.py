"""C05 — comparisons are exact and equal numbers hash equally."""
from props import _core, _api
import hash_ops

LEVEL = "proof"
LEAN_MODULES = ["Props.C05hash", "Props.C05"]
ASSUMPTIONS = [
    "CPython's numeric hash is specified from its documentation (pyHashInt/pyHashFraction/pyHashComplex/finalHash in "
    "MpModel/Hash.lean); the transcription is validated against CPython itself on every run (ops pyhash_*)",
    "sys.hash_info: width 64, modulus 2^61-1, inf 314159, nan 0, imag 1000003",
]


def run(ctx):
    res = _core.run_core(ctx, ["eq", "cmp", "lt", "le", "gt", "ge", "hash"], 60000, 2000000, monitors=("spec",))
    n = 40000 if ctx.quick else 1500000
    st, dis, g = hash_ops.run_t1(hash_ops.ALL_HASH_OPS, n, ctx.seed)
    for d in dis:
        res["disagreements"].append({"name": "T1:" + d["op"], "op": d["op"], "line": d["line"], "impl": d["impl"], "model": d["model"]})
    law = hash_ops.Law(ctx.seed)
    law.run(4000 if ctx.quick else 100000)
    for k, v in sorted(law.violations.items()):
        res["failing_inputs"].append({"site": "hash-law:" + k, "what": "a == b but hash(a) != hash(b): " + str(v[1])[:300],
                                      "input": {"class": k, "count": v[0], "example": str(v[1])[:600]}})
    cov = res["coverage"]
    cov["evaluations"] += n + law.pairs
    cov["distinct_nontrivial"] += sum(v[0] for v in st["per_op"].values()) // 2
    cov["programs"] += len(st["per_op"])
    cov["hash_t1_per_op"] = {k: v[0] for k, v in st["per_op"].items()}
    cov["hash_law_ordered_pairs"] = law.pairs
    cov["hash_law_pairs_comparing_equal"] = law.eq_true
    cov["hash_input_distribution"] = {k: {str(a): b for a, b in v.items()} for k, v in g.hist.items()}
    cov["traces_validated_against_impl"] = cov["evaluations"]
    return _api.add_cmp(ctx, res)
