"""C37 — pure-Python vs GMP backend: specification-level check of every substituted routine (no gmpy2 available)."""
import os, json, hashlib
from common import *  # noqa
import backend_ops

LEVEL = "proof"
LEAN_MODULES = ["Props.C37"]
ASSUMPTIONS = [
    "gmpy2 is NOT installed and cannot be: the two backends are never run against each other. The claim of the property "
    "itself (bit-identical results across backends) is NOT decided by this check",
    "the GMP side is trusted to its documentation: gmpy.mpz integer arithmetic, bit_length / numdigits(2) (bit length), "
    "bit_scan1 (lowest set bit), isqrt / isqrt_rem (floor square root and remainder), fac (n!), digits (radix string), "
    "_mpmath_normalize / _mpmath_create (correctly rounded canonical mpf tuple)",
    "what is proved / checked: at every site where BACKEND == 'gmpy' substitutes an implementation (ast table "
    "harness/backend_sites.json, regenerated from /repo and compared on every run) the pure-Python implementation "
    "meets that documented specification — theorems of Props/C37.lean, their float hypotheses "
    "(int(math.log(n,2)) within -5..+5; sqrt estimates) validated on every T1 case",
    "sites classified not-covered (stated, not hidden): isqrt_fast (approximate in Python, exact under gmpy: sqrt_fixed "
    "users may differ in the last bits), EXP_COSH_CUTOFF and COS_SIN_CACHE_PREC (different algorithm cut-offs)",
    "sage backend sites are out of scope of the property",
]

BASELINE = os.path.join(os.path.dirname(os.path.dirname(os.path.abspath(__file__))), "backend_sites.json")


def run(ctx):
    res = {"coverage": {}, "failing_inputs": [], "disagreements": [], "broken": []}
    base = json.load(open(BASELINE))
    cur = backend_ops.sites()
    new, changed = [], []
    for s in cur:
        b = base.get(s["key"])
        if b is None:
            new.append(s)
            continue
        binds = (s.get("then_binds", []) + ["|"] + s.get("else_binds", [])) if s["kind"] == "conditional" else []
        if binds != b.get("binds", []):
            changed.append((s, b))
    stale = sorted(set(base) - {s["key"] for s in cur})
    for s in new:
        res["broken"].append(("backend site " + s["key"], "new backend-dependent site at %s:%s not classified in harness/backend_sites.json: %s"
                              % (s["file"], s["line"], json.dumps({k: s[k] for k in s if k not in ("key",)})[:600])))
    for s, b in changed:
        res["broken"].append(("backend site " + s["key"], "the names bound under this backend test changed: now %s, classified %s"
                              % (s.get("then_binds"), b.get("binds"))))
    status = {}
    for k, b in base.items():
        status[b["status"]] = status.get(b["status"], 0) + 1

    n = 40000 if ctx.quick else 1500000
    chunk = 50000
    per_op, hist = {}, {}
    dis_all, evaluations = [], 0
    distinct = set()
    samples = []
    k = 0
    done = 0
    while done < n:
        c = min(chunk, n - done)
        st, dis, spec_fail, g = backend_ops.run_t1(c, ctx.seed * 1000003 + k)
        for o, v in st["per_op"].items():
            pv = per_op.setdefault(o, [0, 0, 0])
            for j in range(3):
                pv[j] += v[j]
        for kk, v in g.hist.items():
            hh = hist.setdefault(kk, {})
            for a, b in v.items():
                hh[str(a)] = hh.get(str(a), 0) + b
        for l, a in zip(st["lines"], st["impl"]):
            distinct.add(hashlib.md5(((l or "") + a).encode()).digest()[:8])
        for i in (17, 1017, 2017):
            if i < len(st["lines"]) and len(samples) < 6 and st["lines"][i]:
                samples.append({"request": st["lines"][i][:200], "impl": st["impl"][i][:120]})
        res["failing_inputs"] += spec_fail[:50]
        for d in dis[:50]:
            res["disagreements"].append({"name": "T1:" + d["op"], "op": d["op"], "line": d["line"][:2000], "impl": d["impl"], "model": d["model"]})
        evaluations += c
        done += c
        k += 1
    # float hypotheses of the theorems: a violated hypothesis without a wrong result is reported as a broken obligation
    for hyp in ("bitcount_hyp_est_in_reach", "isqrt_small_hyp_r0_ge_root", "sqrtrem_hyp_isqrt_fast_ge_root_minus_1"):
        if hist.get(hyp, {}).get("False"):
            res["broken"].append(("float hypothesis " + hyp, "violated on %d generated cases" % hist[hyp]["False"]))
    bad = backend_ops.exhaustive_small(1 << 20)
    for what, nn in bad[:20]:
        res["failing_inputs"].append({"site": "libintmath.python_" + what, "what": "python_%s(%d) differs from the bit-level definition" % (what, nn),
                                      "input": {"n": nn}})
    evaluations += 2 * (1 << 20)
    res["coverage"] = {
        "evaluations": evaluations,
        "distinct_nontrivial": len(distinct),
        "rule": "integers of structured shapes (2^k, 2^k+-1, all-ones, k^2 and k^2+-1/2k, byte-aligned trailing zeros, random) in "
                "windows: the 298..302-bit window around the bisect(powers)/math.log switch of python_bitcount, the 400/600/800/1600-bit "
                "cut-offs of the square-root code, 1..80, 80..1200, 1200..2500 and 10^4..10^5 bits; mpf operands from the common "
                "generators; each case runs the real pure-Python routine, the Lean model (where one exists) and the mathematical "
                "specification computed with Python's int.bit_length / math.isqrt / str; plus python_bitcount and python_trailing "
                "exhaustively for n < 2^20; distinct = distinct (request, answer) pairs",
        "samples": samples,
        "programs": len(per_op),
        "per_op_cases_disagreements_specfailures": per_op,
        "input_distribution": {k: v for k, v in hist.items() if k in ("window", "shape", "prec", "rnd")},
        "float_hypotheses_validated": {k: v for k, v in hist.items() if "hyp" in k},
        "bitcount_float_estimate_minus_exact": hist.get("bitcount_est_minus_exact"),
        "isqrt_fast_python_error_distribution": hist.get("isqrt_fast_error"),
        "numeral_oversize_leading_zeros": hist.get("numeral_oversize_leading_zeros"),
        "backend_sites": {"total": len(cur), "by_status": status, "new_unclassified": [s["key"] for s in new],
                          "changed": [s["key"] for s, _ in changed], "stale_baseline_keys": stale,
                          "not_covered": sorted(k for k, b in base.items() if b["status"] == "not-covered")},
        "claim_not_decided": "bit-identical results of the Python and gmpy2 backends (no gmpy2 in this environment)",
        "traces_validated_against_impl": evaluations,
    }
    return res
