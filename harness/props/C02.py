"""C02 — basic real arithmetic is correctly rounded in every rounding mode."""
from props import _core, _api

LEVEL = "proof"
LEAN_MODULES = ["Props.C02", "Props.C02sqrt", "Props.C02sum", "Props.C02special"]
OPS = ["normalize", "normalize1", "from_man_exp", "from_int", "pos", "neg", "abs", "add", "sub", "mul", "gmul", "div",
       "mul_int", "gmul_int", "rdiv_int", "from_rational", "sqrt", "sum"]
ASSUMPTIONS = ["bitcount/trailing/isqrt are modelled by their mathematical meaning; the float-seeded Python helpers are tied by "
               "the bit-exact correspondence run (ops bitcount, trailing, isqrt) only",
               "the public API (operators, f* functions, constructors, fsum/fdot) is tied to the proved model by a seeded "
               "bit-exact comparison through the driver and an exact rational oracle, not by a theorem about the glue code",
               "dps= keywords are mapped to bits with libmp.dps_to_prec (the library's documented mapping)"]


def run(ctx):
    res = _core.run_core(ctx, OPS + ["bitcount", "trailing", "isqrt"], 150000, 4000000, monitors=("spec", "canonical", "bits"))
    return _api.add_arith(ctx, res)
