"""C09 — conversion to and from machine floats is exact or correctly rounded."""
from props import _helpers
import helpers_ops

LEVEL = "proof"
LEAN_MODULES = ["Props.C09", "Props.C09Full"]
ASSUMPTIONS = [
    "binary64 is modelled as a bit pattern; C ldexp and CPython's int->float conversion are modelled by the correctly "
    "rounded roundToDouble (MpModel/Helpers.lean), validated on every run against math.ldexp and float(int) of the "
    "running CPython (streams ldexpd, int2d), subnormal range included",
    "math.frexp(x) = (m, e) with m*2^53 integral is the documented semantics (frexpBits)",
    "the property is decided for rounding mode 'n' (the context default used by float(x)/complex(z)), magnitudes >= 2^-1022; "
    "results in the subnormal range and directed modes are compared with the model only",
]

RULE = ("helpers_ops.py C09 streams: every exponent field, fraction shapes, subnormals, +-0, inf, nan payloads; mpf values "
        "with 54-bit ties, within 2 ulp of 2^1024 and of 2^-1022, long mantissas, huge exponents; non-trivial = mpf(float) "
        "decided against the exact decoding of the bit pattern, float(x)/complex(z) decided against an independent integer "
        "round-half-even (cross-checked with Fraction.__float__), compared as struct bit patterns")


def run(ctx):
    site = lambda line, what: _helpers.C09_SITE.get(line.split()[0], line.split()[0])
    return _helpers.run_streams(ctx, helpers_ops.C09_OPS, 42000, 1500000, _helpers.decide_c09, site, RULE,
                                model_only_ops=("ldexpd", "int2d"))
