"""C08 — printed numbers round-trip and are nearest decimal approximations."""
from props import _t1
import str_ops
from common import *  # noqa

LEVEL = "proof"
LEAN_MODULES = ["Props.C08"]
ASSUMPTIONS = [
    "float expressions feeding integer decisions (bitprec, fixdps, prec_to_dps, dps_to_prec) are modelled with an explicit binary64 model "
    "validated exhaustively against CPython (thorough tier: all dps <= 20003, prec <= 10^6)",
    "nearest-decimal printing is known to fail for mantissas longer than the internal printing precision (known finding D5); "
    "theorems cover digit rounding and formatting/parsing consistency",
]


def run(ctx):
    n = 28000 if ctx.quick else 700000
    st, dis0, g0 = str_ops.run_t1(["to_digits_exp", "to_str", "nstr", "str", "repr", "mpc_str", "repr_dps", "numeral"], n, ctx.seed)
    dis = [{"name": "T1:" + d["op"], "op": d["op"], "line": d["line"], "impl": d["impl"], "model": d["model"]} for d in dis0]
    counts, bad, g = str_ops.run_laws(3000 if ctx.quick else 100000, ctx.seed)
    failing = []
    for b in bad:
        kind = b[0]
        if kind == "nearest":
            v, nd, t = b[1], b[2], b[3]
            failing.append({"site": "libmpf.to_str", "what": "nstr(x, %d) = %r is not a nearest %d-digit decimal" % (nd, t, nd),
                            "input": {"x": enc_mpf(v), "n": nd, "printed": t, "bc": int(v[3])}})
        elif kind in ("repr_roundtrip", "repr_roundtrip_mpc"):
            failing.append({"site": "repr", "what": "eval(repr(x)) != x at prec %s" % (b[1],), "input": {"prec": b[1], "x": str(b[2]), "repr": b[3]}})
        else:
            failing.append({"site": "libmpf.to_str", "what": "printed string problem: %s" % kind, "input": {"detail": [str(x)[:200] for x in b[1:]]}})
    if not ctx.quick:
        nf, badf = str_ops.validate_floats()
        for x in badf[:5]:
            dis.append({"name": "binary64-model:" + str(x[0]), "op": "floatmap", "line": str(x)[:200], "impl": "", "model": ""})
    cov = {
        "evaluations": n + sum(counts.values()), "distinct_nontrivial": sum(v[0] for v in st["per_op"].values()) // 2 + counts["repr_roundtrip"],
        "rule": "values from structured generators (mantissa shapes incl. more bits than the printing precision, decimal boundaries, exponents around "
                "+-3500 and huge), all option combinations; real to_str/nstr/str/repr vs the Lean model (bit-exact strings), and the API laws "
                "eval(repr(x)) == x, float()/Decimal() parse the output, printed value is a nearest n-digit decimal (decided exactly)",
        "samples": [{"law_counts": counts}], "programs": len(st["per_op"]), "disagreements_checked": len(dis) + len(failing),
        "t1_per_op": {k: v[0] for k, v in st["per_op"].items()}, "law_counts": counts, "input_distribution": _t1.hist_of(g0),
    }
    return {"coverage": cov, "failing_inputs": failing, "disagreements": dis}
