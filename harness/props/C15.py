"""C15 — complex interval operations contain every possible exact result."""
from props import _civ
import cplx_iv_ops as CI

LEVEL = "translation_validation"
LEAN_MODULES = ["Props.C14"]
ASSUMPTIONS = ["mpci_* arithmetic is modelled bit-exactly in Lean on top of the real interval operations whose containment is proved in Props/C14.lean "
               "for finite endpoints; containment of the complex results is decided on sample points of the input rectangles in exact arithmetic",
               "mpci_exp/log/cos/sin/pow/gamma are not covered"]


def run(ctx):
    return _civ.run_civ(ctx, "C15", CI.CI_OPS + ["malformed"], 30000, 1000000)
