"""C15 — complex interval operations contain every possible exact result."""
from props import _civ
import cplx_iv_ops as CI
import iv_fun_ops as IVF
import iv_cgamma_ops  # noqa  (registers the gamma-family functions of iv.mpc in iv_fun_ops)
import cplx_iv_pow  # noqa  (registers x ** y of complex rectangles, AFTER the gamma family: earlier random streams unchanged)

LEVEL = "proof"
LEAN_MODULES = ["Props.C14", "Props.C15", "Props.C14fun", "Props.C15div", "Props.C15abs", "Props.C15pow"]
ASSUMPTIONS = ["mpci_* arithmetic is modelled bit-exactly in Lean on top of the real interval operations whose containment is proved in Props/C14.lean "
               "for finite endpoints; theorems: add/sub/neg/pos/mul, division (Props/C15div.lean, whenever the enclosure of |w|^2 is positive), modulus (Props/C15abs.lean, "
               "over R with Real.sqrt), square and EVERY nonnegative integer power (Props/C15pow.lean, binary-powering loop invariant); containment of the complex results "
               "is additionally decided on sample points of the input rectangles in exact arithmetic",
               "iv.mpc exp / log / cos / sin / abs / arg (and again mul / div) are NOT modelled: rectangles are SAMPLED (structured + steered "
               "generators, precisions 2..200); for each sample point z = x+iy the enclosure of the exact real and imaginary parts is built from "
               "verified REAL enclosures (Props/C14fun.lean) of exp, cos, sin, cosh, sinh, log, sqrt, atan, pi with exact dyadic / rational "
               "interval arithmetic in Python (e^x cos y + i e^x sin y; cos x cosh y - i sin x sinh y; sin x cosh y + i cos x sinh y; "
               "(1/2) log(x^2+y^2) + i atan2(y, x); sqrt(x^2+y^2)) -- this combination step is the only unverified part of the decision; "
               "undecided points are counted, never passed",
               "mpci_gamma / rgamma / loggamma / factorial: there is NO verified evaluator of the complex gamma function, so containment is "
               "NOT decided at arbitrary points.  Only a NECESSARY condition at the closed-form points of the input rectangle is decided "
               "(harness/iv_cgamma_ops.py): (A) at real integers and half-integers inside the rectangle the exact value ((n-1)!, "
               "(2n)!/(4^n n!) sqrt(pi) through the verified sqrt / pi / log enclosures) must lie in the returned rectangle (real part in the "
               "re-interval and 0 in the im-interval; log Gamma only on the positive real axis); (B) at points n + iy and n + 1/2 + iy (dyadic y) "
               "the returned rectangle must contain a point of modulus |Gamma| given by |Gamma(iy)|^2 = pi/(y sinh(pi y)), "
               "|Gamma(1/2+iy)|^2 = pi/cosh(pi y) and the recurrence (verified pi / sinh / cosh enclosures, exact rational products; decided "
               "against the exact minimum / maximum of |w|^2 over the returned rectangle; for loggamma the real part log|Gamma| must be in the "
               "re-interval); (C) a pole strictly inside forces the whole plane; plus a STEERED stream for loggamma (corner on a closed-form line "
               "with log|Gamma| 2^-21..2^-100 ulp next to a grid number, chosen with mp, decided as in (B)).  A wrong enclosure that still passes (A)-(C) is not detected; "
               "rectangles without a point with Re z in (1/2)Z are generated but decide nothing",
               "x ** y of complex rectangles (mpci_pow: integer point exponents through mpci_pow_int, every other exponent -- rational "
               "points, real intervals incl. [lo, 0], [0, hi], [n-eps, n], straddling 0, complex points and rectangles -- through "
               "exp(y log x); also real interval bases that are not positive, i.e. the ComplexResult fallback of ivmpf.__pow__, the "
               "reflected and the Python-scalar calling forms) is NOT modelled: harness/cplx_iv_pow.py SAMPLES structured base x exponent "
               "rectangles (a few hundred per quick run); at sample points z0, w0 an integer exponent |n| <= 1024 is decided EXACTLY with "
               "Gaussian rationals, every other one through the principal value exp(w0 Log z0) enclosed from the verified real "
               "enclosures of log, atan, pi, exp, cos, sin (exact dyadic interval arithmetic in Python, cos / sin over the narrow "
               "argument interval through the Lipschitz bound 1 -- unverified combination step); points on the negative real axis are "
               "decided with arg = +pi (principal value), as in the iv.log / iv.arg decisions",
               "mpmath's mp context is used only to steer the generators, never in a decision"]


def run(ctx):
    res = _civ.run_civ(ctx, "C15", CI.CI_OPS + ["malformed"], 30000, 1000000)
    res = IVF.merge_into(res, IVF.run_ivfun(ctx, "C15"))
    res["coverage"]["ivfun_cgamma_rule"] = iv_cgamma_ops.RULE
    res["coverage"]["ivfun_cpow_rule"] = cplx_iv_pow.RULE
    return res


import civ_findings4  # noqa: E402,F401  (registers the known-finding predicates of the power family with findings.PREDICATES)
