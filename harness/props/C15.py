"""C15 — complex interval operations contain every possible exact result."""
from props import _civ
import cplx_iv_ops as CI
import iv_fun_ops as IVF

LEVEL = "proof"
LEAN_MODULES = ["Props.C14", "Props.C15", "Props.C14fun"]
ASSUMPTIONS = ["mpci_* arithmetic is modelled bit-exactly in Lean on top of the real interval operations whose containment is proved in Props/C14.lean "
               "for finite endpoints; containment of the complex results is decided on sample points of the input rectangles in exact arithmetic",
               "iv.mpc exp / log / cos / sin / abs / arg (and again mul / div) are NOT modelled: rectangles are SAMPLED (structured + steered "
               "generators, precisions 2..200); for each sample point z = x+iy the enclosure of the exact real and imaginary parts is built from "
               "verified REAL enclosures (Props/C14fun.lean) of exp, cos, sin, cosh, sinh, log, sqrt, atan, pi with exact dyadic / rational "
               "interval arithmetic in Python (e^x cos y + i e^x sin y; cos x cosh y - i sin x sinh y; sin x cosh y + i cos x sinh y; "
               "(1/2) log(x^2+y^2) + i atan2(y, x); sqrt(x^2+y^2)) -- this combination step is the only unverified part of the decision; "
               "undecided points are counted, never passed",
               "mpci_pow with non-integer exponents and mpci_gamma / rgamma / loggamma / factorial are not covered",
               "mpmath's mp context is used only to steer the generators, never in a decision"]


def run(ctx):
    res = _civ.run_civ(ctx, "C15", CI.CI_OPS + ["malformed"], 30000, 1000000)
    return IVF.merge_into(res, IVF.run_ivfun(ctx, "C15"))
