"""C12 — elementary functions are accurate to the working precision (relative error below 2^(4-p)).

Translation validation with a PROVED validator: every sampled value returned by the real code (public `mp` API and raw
libmp routines) is sent, as an exact dyadic, to the compiled verified evaluator (`mpdrv`, ops acc / acc2 / accroot /
accsinc).  Theorems of Props/C12.lean make each verdict a statement about Mathlib's real functions.

Decisions taken from the property text
 * tolerance: "relative error below 2^(4-p)" for every listed function, p >= 10.  Strict reading: `ok` at slack k=3
   (error <= 2^(3-p)|f| < 2^(4-p)|f|; at a zero of f the value must be exactly 0) is a pass; otherwise `violates` at
   k=4 (error > 2^(4-p)|f|) is a FAILURE; `ok` at k=4 but not at k=3 is counted as `boundary` (not a pass, not a failure).
 * all five rounding modes are sampled; the text gives one bound for all modes and no side condition for directed modes,
   so only the bound is checked.
 * "Real arguments inside the real domain give real results": an exception, a complex, infinite or nan result for an
   argument inside the real domain is a failure (site = the routine).  Arguments outside the real domain are not sampled.
 * arguments are exact mpf values which may carry more (or fewer) bits than the working precision.
 * functions named by the text but without a verified reference (complex arguments, atan2, arg, expj, expjpi, the
   reciprocal inverse functions) are listed under `no_verified_reference`; they are never counted as passes.
"""
import json, time, random
from fractions import Fraction
import encl_check as EC
from encl_check import FUN1, RNDS, mp, mk, tup, dy_of, guarded, is_finite_tuple, libelefun, libmpf
from encl_ops import acc_decide

LEVEL = "translation_validation"
LEAN_MODULES = ["Props.C12"]
ASSUMPTIONS = [
    "the statement 'for all arguments and precisions' is SAMPLED (seeded structured + adversarial generators); each sampled "
    "case is decided rigorously by the verified evaluator (theorems C12_validator_ok/violates/strict, C12_root_validator, "
    "C12_validator2, C12_validator_sinc)",
    "precisions 10..1000 in the quick tier (10..4000 thorough); complex arguments, atan2, arg, expj, expjpi and the "
    "reciprocal inverse functions have no verified reference and are not validated",
    "the driver is compiled from the same Lean definitions the theorems are about (Lean compiler and GMP trusted)",
]

SITES2 = {"pow": "libelefun.mpf_pow", "powm1": "functions.powm1", "hypot": "libmpf.mpf_hypot", "logb": "functions.log",
          "root": "libelefun.mpf_nthroot", "cbrt": "libelefun.mpf_cbrt", "sinc": "functions.sinc"}


def _case1(g, name, quick, takes_rnd):
    r = g.r
    p = g.prec(quick, 1000 if quick else 4000)
    drv, raw, site, dom = FUN1[name]
    via = "raw" if (raw and r.random() < 0.5) else "api"
    rnd = r.choice(RNDS) if (via == "raw" or takes_rnd[name]) else "n"
    m, e, shape = g.arg(name, p)
    return {"kind": "f1", "fun": name, "x": [m, e], "prec": p, "rnd": rnd, "via": via, "shape": shape, "site": site}


def _eval1(c):
    return EC.call1(c["fun"], c["x"][0], c["x"][1], c["prec"], c["rnd"], c["via"])


def _case2(g, quick):
    r = g.r
    p = g.prec(quick, 600 if quick else 2000)
    f = r.choice(["pow", "pow", "powm1", "hypot", "logb", "root", "root", "cbrt", "sinc"])
    nb = r.choice([p, p, 53, 24, r.randint(1, 12)])
    m = g.mant(nb)
    c = {"kind": "f2", "fun": f, "prec": p, "site": SITES2[f]}
    if f in ("pow", "powm1"):
        if r.random() < 0.4:
            k = max(1, r.choice([1, 2, p // 2, p - 1, p, 2 * p]))
            x = ((1 << k) + r.choice([1, -1]), -k)
            shape = "base_near_one"
        else:
            x = (m, -m.bit_length() + r.randint(-8, 8))
            shape = "ordinary"
        nby = r.choice([1, 2, 3, 10, p, 53])
        my = g.mant(nby) * r.choice([1, 1, -1])
        ey = -abs(my).bit_length() + r.choice([-p, -20, -3, 0, 1, 2, 5, 8, 12])
        if shape == "base_near_one" and r.random() < 0.5:
            ey = -abs(my).bit_length() + r.choice([p // 2, p - 1, p, p + 5]) - 2      # large exponent against 1 +- eps
        # keep |y log2 x| below 2^16 (cost of the reference; exponents beyond 2^24 bits are outside the driver's range)
        if shape == "base_near_one":
            lgbits = -(-x[1]) + 1                      # log2|log2 x| ~ -k
        else:
            lgbits = (abs(x[1] + x[0].bit_length()) + 1).bit_length()
        if ey + abs(my).bit_length() + lgbits > 16:
            ey = 16 - abs(my).bit_length() - lgbits
        c.update(x=list(x), y=[my, ey], shape=shape)
        if f == "pow":
            c["via"] = r.choice(["api", "raw"])
            c["rnd"] = r.choice(RNDS) if c["via"] == "raw" else "n"
        else:
            c["via"], c["rnd"] = "api", "n"
    elif f == "hypot":
        d = r.choice([0, 1, p // 2, p, p + 2, 3 * p, 4000])
        my = g.mant(r.choice([p, 53, 3])) * r.choice([1, -1])
        c.update(x=[m * r.choice([1, -1]), -nb], y=[my, -abs(my).bit_length() - d], shape="expdiff")
        c["via"] = r.choice(["api", "raw"])
        c["rnd"] = r.choice(RNDS) if c["via"] == "raw" else "n"
    elif f == "logb":
        b = r.choice([(2, 0), (10, 0), (3, 0), (g.mant(r.choice([p, 8])), -3), (3, -2), ((1 << 20) + 1, -20)])
        if Fraction(b[0]) * Fraction(2) ** b[1] == 1:
            b = (3, 0)
        if r.random() < 0.3:
            k = max(1, r.choice([2, p // 2, p, 2 * p]))
            x = ((1 << k) + r.choice([1, -1]), -k)
        else:
            x = (m, -nb + r.randint(-300, 300))
        c.update(x=list(x), y=list(b), shape="log_base", via="api", rnd="n")
    elif f in ("root", "cbrt"):
        n = 3 if f == "cbrt" else r.choice([2, 3, 4, 5, 7, 10, 17, 50])
        if r.random() < 0.4:
            base = g.mant(r.choice([3, 10, max(2, p // n), max(2, p // n + 1)]))
            x = (base ** n + r.choice([-1, 0, 1, 1]), n * r.randint(-20, 20))
            shape = "near_perfect_power"
            if x[0] <= 0:
                x = (base ** n, 0)
        else:
            x = (m, -nb + r.randint(-200, 200))
            shape = "ordinary"
        c.update(x=list(x), n=n, shape=shape)
        c["via"] = r.choice(["api", "raw"])
        c["rnd"] = r.choice(RNDS) if c["via"] == "raw" else "n"
    else:   # sinc
        e = -nb + r.choice([-4000, -p, -p // 2, -3, 0, 2, 5, 40, 1000])
        c.update(x=[m * r.choice([1, -1]), e], shape="sinc", via="api", rnd="n")
        if r.random() < 0.1:
            c["x"] = [0, 0]
    g.note("shape2", c["fun"] + ":" + c["shape"])
    return c


def _eval2(c):
    f, p, rnd = c["fun"], c["prec"], c["rnd"]

    def api():
        old = mp.prec
        try:
            mp.prec = p
            x = mk(*c["x"])
            if f == "pow":
                y = mp.power(x, mk(*c["y"]))
            elif f == "powm1":
                y = mp.powm1(x, mk(*c["y"]))
            elif f == "hypot":
                y = mp.hypot(x, mk(*c["y"]))
            elif f == "logb":
                y = mp.log(x, mk(*c["y"]))
            elif f == "root":
                y = mp.root(x, c["n"])
            elif f == "cbrt":
                y = mp.cbrt(x)
            else:
                y = mp.sinc(x)
            return y
        finally:
            mp.prec = old

    def raw():
        x = tup(*c["x"])
        if f == "pow":
            return libelefun.mpf_pow(x, tup(*c["y"]), p, rnd)
        if f == "hypot":
            return libmpf.mpf_hypot(x, tup(*c["y"]), p, rnd)
        if f == "root":
            return libelefun.mpf_nthroot(x, c["n"], p, rnd)
        if f == "cbrt":
            return libelefun.mpf_cbrt(x, p, rnd)
        raise ValueError(f)
    if c["via"] == "raw":
        return guarded(raw)
    st, y = guarded(api)
    if st != "ok":
        return (st, y)
    if isinstance(y, mp.mpc):
        return ("complex", None)
    return ("ok", y._mpf_)


def _request(c, yt):
    my, ey = dy_of(yt)
    f = c["fun"]
    if c["kind"] == "f1":
        return "acc %s %d %d %d %d" % (FUN1[f][0], c["x"][0], c["x"][1], my, ey)
    if f in ("pow", "powm1", "hypot", "logb"):
        return "acc2 %s %d %d %d %d %d %d" % (f, c["x"][0], c["x"][1], c["y"][0], c["y"][1], my, ey)
    if f in ("root", "cbrt"):
        return "accroot %d %d %d %d %d" % (c["n"], c["x"][0], c["x"][1], my, ey)
    return "accsinc %d %d %d %d" % (c["x"][0], c["x"][1], my, ey)


def _replay_cases(ctx):
    if not ctx.replay:
        return []
    try:
        rp = json.load(open(ctx.replay))
    except (OSError, ValueError):
        return []
    out = []
    for f in [rp.get("failing_input") or {}] + list(rp.get("others") or []):
        c = (f.get("input") or {}).get("case")
        if isinstance(c, dict) and c.get("kind") in ("f1", "f2"):
            out.append(c)
    return out


def run(ctx):
    t0 = time.time()
    rng = random.Random(ctx.seed * 7919 + 12)
    th = EC.elefun_thresholds()
    g = EC.ArgGen(rng, th)
    takes_rnd = {n: EC.api_takes_rounding(n) for n in FUN1}
    n1 = 16000 if ctx.quick else 120000
    n2 = 4000 if ctx.quick else 24000
    names = list(FUN1)
    cases = _replay_cases(ctx)
    for i in range(n1):
        cases.append(_case1(g, names[i % len(names)], ctx.quick, takes_rnd))
    for i in range(n2):
        cases.append(_case2(g, ctx.quick))
    # hyperbolic functions at large |x|: the code drops exp(-2|x|) once it is below the working precision; the switch sits at
    # precisions around 2.885*|x| bits (|x| >= 1024), far above the ordinary precision range, so it gets its own small family
    for i in range(10 if ctx.quick else 200):
        name = rng.choice(["sinh", "cosh", "tanh"])
        drv, raw, site, dom = FUN1[name]
        k = rng.choice([10, 10, 10, 11])
        m = (1 << 12) + rng.choice([0, 0, 1, rng.getrandbits(11)])          # |x| in [2^k, 2^k * 1.5)
        e = k - 12
        x = m * 2.0 ** e
        pr = int(x * rng.uniform(2.55, 3.2)) - 14 + rng.choice([-1, 0, 1])
        cases.append({"kind": "f1", "fun": name, "x": [m * rng.choice([1, -1]), e], "prec": pr, "rnd": rng.choice(RNDS) if raw else "n",
                      "via": "raw" if raw else "api", "shape": "exp_tail_switch", "site": site})

    # exp of INTEGER arguments above the precision literal of mpf_exp's e**n branch (`prec > 600 and exp >= 0`): the guard bits
    # there depend on the magnitude of the argument, so integers with a short odd part and many trailing zero bits (2^k, 3*2^k)
    # get their own small family, at precisions on both sides of the literal
    lit = min([t for t in th["prec"] if 500 <= t <= 800] or [600])
    for i in range(40 if ctx.quick else 600):
        name = rng.choice(["exp", "exp", "exp", "expm1", "cosh", "sinh"])
        if name not in FUN1:
            name = "exp"
        drv, raw, site, dom = FUN1[name]
        odd = rng.choice([1, 1, 1, 3, 5, 7, 2 * rng.randint(0, 31) + 1])
        k = rng.randint(0, 45 - odd.bit_length())
        pr = rng.choice([lit - 1, lit, lit + 1, lit + 2, lit + rng.randint(3, 400)])
        cases.append({"kind": "f1", "fun": name, "x": [odd * rng.choice([1, 1, -1]), k], "prec": pr, "rnd": rng.choice(RNDS) if raw else "n",
                      "via": "raw" if raw else "api", "shape": "integer_argument_branch", "site": site})

    fails, reqs, owners = [], [], []
    noresult = {"timeout": 0, "exc": 0}
    per_fun = {}
    for c in cases:
        st, y = (_eval1(c) if c["kind"] == "f1" else _eval2(c))
        key = "%s/%s" % (c["fun"], c["via"])
        d = per_fun.setdefault(key, {"cases": 0, "ok": 0, "violates": 0, "boundary": 0, "undecided": 0, "noresult": 0})
        d["cases"] += 1
        if st == "timeout":
            noresult["timeout"] += 1; d["noresult"] += 1
            continue
        if st in ("exc", "complex") or not is_finite_tuple(y):
            d["violates"] += 1
            what = ("raised %s" % y) if st == "exc" else ("returned a complex value" if st == "complex" else "returned a non-finite value")
            fails.append({"site": c["site"], "what": "%s(%s) at prec %d rnd %s [%s]: %s for an argument inside the real domain"
                          % (c["fun"], _argstr(c), c["prec"], c["rnd"], c["via"], what),
                          "input": {"case": c, "returned": repr(y)}})
            continue
        reqs.append((_request(c, y), c["prec"]))
        owners.append((c, y, d))
    verdicts = acc_decide(reqs, 3, 4)
    counts = {"ok": 0, "violates": 0, "boundary": 0, "undecided": 0}
    distinct = set()
    samples = []
    for (c, y, d), (req, p), v in zip(owners, reqs, verdicts):
        counts[v] += 1
        d[v] += 1
        if v == "ok" and c.get("shape") not in ("small_int",):
            distinct.add(req)
        if len(samples) < 6 and v == "ok" and c.get("shape") in ("near_k_pi_2", "near_one", "huge", "base_near_one"):
            samples.append({"request": "%s %d 3" % (req[:160], p), "verdict": v, "shape": c.get("shape")})
        if v == "violates":
            fails.append({"site": c["site"],
                          "what": "%s(%s) at prec %d rnd %s [%s] = %d*2^%d has relative error above 2^(4-p) (rigorous)"
                          % (c["fun"], _argstr(c), c["prec"], c["rnd"], c["via"], dy_of(y)[0], dy_of(y)[1]),
                          "input": {"case": c, "returned": list(dy_of(y)), "driver_line": "%s %d 4" % (req, p)}})
    total = len(cases)
    cov = {
        "evaluations": total,
        "distinct_nontrivial": len(distinct),
        "rule": "seeded structured generator over (function, argument, precision 10..%d, rounding mode, API-or-raw): ordinary, tiny "
                "(down to 2^-4000), huge (trig up to 2^4000), 1 +- 2^-k, arguments nearest to k*pi/2 from the continued fraction "
                "of the verified pi enclosure, magnitudes/precisions straddling the literals of libelefun.py (read with ast), "
                "small integers, half-integers; two-argument cases for pow/powm1/hypot/log-to-base/root/cbrt/sinc. Non-trivial = "
                "decided `ok` by the verified evaluator on a distinct request that is not a small-integer argument"
                % (1000 if ctx.quick else 4000),
        "samples": samples,
        "programs": len(per_fun),
        "disagreements_checked": counts["violates"] + counts["boundary"] + counts["undecided"],
        "verdicts": counts,
        "undecided": counts["undecided"] + counts["boundary"],
        "undecided_share": round((counts["undecided"] + counts["boundary"]) / max(1, len(reqs)), 5),
        "no_result": noresult,
        "per_function": per_fun,
        "violations_by_site": _by_site(fails),
        "no_verified_reference": EC.NO_REFERENCE,
        "thresholds_read_from_source": {"prec": th["prec"], "mag": th["mag"]},
        "input_distribution": {k: {str(a): b for a, b in v.items()} for k, v in g.hist.items()},
        "api_functions_honouring_rounding_keyword": sorted(k for k, v in takes_rnd.items() if v),
        "wall_dynamic_s": round(time.time() - t0, 1),
    }
    return {"coverage": cov, "failing_inputs": fails, "disagreements": []}


def _argstr(c):
    s = "%d*2^%d" % (c["x"][0], c["x"][1])
    if "y" in c:
        s += ", %d*2^%d" % (c["y"][0], c["y"][1])
    if "n" in c:
        s += ", n=%d" % c["n"]
    return s if len(s) < 200 else s[:200] + "…"


def _by_site(fails):
    out = {}
    for f in fails:
        out[f["site"]] = out.get(f["site"], 0) + 1
    return out
