"""C25 — integer-valued and number-theoretic functions are exact.

Dynamic part: seeded call HISTORIES (fresh module state per history) and single calls of the real functions of
mpmath/libmp/libintmath.py and their mp-level wrappers, each
  (a) diffed against the compiled Lean model (`mpdrv`, ops of MpModel/DrvIntFun.lean; history answers include a summary of
      the final cache dictionaries), and
  (b) judged against the property text itself with independent plain-Python definitions (harness/intfun_oracle.py):
      raw / exact=True / number-theoretic results must be exact; a float result must be exact when the value fits in the
      working precision and within one unit in the last place otherwise.
"""
import json, hashlib, random
from common import *  # noqa
import intfun_ops as IO
import intfun_oracle as OR
from props import _core
import findings as _findings

LEVEL = "proof"
LEAN_MODULES = ["Props.C25"]
ASSUMPTIONS = [
    "eulernum: `eulernum_spec_partial` proves eulernum(m) = E_m only for 0 <= m <= 101 (any call history; covers the n < 100 path of mp.eulernum); beyond that the "
    "theorems give history-independence and cache consistency (`eulernum_history_independent`, `eulernum_cache_consistent`) "
    "and the value is checked dynamically against the defining recurrence (up to m = 504 in this run)",
    "isprime: completeness is proved for every prime (`isprime_complete_all`); soundness unconditionally only below 10^5 "
    "(`isprime_sound_partial`, `isprime_exact_partial`); on the rest of the deterministic range n < 341550071728321 soundness is "
    "`isprime_sound_under_SPRP_bounds`, conditional on the hypothesis SPRP_bounds = the published strong-pseudoprime bounds "
    "(Pomerance-Selfridge-Wagstaff 1980, Jaeschke 1993), stated mathematically and NOT proved",
    "list_primes: `int(n**0.5)` is modelled by the exact integer square root (agrees with IEEE double arithmetic for n < 2^52)",
    "isqrt_small / sqrtrem: only the integer loops are modelled; the floating-point initial estimates are parameters "
    "(theorem hypotheses r0 >= isqrt(x), isqrt_fast(x) >= isqrt(x) - 1 are monitored on every generated case)",
    "float-returning wrappers (mp.fac, fac2, fib, eulernum, stirling1/2) are not covered by theorems: they are judged on every "
    "case by the independent exact oracle (exact when the value fits, <= 1 ulp otherwise, as the property text says)",
    "binomial, rf, ff, bell, bernoulli (float, incl. its precision-keyed cache through call histories), bernfrac, mangoldt and "
    "cyclotomic at integer arguments are float code paths (gammaprod, Dobinski series, zeta) with no Lean model of the code: "
    "every result is judged by the independent exact oracle (bernfrac: exact fraction from the integer tangent-number "
    "algorithm, n up to 3000; mangoldt: the prime p with value ln p, 0 otherwise); Lean only supplies reference values "
    "(`binomialRef`, `rfRef`, `ffRef` proved equal to Nat.choose / products) where an op exists in the driver; "
    "bernpoly / eulerpoly are not covered",
    "independent primality oracle: trial division below 10^10, deterministic Miller-Rabin with the first 13 prime bases below "
    "3.3*10^24 (Sorenson-Webster), undecided above",
]

def _odd_bits(x):
    x = abs(int(x))
    return (x >> ((x & -x).bit_length() - 1)).bit_length() if x else 0


@_findings.predicate("c25_int_arg_exceeds_2prec")
def _arg_exceeds_2prec(inp):
    """binomial / rf / ff form n+1, k+1, n+1-k (x+n, x, x+1, x-n+1) with `prec=2*ctx.prec`: the defect family is exactly the
    calls in which one of these integers is not representable in 2*prec bits"""
    t = inp["line"].split()
    op, a, b, p = t[0], int(t[1]), int(t[2]), int(t[3])
    if op == "w_binomial":
        mids = [a, b, a + 1, b + 1, a + 1 - b]
    elif op == "w_rf":
        mids = [a, b, a + b]
    elif op == "w_ff":
        mids = [a, b, a + 1, a - b, a - b + 1]
    else:
        return False
    return any(_odd_bits(x) > 2 * p for x in mids)


OUT_OF_DOMAIN_NOTES = [
    {"site": "libintmath.eulernum", "what": "eulernum(m) for even m < 0 returns None (mp.eulernum(-2) then raises TypeError "
     "'cannot create mpf from None'); Lean: eulernum_negative_even_returns_None", "witness": "euler_hist -2"},
    {"site": "libintmath.ifac / ifac2", "what": "negative n: no exception, returns the last cached value (history dependent): "
     "ifac(-1) = 1 fresh, 120 after ifac(5); Lean: ifac_negative_arg", "witness": "ifac_hist -1 5 -1"},
    {"site": "libintmath.sqrtrem_python", "what": "latent: second correction loop tests rem > 2*(1+y) (exactness needs rem > 2*y); "
     "wrong root only if isqrt_fast(x) <= isqrt(x) - 2, never observed; Lean: sqrtrem_underestimate_counterexample",
     "witness": "sqrtrem_large 16 2 (model level only)"},
]

CORPUS = [
    "ifac_hist 999 1000 1001 1002 5 1000 s2:1003:1001 1001",
    "ifac_hist -1 5 -1 0 1",
    "ifac2_hist 999 1000 1001 1002 998 7 -1",
    "ifib_hist 249 250 251 249 250 -250 -249 0",
    "euler_hist 500 502 498 500 -2 0",
    "euler_hist 10 4 10 6 -2 -3",
    "isprime 1373653", "isprime 341550071728321", "isprime 3215031751", "isprime 2", "isprime -7",
    "moebius 0", "moebius 1", "moebius -30", "list_primes -1", "list_primes 25", "primepi 100000",
    "w_fac 20 61 n", "w_fac 20 62 n", "w_fac 171 53 n", "w_fib 100 53 n", "w_euler 98 0 n", "w_euler 100 53 n",
    "w_stirling2 50 7 0 n", "w_fac2 29 52 n",
    "w_binomial 50 25 47 n", "w_binomial 50 25 46 n", "w_binomial -3 2 10 n", "w_rf -3 5 10 n", "w_bell 30 77 n",
    "w_cyclotomic 105 2 53 n", "w_cyclotomic 8 1 10 n", "bernfrac 12", "bernfrac 1000", "bern_hist 8:60 8:20 10:200 8:60",
    "mangoldt 8", "mangoldt 999999999989", "mangoldt 1000036000099",
]


def _replay_lines(ctx):
    if not ctx.replay:
        return []
    try:
        rp = json.load(open(ctx.replay))
    except (OSError, ValueError):
        return []
    out = []
    for f in [rp.get("failing_input") or {}] + list(rp.get("others") or []) + list(rp.get("disagreements") or []):
        l = (f.get("input") or {}).get("line") or f.get("line")
        if l:
            out.append(l)
    return out


def run(ctx):
    n = 26000 if ctx.quick else 300000
    chunk = 4000
    rng = random.Random(ctx.seed)
    failing, dis = [], []
    informational = {}
    decided = {"ok": 0, "violates": 0, "informational": 0, "nospec": 0}
    per_site = {}
    per_op = {}
    hist = {}
    distinct = set()
    samples = []
    evaluations = 0
    judged_results = 0
    ulp_only = 0
    ulp_only_examples = []

    def handle(line, impl, model, status_cmp, origin):
        nonlocal evaluations, judged_results, ulp_only
        evaluations += 1
        op = line.split()[0] if line.split() else "?"
        pv = per_op.setdefault(op, [0, 0]); pv[0] += 1
        if op != "malformed" and impl is not None and not impl.startswith("?"):
            distinct.add(hashlib.md5(line.encode()).digest()[:8])
        verdicts = OR.decide(line, impl)
        bad = False
        for status, site, what in verdicts:
            decided[status] += 1
            if status in ("ok", "violates"):
                judged_results += 1
                ps = per_site.setdefault(site, [0, 0]); ps[0] += 1
            if status == "violates":
                bad = True
                per_site[site][1] += 1
                failing.append({"site": site, "what": what, "origin": origin,
                                "input": {"line": line, "impl": (impl or "")[:400], "model": (model or "")[:400]}})
            elif status == "informational":
                e = informational.setdefault(site, [0, what])
                e[0] += 1
        if status_cmp == "ulp_only":
            ulp_only += 1
            if len(ulp_only_examples) < 5:
                ulp_only_examples.append({"line": line, "impl": impl[:120], "model": model[:160]})
        elif status_cmp != "ok" and not bad:
            pv[1] += 1
            dis.append({"name": "T1:" + op, "op": op, "line": line, "impl": (impl or "")[:400], "model": (model or "")[:400]})

    co = IO.IntFunOps()
    # corpus + replay first
    corpus = _replay_lines(ctx) + CORPUS + _core.load_corpus(ctx.pid)
    impl = [co.impl_of_line(l) for l in corpus]
    model = Driver().ask(corpus)
    for l, i, m in zip(corpus, impl, model):
        o = l.split()[0]
        meta = {"wrap": int(l.split()[-2]), "op": o} if (o in IO.WRAPPERS or o in IO.FLOAT_ONLY) else {"op": o}
        handle(l, i, m, IO.compare(i, m, meta), "corpus")
    co.reset()

    done = 0
    while done < n:
        c = min(chunk, n - done)
        st, d0, g = IO.run_t1(c, rng.getrandbits(48))
        bad_idx = {d["index"] for d in d0}
        ulp_idx = {d["index"] for d in st["ulp_only"]}
        for i, (line, im, mo) in enumerate(zip(st["lines"], st["impl"], st["model"])):
            handle(line, im, mo, "DISAGREE" if i in bad_idx else ("ulp_only" if i in ulp_idx else "ok"), "seed")
            if len(samples) < 8 and i % 997 == 13:
                samples.append({"request": line[:200], "impl": im[:120], "model": mo[:120]})
        for kk, v in g.hist.items():
            hh = hist.setdefault(kk, {})
            for a, b in v.items():
                hh[str(a)] = hh.get(str(a), 0) + b
        done += c

    hyp_bad = {k: v for k, v in hist.items() if k.startswith(("isqrt_hyp", "sqrtrem_hyp")) and v.get("False")}
    cov = {
        "evaluations": evaluations,
        "distinct_nontrivial": len(distinct),
        "results_judged_against_independent_definition": judged_results,
        "rule": "request lines from structured generators: call histories of 1..12 calls from fresh module state for ifac (mixed with "
                "stirling2, which shares the factorial memo), ifac2, ifib, eulernum with arguments at the cache limits (999/1000/1001, "
                "249/250/251, 498..504), repeats, negative, zero and large arguments; single calls of stirling1, moebius (squarefree "
                "products, p^2 multiples), list_primes / primepi (around squares), isprime (strong-pseudoprime table, witness-set "
                "thresholds, semiprimes, random primes), gcd with signs, the integer square-root loops; mp-level wrappers at precisions "
                "around the bit size of the exact result and exact=True. A case is distinct by its request line and non-trivial when it is "
                "well-formed (the malformed stream is excluded). Every case: real code vs compiled Lean model (bit-exact, incl. final cache "
                "summary), and every individual result vs an independent exact definition (harness/intfun_oracle.py)",
        "samples": samples,
        "programs": len(per_site),
        "per_op_cases": {k: v[0] for k, v in sorted(per_op.items())},
        "per_site_results_judged": {k: v[0] for k, v in sorted(per_site.items())},
        "per_site_violations": {k: v[1] for k, v in sorted(per_site.items()) if v[1]},
        "property_decisions": decided,
        "undecided": decided["nospec"],
        "float_results_within_1ulp_but_not_correctly_rounded": ulp_only,
        "float_results_within_1ulp_examples": ulp_only_examples,
        "ulp_policy": "decided strictly by the property text: exact when the value fits in the working precision, otherwise "
                      "|result - value| <= 2^(bitlength(value) - prec); faithful-but-not-nearest results are therefore accepted",
        "informational_out_of_domain": {k: {"count": v[0], "example": v[1]} for k, v in sorted(informational.items())},
        "informational_notes": OUT_OF_DOMAIN_NOTES,
        "theorem_hypotheses_violated_on_generated_cases": hyp_bad,
        "input_distribution": hist,
        "corpus_cases": len(corpus),
        "disagreements_checked": len(dis) + len(failing),
        "traces_validated_against_impl": evaluations,
    }
    res = {"coverage": cov, "failing_inputs": failing, "disagreements": dis}
    if hyp_bad:
        res["broken"] = [("sqrt-theorem-hypothesis", "a generated case violated a hypothesis of isqrt_small_exact / sqrtrem_exact: %r" % hyp_bad)]
    return res
