"""C28 — numerical differentiation, Taylor coefficients, Pade approximants, differint, difference (proved references).

diff (all methods and options, partial derivatives), diffs, diffun, taylor run in worker subprocesses on the families of
lean/MpModel/CalcRef.lean that have a closed-form n-th derivative (polynomials, exp(cx), sin(cx), cos(cx), x*exp(cx));
Props/C28.lean proves `iteratedDeriv n f x = Ref.sem (derivRef)` and that the checker's verdict is a theorem about
|y - f^(n)(x)| < 2^(10-p) * max(|f^(n)(x)|, 1).  pade: the returned (p, q), read exactly, is decided by the exact rational
checker padeCheck (proved: coefficients of A*Q - P up to degree L+M are within 2^(10-p) * (sum|q_i|) * max|a_j|).
differint of x^k for integer orders n >= 0 and n = -1 against the proved closed form; difference(s, n) bit-exactly against
the exact model (proved equal to the n-th forward difference).
"""
import math
import json, random
from fractions import Fraction
import calc_ops as CO
from calc_ops import rtok, fam_tokens, dy_tokens, is_dy

LEVEL = "translation_validation"
LEAN_MODULES = ["MpProofs.CalcRef", "MpProofs.CalcFam", "MpProofs.CalcDiff", "MpProofs.CalcLogicA", "Props.C28"]
ASSUMPTIONS = [
    "'relative or absolute error below 2^(10-p)' is instantiated as |y - v| < 2^(10-p) * max(|v|, 1), p = mp.prec at the call",
    "evaluation points are dyadic rationals in [-4, 4] (exactly representable), orders 0..10; functions: polynomials of degree <= 12, "
    "exp(cx), sin(cx), cos(cx), x*exp(cx) with |c| <= 4; partial derivatives of separable products f(x)*g(y)(*h(z))",
    "options sampled: default, direction=+-1, addprec, relative, singular, method='quad' (radius 1/4 .. 1; a complex result must have "
    "|Im| < 2^(10-p)*max(|Re|,1)); an explicit step h only from {2^-(p/2+12), 2^-p, 2^-(p+10)} with central differences (the window in "
    "which both the truncation error h^2 and the cancellation n*log2(1/h) stay within hsteps' working precision)",
    "pade: 'series matches a up to order L+M' is instantiated as |coeff_j(A*Q - P)| <= 2^(10-p) * (sum_i |q_i|) * max_j |a_j| for j <= L+M, "
    "q_0 = 1, len p = L+1, len q = M+1, with A the input coefficients as rounded to mpf (read exactly)",
    "differint: integer orders n >= 0 (derivative) and n = -1 (integral from 0), x > 0 dyadic",
    "the quantifier over functions/points/orders/options is sampled; the oracle is proved",
]

PRECS = [30, 53, 53, 64, 100, 150, 200, 300]


def _coef(r):
    k = r.random()
    if k < 0.6:
        return Fraction(r.choice([-1, 1]) * r.randint(1, 9))
    return Fraction(r.choice([-1, 1]) * r.randint(1, 15), r.choice([2, 4, 3, 5]))


def gen_fam(r):
    k = r.choice(["poly", "poly", "expL", "sinL", "cosL", "xexp"])
    if k == "poly":
        nt = r.randint(1, 5)
        degs = r.sample(range(0, 13), nt)
        return {"fam": "poly", "ts": [[rtok(_coef(r)), n] for n in sorted(degs)]}
    c = Fraction(r.choice([-4, -3, -2, -1, 1, 2, 3, 4]), r.choice([1, 1, 2, 3]))
    return {"fam": k, "c": rtok(c)}


def gen_x(r):
    return Fraction(r.randint(-32, 32), 8)


def gen_opts(r, prec, n):
    k = r.random()
    if k < 0.35:
        return {}
    if k < 0.5:
        return {"direction": r.choice([1, -1])}
    if k < 0.6:
        return {"addprec": r.choice([5, 20, 40])}
    if k < 0.68:
        return {"relative": True}
    if k < 0.76:
        return {"singular": True}
    if k < 0.84:
        return {"h_exp": r.choice([prec // 2 + 12, prec, prec + 10])}
    return {"method": "quad", "radius": r.choice(["1/4", "1/2", "1"])}


def case_diff(r, st, quick):
    api = r.choices(["diff", "diffs", "diffun", "taylor", "partial"], weights=[40, 15, 10, 20, 15])[0]
    prec = r.choice(PRECS)
    st.note("api", api); st.note("prec", prec)
    if api == "partial":
        dim = r.choice([2, 2, 3])
        fams = [gen_fam(r) for _ in range(dim)]
        xs = [gen_x(r) for _ in range(dim)]
        orders = [r.randint(0, 3) for _ in range(dim)]
        if dim == 3:
            prec = min(prec, 100)
        opts = r.choice([{}, {}, {"direction": 1}, {"addprec": 20}])
        t = {"kind": "diff", "api": api, "prec": prec, "fams": fams, "xs": [rtok(x) for x in xs], "orders": orders, "opts": opts,
             "timeout": 20 if quick else 120}
        for f in fams:
            st.note("family", f["fam"])
        st.note("order", sum(orders)); st.note("option", ",".join(sorted(opts)) or "default")
        blocks = " ".join("%s %d %s 1" % (fam_tokens(f), n, rtok(x)) for f, n, x in zip(fams, orders, xs))
        refs = ["famderivs 1 1 %d %s" % (dim, blocks)]
    else:
        fam = gen_fam(r); x = gen_x(r)
        n = r.randint(0, 10) if api != "diffs" else r.randint(0, 8)
        opts = gen_opts(r, prec, n)
        if "h_exp" in opts and api in ("diffs", "taylor"):
            opts["h_exp"] = max(opts["h_exp"], prec)     # diffs re-uses one-sided subsets of the samples: truncation O(h), not O(h^2)
        if opts.get("method") == "quad":
            prec = min(prec, 150)
            if api in ("diffs", "taylor"):
                n = min(n, 5)
        t = {"kind": "diff", "api": api, "prec": prec, "fam": fam, "x": rtok(x), "n": n, "opts": opts, "timeout": 20 if quick else 120}
        if api == "diffun" and r.random() < 0.6:
            t["make_prec"] = r.choice([q for q in PRECS if q != prec] or [prec + 40])
            st.note("diffun_made_at", "lower" if t["make_prec"] < prec else "higher")
        st.note("family", fam["fam"]); st.note("order", n); st.note("option", ",".join(sorted(opts)) or "default")
        ft = fam_tokens(fam)
        if api in ("diff", "diffun"):
            refs = ["famderivs 1 1 1 %s %d %s 1" % (ft, n, rtok(x))]
        elif api == "diffs":
            refs = ["famderivs 1 1 1 %s %d %s 1" % (ft, k, rtok(x)) for k in range(n + 1)]
        else:
            fac = 1
            refs = []
            for k in range(n + 1):
                fac = fac * k if k else 1
                refs.append("famderivs 1 1 1 %s %d %s %d" % (ft, k, rtok(x), fac))
    prec_ = prec

    def lines(res):
        out = {}
        if len(res["vs"]) != len(refs):
            return out
        for i, (ref, v) in enumerate(zip(refs, res["vs"])):
            y = v.get("re")
            if "im" in v:
                # method='quad' returns complex values with a (tiny) imaginary part: the real part is judged, the imaginary part
                # must itself be below the absolute tolerance
                pass
            if is_dy(y):
                out["v%d" % i] = "%s %s %d 10" % (ref, dy_tokens(y), prec_)
        return out

    def judge(res, ans):
        bad, und = [], []
        if len(res["vs"]) != len(refs):
            return "violates", "returned %d values, expected %d" % (len(res["vs"]), len(refs))
        for i, v in enumerate(res["vs"]):
            a = ans.get("v%d" % i)
            if a is None:
                bad.append("#%d: non-finite result %s" % (i, json.dumps(v)))
            elif a == "violates":
                bad.append("#%d: error not below 2^(10-p)*max(|v|,1)" % i)
            elif a != "ok":
                und.append(i)
            im = v.get("im")
            if im is not None and is_dy(im):
                re_ = abs(CO.dy_fraction(v["re"])) if is_dy(v.get("re")) else Fraction(0)
                if abs(CO.dy_fraction(im)) >= Fraction(2) ** (10 - prec_) * max(1, re_):
                    bad.append("#%d: imaginary part %s not below 2^(10-p)*max(|re|,1)" % (i, float(CO.dy_fraction(im))))
        if res.get("prec_after") != prec_:
            bad.append("working precision not restored (%s)" % res.get("prec_after"))
        if bad:
            return "violates", "; ".join(bad[:4])
        return ("undecided", None) if und else ("ok", None)

    site = "calculus.differentiation.%s" % ("diff[partial]" if api == "partial" else api)
    if t["opts"].get("relative") and api != "partial" and Fraction(t["x"]) == 0:
        site = "calculus.differentiation.diff[relative,x=0]"
    if t["opts"].get("method") == "quad":
        # the Cauchy-integral method has 10 guard bits and loses log2(n!/r^n) of them (and more when max|f| on the circle is large):
        # orders n >= 6, or smaller orders on a small circle, are the recorded finding F-C28-QUAD
        n_ = int(t.get("n", 0))
        rad_ = Fraction(t["opts"].get("radius", "1/4"))
        lossy = n_ >= 6 or Fraction(math.factorial(n_)) / rad_ ** n_ > 2 ** 10
        site = "calculus.differentiation.diff[quad,n>=6]" if lossy else "calculus.differentiation.diff[quad]"
    return {"task": t, "site": site, "lines": lines, "judge": judge, "nontrivial": True}


def case_pade(r, st, quick):
    prec = r.choice(PRECS)
    L, M = r.randint(0, 6), r.randint(0, 6)
    kind_ = r.choice(["exp", "rational", "log", "random"])
    n = L + M + 1 + r.choice([0, 0, 2])
    if kind_ == "exp":
        a, f = [], 1
        for k in range(n):
            f = f * k if k else 1
            a.append(Fraction(1, f))
    elif kind_ == "rational":     # (1 + x) / (1 - x/2 + x^2/3): exact Pade for L >= 1, M >= 2
        den = [Fraction(1), Fraction(-1, 2), Fraction(1, 3)]
        num = [Fraction(1), Fraction(1)]
        a = []
        for k in range(n):
            s = num[k] if k < len(num) else Fraction(0)
            for i in range(1, min(k, 2) + 1):
                s -= den[i] * a[k - i]
            a.append(s)
    elif kind_ == "log":          # log(1+x)/x
        a = [Fraction((-1) ** k, k + 1) for k in range(n)]
    else:
        a = [Fraction(r.randint(-9, 9), r.choice([1, 2, 4])) for _ in range(n)]
        if a[0] == 0:
            a[0] = Fraction(1)
    t = {"kind": "pade", "prec": prec, "a": [rtok(x) for x in a], "L": L, "M": M, "timeout": 20}
    st.note("pade_series", kind_); st.note("pade_LM", "%d,%d" % (L, M)); st.note("prec", prec)

    def lines(res):
        def lst(xs):
            ys = [v.get("re") for v in xs]
            if not all(is_dy(y) for y in ys):
                return None
            return "%d %s" % (len(ys), " ".join(rtok(CO.dy_fraction(y)) for y in ys))
        A, P, Q = lst(res["a"]), lst(res["p"]), lst(res["q"])
        if None in (A, P, Q):
            return {}
        return {"v": "padecheck %d %d %d %s %s %s" % (L, M, prec, A, P, Q)}

    def judge(res, ans):
        a_ = ans.get("v")
        if a_ is None:
            return "violates", "non-finite coefficients"
        if a_ == "B:1":
            return "ok", None
        if a_ == "B:0":
            return "violates", "A*Q - P does not vanish to order L+M within 2^(10-p)*(sum|q|)*max|a| (or wrong lengths / q0 != 1)"
        return "undecided", None

    # a singular Pade table entry makes lu_solve raise: that is an exception on a degenerate input, not in-domain
    return {"task": t, "site": "calculus.differentiation.pade[L=M=0]" if L + M == 0 else "calculus.differentiation.pade", "lines": lines, "judge": judge, "nontrivial": L + M > 0,
            "in_domain": kind_ in ("exp", "log")}


def case_differint(r, st, quick):
    prec = r.choice(PRECS)
    k = r.randint(0, 9)
    n = r.choice([-1, 0, 1, 2, 3, 5, k, k + 1])
    x = Fraction(r.randint(1, 40), 8)
    t = {"kind": "differint", "prec": prec, "k": k, "n": n, "x": rtok(x), "timeout": 30 if quick else 120}
    st.note("differint_order", n); st.note("prec", prec)

    def lines(res):
        y = res["v"].get("re")
        if "im" in res["v"] or not is_dy(y):
            return {}
        return {"v": "differint %d %d %s %s %d 10" % (k, n, rtok(x), dy_tokens(y), prec)}

    def judge(res, ans):
        a = ans.get("v")
        if a is None:
            return "violates", "non-real or non-finite result %s" % json.dumps(res["v"])
        if a == "violates":
            return "violates", "error not below 2^(10-p)*max(|v|,1)"
        return ("ok", None) if a == "ok" else ("undecided", None)

    return {"task": t, "site": "calculus.differentiation.differint", "lines": lines, "judge": judge, "nontrivial": True}


def case_difference(r, st, quick):
    """T1 (exact): entries with few bits, precision high enough that no rounding occurs"""
    n = r.randint(0, 12)
    m = n + 1 + r.choice([0, 0, 3])
    s = [Fraction(r.randint(-2 ** 20, 2 ** 20), 2 ** r.choice([0, 4, 10])) for _ in range(m)]
    t = {"kind": "difference", "prec": 200, "s": [rtok(q) for q in s], "n": n, "timeout": 10}
    st.note("difference_n", n)

    def lines(res):
        return {"m": "difference %d %s" % (n, " ".join(rtok(q) for q in s))}

    def judge(res, ans):
        a = ans.get("m", "")
        y = res["v"].get("re")
        if not a.startswith("Q:") or not is_dy(y):
            return "violates", "model %s vs %s" % (a, json.dumps(res["v"]))
        if Fraction(a[2:]) != CO.dy_fraction(y):
            return "violates", "difference(s, n) = %s but the exact n-th forward difference is %s" % (CO.dy_fraction(y), a[2:])
        return "ok", None

    return {"task": t, "site": "calculus.differentiation.difference", "lines": lines, "judge": judge, "nontrivial": n >= 1}


def run(ctx):
    r = random.Random(ctx.seed)
    st = CO.Stats()
    quick = ctx.quick
    n1, n2, n3, n4 = (420, 120, 50, 60) if quick else (6000, 1500, 600, 600)
    cases = ([case_diff(r, st, quick) for _ in range(n1)] + [case_pade(r, st, quick) for _ in range(n2)] +
             [case_differint(r, st, quick) for _ in range(n3)] + [case_difference(r, st, quick) for _ in range(n4)])
    info, fails = CO.run_cases(cases, ctx, nworkers=6, default_timeout=20.0, budget_s=60 if quick else 3000)
    s = info["summary"]
    evaluations = sum(max(1, len(c["res"].get("ok", {}).get("vs", [1]))) for c in cases if c.get("verdict") in ("ok", "violates", "undecided"))
    cov = {
        "evaluations": evaluations,
        "distinct_nontrivial": info["distinct_nontrivial"],
        "programs": 8,     # diff(step), diff(quad), diff(partial), diffs, diffun, taylor, pade, differint (+ difference T1)
        "disagreements_checked": evaluations,
        "rule": "function drawn from the families with a proved n-th derivative, dyadic point, order 0..10, option set drawn from the "
                "documented options; pade on exp / log(1+x)/x / a rational function / random coefficient lists; non-trivial = a finite "
                "result decided by the Lean checker",
        "cases": s, "undecided": s.get("undecided", 0),
        "input_distribution": st.as_dict(),
        "samples": info["samples"][:4],
    }
    return {"coverage": cov, "failing_inputs": fails, "disagreements": []}
