"""C17 — mathematical constants are accurate at every precision and history (cache + rounding logic)."""
import os, json, time, random
import cache_ops, const_checks

LEVEL = "proof"
LEAN_MODULES = ["MpProofs.Cache", "MpProofs.CacheNormalize", "Props.C17"]
ASSUMPTIONS = [
    "PROVED here: the memo cache and the rounding logic (memo_history_independent, mpfConstant_history_independent, "
    "constant_directed) under the hypothesis that the fixed-point function F is an exact floor (ShiftStable F, resp. "
    "c*2^wp - 1 < v <= c*2^wp).  The accuracy of the fixed-point algorithms themselves (pi, e, ln2, ln10, phi, degree) is decided "
    "per precision by a SEPARATE validator against verified enclosures and is not claimed by these theorems",
    "euler, catalan, apery, khinchin, glaisher, twinprime, mertens have no verified reference: for them only the cache theorems and "
    "the reference-free decisions (history independence, directed-rounding consistency, refinement across precisions within 1 ulp) apply; "
    "their accuracy is not claimed",
    "the raw fixed-point functions are NOT always exact floors (e.g. ln10_fixed is one below the floor at 51 of the precisions <= 1200): "
    "the hypothesis ShiftStable fails for them, so history independence of the mpf values is DECIDED per precision over a bounded history "
    "space instead of inferred from the theorem (coverage.history_*)",
    "`prec <= int(prec*1.05+10)`: proved for prec < 4200 (Props/C33 newprec_ge_small), hypothesis `hnp` beyond; the binary64 model of the "
    "expression is validated against CPython on every run (seeded sample; exhaustive for prec <= 10^6 in the thorough tier)",
    "refinement decision: if the floor/ceiling pair at p+k bits encloses the constant then the p-bit value in every mode is determined; a "
    "mismatch proves one of the two precisions wrong, agreement does not prove either right",
]


def _replay_inputs(ctx):
    if not ctx.replay:
        return []
    try:
        rp = json.load(open(ctx.replay))
    except (OSError, ValueError):
        return []
    return [f for f in [rp.get("failing_input") or {}] + list(rp.get("others") or []) if f.get("input")]


def run(ctx):
    os.environ["CACHE_NEWPREC_EXHAUSTIVE"] = "0" if ctx.quick else "1"
    rnd = random.Random(ctx.seed)
    H = cache_ops.CacheHarness(ctx.seed)
    n = 40 if ctx.quick else 1500
    H.run(n, ["newprec", "constfinal", "memo", "const"])
    R = H.R
    fails, dis = [], []
    for d in H.dis:
        dis.append({"name": "T1:const:" + d["part"], "op": d["part"], "line": d["line"], "impl": str(d["impl"])[:300],
                    "model": str(d["model"])[:300], "note": d.get("note", "")})
    for f in H.findings:
        fails.append({"site": f["site"], "what": f["what"], "input": json.loads(json.dumps(f["input"], default=str))})
    stats, info = {}, {}
    t = time.time()
    fast = [c for c in const_checks.SIX + const_checks.SEVEN if c not in const_checks.SLOW]
    pmax, qmax = (600, 800) if ctx.quick else (3000, 3500)
    const_checks.history_decision(R, fast, pmax, qmax, stats, fails, info)
    const_checks.history_decision(R, const_checks.SLOW, 150 if ctx.quick else 500, 250 if ctx.quick else 700, stats, fails, info)
    # windows in the high-precision range (a fixed-point value that is inaccurate in its last bits is only seen by a request
    # served from the cache, i.e. within 5% above the precision that filled it)
    wins = []
    for _ in range(3 if ctx.quick else 12):
        p0 = rnd.randint(900, 5000 if ctx.quick else 12000)
        hi = p0 + p0 // 16 + 60
        wins.append([p0, hi])
        const_checks.history_decision(R, fast, hi, hi, stats, fails, info, plo=p0, qlo=p0)
    stats["history_windows"] = wins
    stats["time_history_s"] = round(time.time() - t, 1)
    t = time.time()

    def precs_of(c):
        if c in const_checks.SLOW:
            hi, k = (150, 25) if ctx.quick else (600, 200)
        else:
            hi, k = (700, 110) if ctx.quick else (4096, 1500)
        base = list(range(1, 33 if c in const_checks.SLOW else 65))
        return sorted(set(base + [rnd.randint(1, hi) for _ in range(k)]))

    def ks(p):
        return sorted(set([1, 2, rnd.randint(3, 40), 64]))
    const_checks.directed_and_refinement(R, H.g, const_checks.SIX + const_checks.SEVEN, precs_of, ks, stats, fails)
    stats["time_directed_refinement_s"] = round(time.time() - t, 1)
    for f in _replay_inputs(ctx):
        inp = f.get("input") or {}
        if inp.get("kind") == "history":
            if const_checks.replay_history(R, inp):
                fails.append({"site": f.get("site"), "what": f.get("what"), "input": inp})
    steps = H.count.get("memo_steps", 0) + H.count.get("const_steps", 0)
    evals = steps + H.count.get("newprec", 0) + H.count.get("constfinal", 0) + H.count.get("memo_probes", 0) + \
        H.count.get("const_probes", 0) + stats.get("history_cases", 0) + stats.get("directed_cases", 0) + stats.get("refinement_cases", 0)
    cov = {
        "evaluations": evals,
        "distinct_nontrivial": steps + stats.get("directed_cases", 0) + stats.get("refinement_cases", 0),
        "rule": "(1) int(prec*1.05+10) model vs CPython: seeded sample of 30000 precisions <= 10^6, all <= 5000, binade boundaries to 2^60 "
                "(thorough: exhaustive <= 10^6); (2) def_mpf_constant's final step on structured mantissas (tie/carry/all-ones shapes, "
                "lengths wp-2..wp+2) in all five modes vs the model; (3) seeded request histories (ascending, descending, repeated, random, "
                "cache-limit±1, faults injected into f(newprec)) over pi/e/ln2/ln10/phi/catalan/apery at the fixed-point and at the mpf level, "
                "state compared after every request, one probe per history and mode compared with a fresh process; (4) history independence "
                "DECIDED for every precision p <= %d (slow constants: see history_*), every mode and every memo precision reachable by "
                "histories of requests <= %d bits; (5) directed-rounding consistency and refinement across precisions (k = 1, 2, random, 64) "
                "for all thirteen constants on all p <= 64 plus a seeded sample.  A case is non-trivial when it is a request of a history "
                "(hit, miss or fault) or a (constant, precision) pair of (5)" % (pmax, qmax),
        "samples": ["history_decision: const=ln10 p=396 memo precisions {416: value-1, others: value}: all five modes equal",
                    "refinement: mpf_pi(53,'n') == round((floor_117 + ceil_117)/2 to 53 bits)",
                    "memoT/constT request lines of the driver (see cache_ops.py)"],
        "per_part": {k: v for k, v in sorted(H.count.items()) if not k.startswith("time_")},
        "time_per_part_s": {k[5:]: v for k, v in sorted(H.count.items()) if k.startswith("time_")},
        "decisions": stats,
        "informational": {k: {"count": len(v), "examples": v[:6]} for k, v in info.items()},
        "rounding_level_differences_observed": json.loads(json.dumps(H.soft, default=str)),
        "input_distribution": {k: {str(a): b for a, b in v.items()} for k, v in H.g.hist.items()},
        "failing_per_site": {},
        "undecided": 0,
    }
    for f in fails:
        cov["failing_per_site"][f["site"]] = cov["failing_per_site"].get(f["site"], 0) + 1
    return {"coverage": cov, "failing_inputs": fails, "disagreements": dis}
