"""C10 — rounded operations never return more bits than the working precision."""
from props import _core, _api

LEVEL = "proof"
LEAN_MODULES = ["Props.C10", "Props.C10more"]
OPS = ["normalize", "normalize1", "from_man_exp", "from_int", "pos", "neg", "abs", "add", "sub", "mul", "gmul", "div",
       "mul_int", "gmul_int", "rdiv_int", "from_rational", "sqrt", "mod", "pow_int", "perturb", "floor", "ceil", "nint",
       "frac", "hypot", "sum"]
ASSUMPTIONS = ["theorems cover the modelled libmpf core; the wrapper layer is monitored by the sweep, not proved",
               "documented-exact operations are whitelisted from the property text only: ldexp, frexp, mpmathify/convert, "
               "exact f* operations, component access (re, im, .real, .imag, interval .a/.b)"]


def run(ctx):
    res = _core.run_core(ctx, OPS, 120000, 3000000, monitors=("bits",))
    return _api.add_sweep(ctx, res, "C10")
