"""C14 — real interval operations contain every possible exact result."""
from props import _civ
import cplx_iv_ops as CI
import iv_fun_ops as IVF

LEVEL = "proof"
LEAN_MODULES = ["Props.C14", "Props.C14more", "Props.C14fun", "Props.C14pow", "Props.C14inf"]
ASSUMPTIONS = ["containment theorems are for intervals with finite endpoints (add, sub, neg, pos, mul in all sign cases); infinite endpoints, "
               "div, sqrt, pow_int and the conversions are bit-exactly modelled and decided on sample points per case",
               "transcendental interval functions (iv.exp, log, sqrt, sin, cos, tan, cot, sec, csc, mpi_atan, iv.atan2, real ** with non-integer "
               "exponents) are NOT modelled: the statement 'for all intervals and precisions' is SAMPLED (structured + steered generators, "
               "precisions 2..200) and every sample point is decided against an enclosure of the verified evaluator (Props/C14fun.lean: "
               "C14_ref_enclosure, C14_ref_outside, C14_ref_inside, C14_ref_enclosure_pow) in exact integer arithmetic; undecided points are "
               "counted, never passed; sample points of exp-like functions are limited to |x| < 2^24, of trig functions to |x| < 2^1100",
               "atan2: the reference combines verified atan enclosures of a dyadic bracket of |y/x| with the verified pi enclosure and quadrant "
               "logic in Python (exact rational arithmetic; this combination step is not verified); the origin is treated as outside the domain",
               "iv.gamma / rgamma / loggamma / factorial: no verified evaluator exists; only integer and half-integer points (exact values, "
               "sqrt(pi) bracketed by the verified sqrt/pi enclosures) and poles are checked -- a NECESSARY condition, not containment",
               "mpmath's mp context is used only to steer the generators (arguments whose value is within 2^-10 ulp of a grid point, dyadics "
               "next to k*pi/2), never in a decision"]


def run(ctx):
    res = _civ.run_civ(ctx, "C14", CI.INTERVAL_OPS + ["malformed"], 40000, 1500000)
    return IVF.merge_into(res, IVF.run_ivfun(ctx, "C14"))
