"""C14 — real interval operations contain every possible exact result."""
from props import _civ
import cplx_iv_ops as CI

LEVEL = "proof"
LEAN_MODULES = ["Props.C14"]
ASSUMPTIONS = ["containment theorems are for intervals with finite endpoints (add, sub, neg, pos, mul in all sign cases); infinite endpoints, "
               "div, sqrt, pow_int and the conversions are bit-exactly modelled and decided on sample points per case",
               "transcendental interval functions (exp, log, cos, sin, ...) are not covered by this check yet"]


def run(ctx):
    return _civ.run_civ(ctx, "C14", CI.INTERVAL_OPS + ["malformed"], 40000, 1500000)
