"""C30 — linear algebra results are accurate and factorizations are consistent (verified certificate checking).

Every case runs the real mpmath routine in a worker process, reads the output exactly and lets the compiled Lean
checker decide the property instance in exact dyadic arithmetic (tolerances: see linalg_ops.__doc__).
Exact singularity is decided by the exact determinant (`cert_detexact`); singular input must raise
ZeroDivisionError in `inverse` / `lu_solve`.
"""
import json
from common import *  # noqa
import linalg_ops as LA
import linalg_families as LF
from linalg_ops import MGen, Engine, tok, toks_of, flat, has_nonfinite, S

LEVEL = "translation_validation"
LEAN_MODULES = ["MpProofs.Cert", "MpProofs.CertResid", "MpProofs.CertSolve", "Props.C30"]
ASSUMPTIONS = [
    "tolerance instantiation: relative error cond(A)*2^(10-p) is read in the infinity operator norm, "
    "||A^-1 B - X|| <= ||A|| ||A^-1|| 2^(10-p) ||A^-1 B||; cond is bounded on both sides from the exact certificate, so the "
    "verdict is three-valued (ok / violates / undecided)",
    "the property text gives no tolerance for the factorization identities; instantiated as Frobenius residual <= 2^(10-p) * "
    "(||L||_F ||U||_F for lu, ||A||_F for qr and cholesky, sqrt(q) for orthonormality); structure (zeros, unit diagonal, "
    "permutation, positive real Cholesky diagonal) is exact",
    "overdetermined systems: the reference is the exact solution of the normal equations A^H A x = A^H b with "
    "cond(A^H A) in the tolerance",
    "entries are read and sent exactly (mpf -> man*2^exp); the only trusted computation outside Lean is the encoding/decoding "
    "of tokens and CPython integers",
    "'moderate condition number' is made decidable as: certificate alpha < 1 and (upper bound of cond_inf)*2^(10-p) < 1 "
    "(used only to decide whether an exception on a nonsingular input counts as a failure)",
]

SQUARE_CLASSES = ["general", "general", "general", "symmetric", "hermitian", "upper", "lower", "diagonal", "hilbert",
                  "defective", "repeated", "identity", "spd"]


# structured square inputs (linalg_families): shape-selected branches of the factorizations.  For the solvers only families
# that stay (mostly) nonsingular are used; rank-deficient ones are left to the factorization identities (lu, qr).
SOLVE_FAMILIES = ["graded_rows", "graded_cols", "graded_both", "diagdom", "diagdom", "near_upper", "near_lower", "block_tri",
                  "block_diag", "sparse", "zero_diag"]
P_STRUCTURED = 0.3


def _mk_square(g, forced_cls=None, families=None):
    r = g.r
    p = g.prec()
    n = g.size()
    if forced_cls is None and r.random() < P_STRUCTURED:
        fam = r.choice(families or SOLVE_FAMILIES)
        cplx = r.random() < 0.35
        A = LF.rect_family(g, fam, n, n, p, cplx)
        g.note("class", "fam:" + fam)
        g.note("field", "complex" if cplx else "real")
        return p, n, "fam:" + fam, cplx, A
    cls = forced_cls or r.choice(SQUARE_CLASSES)
    if cls == "hilbert":
        n = min(n, 6)
    cplx = r.random() < 0.35 and cls not in ("hilbert", "symmetric")
    if cls == "hermitian":
        cplx = True
    A = g.matrix(cls, n, p, cplx)
    g.note("class", cls)
    g.note("field", "complex" if cplx else "real")
    return p, n, cls, cplx, A


def _rhs(g, n, p, cplx, k=1):
    kind = g.r.choice(["int", "dyadic", "decimal", "bigint"])
    return g.rect(n, k, kind, p, cplx)


def _det_is_zero(ans):
    d = ans.get("det", "")
    if not d.startswith("D:"):
        return None
    re, im = d[2:].split(",")
    return re.split(":")[0] == "0" and im.split(":")[0] == "0"


# ---------------------------------------------------------------------------------------------------------------
# case builders
# ---------------------------------------------------------------------------------------------------------------

def case_solve(g, op, singular=False):
    if op == "cholesky_solve":
        p, n, cls, cplx, A = _mk_square(g, "spd")
        if g.r.random() < P_STRUCTURED:
            cls, A = LF.spd_family(g, n, p, cplx)
            g.note("class", cls)
    elif singular:
        p, n, cls, cplx, A = _mk_square(g, "singular")
    else:
        p, n, cls, cplx, A = _mk_square(g)
    b = _rhs(g, n, p, cplx)
    task = {"op": op, "prec": p, "cplx": cplx, "A": toks_of(A), "b": toks_of(b)}
    At, bt = flat(task["A"]), flat(task["b"])
    R = LA.cert_R(A, p)

    def lines(c, res):
        ls = {"det": "cert_detexact %d %s" % (n, At)}
        o = (res or {}).get("ok")
        if R is not None:
            ls["cond"] = "cert_cond %d %d %s %s" % (n, p, At, flat(R))
            if o and "x" in o and not has_nonfinite(o["x"]):
                ls["cert"] = "cert_solve %d 1 %d %s %s %s %s" % (n, p, At, bt, flat(o["x"]), flat(R))
        return ls

    def judge(c, res, ans):
        if (R is None) != bool(_det_is_zero(ans)):
            return "undecided", "harness: Python exact inverse and Lean exact determinant disagree about singularity"
        return _judge_solve(op, res, ans)
    return {"task": task, "site": "linalg." + op, "cls": cls + ("/singular" if singular else ""), "lines": lines, "judge": judge,
            "nontrivial": n >= 2}


def _judge_solve(op, res, ans):
    z = _det_is_zero(ans)
    if z is None:
        return "undecided", "no exact determinant"
    if z:
        if op in ("lu_solve", "inverse"):
            if res.get("exc") == "ZeroDivisionError":
                return "ok", None
            if "exc" in res:
                return ("violates", "exactly singular input raised %s (%s), not ZeroDivisionError" % (res["exc"], res.get("msg")),
                        "singular_typeerror" if res["exc"] == "TypeError" else "singular_other_exception")
            return "violates", "exactly singular input returned a result instead of raising ZeroDivisionError", "singular_returned"
        return "na", "singular input (no requirement for %s)" % op
    if "exc" in res:
        if ans.get("cond") == "B:1":
            return "violates", "nonsingular, well-conditioned input raised %s: %s" % (res["exc"], res.get("msg")), "exception_wellcond"
        return "na", "exception %s on an input not certified well-conditioned" % res["exc"]
    o = res["ok"]
    if has_nonfinite(o.get("x", [])):
        return "violates", "non-finite entries in the result"
    v = ans.get("cert")
    if v is None:
        return "undecided", "no certificate"
    if v == "V:ok":
        return "ok", None
    if v == "V:violates":
        return "violates", "forward error exceeds cond(A)*2^(10-p) relative (decided from exact bounds)", "forward_error"
    return "undecided", v


def case_inverse(g, singular=False):
    p, n, cls, cplx, A = _mk_square(g, "singular" if singular else None)
    task = {"op": "inverse", "prec": p, "cplx": cplx, "A": toks_of(A)}
    At = flat(task["A"])
    R = LA.cert_R(A, p)

    def lines(c, res):
        ls = {"det": "cert_detexact %d %s" % (n, At)}
        o = (res or {}).get("ok")
        if R is not None:
            ls["cond"] = "cert_cond %d %d %s %s" % (n, p, At, flat(R))
            if o and "x" in o and not has_nonfinite(o["x"]):
                ls["cert"] = "cert_inv %d %d %s %s %s" % (n, p, At, flat(o["x"]), flat(R))
        return ls
    return {"task": task, "site": "linalg.inverse", "cls": cls + ("/singular" if singular else ""), "lines": lines,
            "judge": lambda c, res, ans: _judge_solve("inverse", res, ans), "nontrivial": n >= 2}


def case_det(g):
    p, n, cls, cplx, A = _mk_square(g)
    task = {"op": "det", "prec": p, "cplx": cplx, "A": toks_of(A)}
    At = flat(task["A"])
    R = LA.cert_R(A, p)

    def lines(c, res):
        ls = {"det": "cert_detexact %d %s" % (n, At)}
        o = (res or {}).get("ok")
        if o and R is not None and o.get("d") != "NONFINITE":
            ls["cert"] = "cert_det %d %d %s %s %s" % (n, p, At, o["d"], flat(R))
        return ls

    def judge(c, res, ans):
        z = _det_is_zero(ans)
        if z is None:
            return "undecided", "no exact determinant"
        if z:
            return "na", "singular input (property speaks of nonsingular matrices)"
        if "exc" in res:
            return "violates", "det raised %s: %s" % (res["exc"], res.get("msg"))
        if res["ok"].get("d") == "NONFINITE":
            return "violates", "non-finite determinant"
        v = ans.get("cert")
        if v is None:
            return "undecided", "no certificate"
        if v == "V:ok":
            return "ok", None
        if v == "V:violates":
            return "violates", "|det - exact det| exceeds cond(A)*2^(10-p)*|det| (decided exactly)"
        return "undecided", v
    return {"task": task, "site": "linalg.det", "cls": cls, "lines": lines, "judge": judge, "nontrivial": n >= 2}


def case_over(g, op):
    r = g.r
    p = g.prec()
    n = max(1, min(g.size(), 6))
    m = n + r.randint(1, 3)
    if m > 8:
        m = 8
        n = min(n, 7)
    cplx = r.random() < 0.3
    kind = g.kind()
    cls = "overdetermined"
    if r.random() < P_STRUCTURED:
        fam = r.choice(["graded_rows", "graded_cols", "graded_both", "diagdom", "near_upper", "block_tri", "sparse", "zero_diag"])
        A = LF.rect_family(g, fam, m, n, p, cplx, kind)
        cls = "overdetermined/fam:" + fam
    else:
        A = g.rect(m, n, kind, p, cplx)
    b = g.rect(m, 1, r.choice(["int", "dyadic", "decimal"]), p, cplx)
    g.note("class", cls)
    g.note("field", "complex" if cplx else "real")
    task = {"op": op, "prec": p, "cplx": cplx, "A": toks_of(A), "b": toks_of(b)}
    At, bt = flat(task["A"]), flat(task["b"])
    N = MGen.m_mul(MGen.m_H(A), A)
    Nt = flat(toks_of(N))
    R = LA.cert_R(N, p)

    def lines(c, res):
        ls = {"det": "cert_detexact %d %s" % (n, Nt)}
        o = (res or {}).get("ok")
        if R is not None:
            ls["cond"] = "cert_cond %d %d %s %s" % (n, p, Nt, flat(R))
            if o and "x" in o and not has_nonfinite(o["x"]):
                ls["cert"] = "cert_lsq %d %d 1 %d %s %s %s %s" % (m, n, p, At, bt, flat(o["x"]), flat(R))
        return ls

    def judge(c, res, ans):
        z = _det_is_zero(ans)
        if z is None:
            return "undecided", "no exact determinant"
        if z:
            return "na", "rank-deficient overdetermined system"
        return _judge_solve(op + "/over", res, ans)
    return {"task": task, "site": "linalg." + op, "cls": cls, "lines": lines, "judge": judge}


def case_lu(g, cache=False):
    p, n, cls, cplx, A = _mk_square(g, families=LF.RECT_FAMILIES)
    task = {"op": "lu", "prec": p, "cplx": cplx, "A": toks_of(A)}
    if cache:
        task["op"] = "lu_cache"
        task["prec0"] = g.r.choice([30, 40, 53])
        if p <= task["prec0"] + 20:
            p = task["prec"] = task["prec0"] + g.r.choice([47, 100, 200])
    At = flat(task["A"])
    R = LA.cert_R(A, p)

    def lines(c, res):
        ls = {"det": "cert_detexact %d %s" % (n, At)}
        o = (res or {}).get("ok")
        if R is not None:
            ls["cond"] = "cert_cond %d %d %s %s" % (n, p, At, flat(R))
        if o and "P" in o and not has_nonfinite(o["P"], o["L"], o["U"]):
            ls["cert"] = "cert_lu %d %d %s %s %s %s" % (n, p, flat(o["P"]), At, flat(o["L"]), flat(o["U"]))
        return ls

    def judge(c, res, ans):
        z = _det_is_zero(ans)
        if z is None:
            return "undecided", "no exact determinant"
        if "exc" in res:
            if z:
                return ("ok", None) if res["exc"] == "ZeroDivisionError" else \
                    ("violates", "exactly singular input raised %s (%s), not ZeroDivisionError" % (res["exc"], res.get("msg")),
                     "singular_typeerror" if res["exc"] == "TypeError" else "singular_other_exception")
            if ans.get("cond") == "B:1":
                return "violates", "nonsingular, well-conditioned input raised %s: %s" % (res["exc"], res.get("msg"))
            return "na", "exception on an input not certified well-conditioned"
        v = ans.get("cert")
        if v is None:
            return "violates", "non-finite entries in the factors"
        if v == "V:ok":
            return "ok", None
        return "violates", "lu identity/structure fails: " + v + (" [same matrix object factored before at prec %d]" % task["prec0"] if cache else "")
    return {"task": task, "site": "linalg.lu" + ("[cache-history]" if cache else ""), "cls": cls, "lines": lines, "judge": judge,
            "nontrivial": n >= 2}


ASSIGN_KINDS = ["elem", "row_m", "col_m", "block_m", "row_s", "col_s", "block_s", "stride_s"]


def _apply_assign(A, rs, cs, val):
    """elementwise definition of A[rs, cs] = val on the exact matrix (rs / cs: int or [start, stop, step])"""
    n = len(A)
    rows = list(range(*slice(*rs).indices(n))) if isinstance(rs, list) else [rs]
    cols = list(range(*slice(*cs).indices(n))) if isinstance(cs, list) else [cs]
    A = [list(row) for row in A]
    for a, i in enumerate(rows):
        for b, j in enumerate(cols):
            A[i][j] = val["m"][a][b] if "m" in val else val["s"]
    return A


def _gen_assign(g, n, p, cplx):
    """one assignment to an n x n matrix: (kind, rowspec, colspec, value) with exact new entries"""
    r = g.r
    kind = r.choice(ASSIGN_KINDS)
    ek = r.choice(["int", "dyadic", "decimal", "bigint"])
    ent = lambda: g.entry(ek, p, cplx)
    rng = lambda: sorted(r.sample(range(n + 1), 2)) if n >= 1 else [0, 0]
    if kind == "elem":
        rs, cs, val = r.randrange(n), r.randrange(n), {"s": ent()}
    elif kind in ("row_m", "row_s"):
        rs, cs = r.randrange(n), [None, None, None]
        val = {"m": [[ent() for _ in range(n)]]} if kind == "row_m" else {"s": ent()}
    elif kind in ("col_m", "col_s"):
        rs, cs = [None, None, None], r.randrange(n)
        val = {"m": [[ent()] for _ in range(n)]} if kind == "col_m" else {"s": ent()}
    elif kind in ("block_m", "block_s"):
        (a, b), (c, d) = rng(), rng()
        rs, cs = [a, b, None], [c, d, None]
        val = {"m": [[ent() for _ in range(d - c)] for _ in range(b - a)]} if kind == "block_m" else {"s": ent()}
    else:
        rs, cs = [r.choice([None, 0, 1]), None, 2], r.choice([[None, None, None], r.randrange(n)])
        val = {"s": ent()}
    return kind, rs, cs, val


def case_lu_history(g):
    """factor -> assign (element / row / column / block / strided slice; matrix or scalar value) -> lu(A), ONE matrix object, ONE
    precision: the defining identity must hold for the CURRENT contents (A._LU filled by lu/LU_decomp must not survive an assignment)"""
    r = g.r
    p, n, cls, cplx, A0 = _mk_square(g)
    steps = []
    A = A0
    kinds = []
    for rnd in range(r.choice([1, 1, 2])):
        steps.append(["factor", r.choice(["lu", "LU_decomp"])])
        for _ in range(r.choice([1, 1, 2])):
            kind, rs, cs, val = _gen_assign(g, n, p, cplx)
            kinds.append(kind)
            A = _apply_assign(A, rs, cs, val)
            steps.append(["set", rs, cs, {k: (toks_of(v) if k == "m" else tok(v)) for k, v in val.items()}])
    g.note("assign", "+".join(kinds))
    task = {"op": "lu_history", "prec": p, "cplx": cplx, "A": toks_of(A0), "steps": steps}
    want = toks_of(A)
    At = flat(want)
    R = LA.cert_R(A, p)
    want_v = [[LA.frac(x) for x in row] for row in A]

    def same(T):
        return T is not None and "NONFINITE" not in flat(T) and [[LA.frac(LA.untok(t)) for t in row] for row in T] == want_v

    def lines(c, res):
        ls = {"det": "cert_detexact %d %s" % (n, At)}
        o = (res or {}).get("ok")
        if R is not None:
            ls["cond"] = "cert_cond %d %d %s %s" % (n, p, At, flat(R))
        if o and "P" in o and same(o.get("Acur")) and not has_nonfinite(o["P"], o["L"], o["U"]):
            ls["cert"] = "cert_lu %d %d %s %s %s %s" % (n, p, flat(o["P"]), At, flat(o["L"]), flat(o["U"]))
        return ls

    def judge(c, res, ans):
        z = _det_is_zero(ans)
        if z is None:
            return "undecided", "no exact determinant"
        if "exc" in res:
            return "violates", "assignment history raised %s: %s" % (res["exc"], res.get("msg"))
        o = res["ok"]
        if not same(o.get("Acur")):
            return "violates", "contents of A after the assignments differ from their elementwise definition"
        if "final_exc" in o:
            if z:
                return ("ok", None) if o["final_exc"] == "ZeroDivisionError" else \
                    ("violates", "exactly singular input raised %s (%s), not ZeroDivisionError" % (o["final_exc"], o.get("final_msg")),
                     "singular_typeerror" if o["final_exc"] == "TypeError" else "singular_other_exception")
            if ans.get("cond") == "B:1":
                return "violates", "nonsingular, well-conditioned current contents: lu raised %s: %s" % (o["final_exc"], o.get("final_msg"))
            return "na", "exception on an input not certified well-conditioned"
        v = ans.get("cert")
        if v is None:
            return "violates", "non-finite entries in the factors"
        if v == "V:ok":
            return "ok", None
        return "violates", ("lu identity/structure fails for the CURRENT contents of A: %s [history on one matrix object at prec %d: %s; "
                            "earlier factorizations: %s]" % (v, p, " -> ".join(s[0] if s[0] == "factor" else "assign" for s in steps) + " -> lu",
                                                            ",".join(x for x in o.get("log", []) if x != "set")))
    return {"task": task, "site": "linalg.lu[assignment-history]", "cls": cls + "/" + "+".join(sorted(set(kinds))), "lines": lines,
            "judge": judge, "nontrivial": n >= 2}


QR_FAMILIES = ["graded_rows", "graded_rows", "graded_both", "graded_cols", "diagdom", "diagdom", "near_upper", "near_upper",
               "near_lower", "zero_cols", "zero_rows", "dup", "lowrank", "bidiag", "block_tri", "block_diag", "sparse", "zero_diag"]


def case_qr(g, structured=False):
    r = g.r
    p = g.prec()
    n = max(2, min(g.size(2), 8))
    m = min(8, n + r.choice([0, 0, 1, 2, 3]))
    cplx = r.random() < (0.5 if structured else 0.35)
    kind = g.kind()
    cls = "fam" if structured else r.choice(["general", "general", "upper", "zero_col", "rankdef", "fam", "fam", "fam"])
    if cls == "fam":
        # shape-selected branches of the Householder step: the sign of beta (cancellation in beta - alpha when the diagonal entry
        # dominates its sub-column: graded rows, dominant diagonal, nearly triangular), xnorm == 0, zero diagonal entry, rank
        # deficiency in every position
        cls = "fam:" + r.choice(QR_FAMILIES)
        A = LF.rect_family(g, cls[4:], m, n, p, cplx, kind)
    else:
        A = g.rect(m, n, kind, p, cplx)
    if cls == "upper":
        for i in range(m):
            for j in range(n):
                if i > j:
                    A[i][j] = S(0)
    elif cls == "zero_col":
        j = r.randrange(n)
        for i in range(m):
            A[i][j] = S(0)
    elif cls == "rankdef":
        j0, j1 = r.sample(range(n), 2)
        for i in range(m):
            A[i][j1] = A[i][j0]
    mode = r.choice(["full", "skinny"])
    g.note("class", "qr:" + cls)
    g.note("field", "complex" if cplx else "real")
    task = {"op": "qr", "prec": p, "cplx": cplx, "A": toks_of(A), "mode": mode}
    At = flat(task["A"])

    def lines(c, res):
        o = (res or {}).get("ok")
        if o and not has_nonfinite(o["Q"], o["R"]):
            q = len(o["Q"][0])
            if len(o["Q"]) != m or len(o["R"]) != q or len(o["R"][0]) != n:
                return {}
            return {"cert": "cert_qr %d %d %d %d %s %s %s" % (m, n, q, p, At, flat(o["Q"]), flat(o["R"]))}
        return {}

    def judge(c, res, ans):
        if "exc" in res:
            return "violates", "qr raised %s: %s" % (res["exc"], res.get("msg"))
        v = ans.get("cert")
        if v is None:
            return "violates", "non-finite entries or wrong shapes in Q, R"
        if v == "V:ok":
            return "ok", None
        return "violates", "qr identity/structure fails: " + v
    return {"task": task, "site": "linalg.qr", "cls": "qr:" + cls + ":" + mode, "lines": lines, "judge": judge}


def case_chol(g):
    p, n, cls, cplx, A = _mk_square(g, "spd")
    if g.r.random() < P_STRUCTURED:
        cls, A = LF.spd_family(g, n, p, cplx)
        g.note("class", cls)
    task = {"op": "cholesky", "prec": p, "cplx": cplx, "A": toks_of(A)}
    At = flat(task["A"])

    def lines(c, res):
        o = (res or {}).get("ok")
        if o and not has_nonfinite(o["L"]):
            return {"cert": "cert_chol %d %d %s %s" % (n, p, At, flat(o["L"]))}
        return {}

    def judge(c, res, ans):
        if "exc" in res:
            return "violates", "cholesky raised %s on a positive definite matrix: %s" % (res["exc"], res.get("msg"))
        v = ans.get("cert")
        if v is None:
            return "violates", "non-finite entries in L"
        if v == "V:ok":
            return "ok", None
        return "violates", "cholesky identity/structure fails: " + v
    return {"task": task, "site": "linalg.cholesky", "cls": cls, "lines": lines, "judge": judge, "nontrivial": n >= 2}


def case_arith(g):
    """matrix + - * T H and the 1/inf norms against exact arithmetic, correctly rounded once (fdot/fsum are exact sums)"""
    from mpmath.libmp import from_man_exp
    r = g.r
    p = g.prec()
    n = g.size()
    cplx = r.random() < 0.3
    kind = g.kind()
    A = g.rect(n, n, kind, p, cplx)
    B = g.rect(n, n, g.r.choice(["int", "dyadic", "decimal", "bigint"]), p, cplx)
    g.note("class", "arith")
    task = {"op": "arith", "prec": p, "cplx": cplx, "A": toks_of(A), "B": toks_of(B)}

    def rnd(m, e):
        s, mm, ee, bb = from_man_exp(m, e, p, "n")
        return (-mm if s else mm), (ee if mm else 0)

    def rs(x):
        a = rnd(x[0], x[1]); b = rnd(x[2], x[3])
        return LA.frac(S(a[0], a[1], b[0], b[1]))

    def vals(T):
        return [[LA.frac(LA.untok(t)) for t in row] for row in T]

    def lines(c, res):
        return {"mul": "cert_mul %d %d %d %s %s" % (n, n, n, flat(task["A"]), flat(task["B"]))}

    def judge(c, res, ans):
        if "exc" in res:
            return "violates", "matrix arithmetic raised %s" % res["exc"]
        o = res["ok"]
        exp_add = [[rs(MGen.s_add(A[i][j], B[i][j])) for j in range(n)] for i in range(n)]
        exp_sub = [[rs(MGen.s_add(A[i][j], MGen.s_mul(S(-1), B[i][j]))) for j in range(n)] for i in range(n)]
        if vals(o["add"]) != exp_add:
            return "violates", "A+B differs from the correctly rounded elementwise sum"
        if vals(o["sub"]) != exp_sub:
            return "violates", "A-B differs from the correctly rounded elementwise difference"
        if vals(o["T"]) != [[LA.frac(A[j][i]) for j in range(n)] for i in range(n)]:
            return "violates", "A.T is not the transpose"
        if vals(o["H"]) != [[LA.frac(MGen.s_conj(A[j][i])) for j in range(n)] for i in range(n)]:
            return "violates", "A.H is not the conjugate transpose"
        m = ans.get("mul", "")
        if not m.startswith("M:"):
            return "undecided", "no exact product"
        ex = [LA.untok(t) for t in m[2:].split(" ")] if n else []
        exp_mul = [[rs(ex[i * n + j]) for j in range(n)] for i in range(n)]
        # cross-check of the Lean exact product against the harness' own exact arithmetic
        own = MGen.m_mul(A, B)
        for i in range(n):
            for j in range(n):
                if LA.frac(own[i][j]) != LA.frac(ex[i * n + j]):
                    return "undecided", "Lean exact product differs from Python exact product (harness bug)"
        if vals(o["mul"]) != exp_mul:
            return "violates", "A*B differs from the correctly rounded exact product (fdot is an exact sum rounded once)"
        if not cplx:
            c1 = max([sum((abs(LA.frac(A[i][j])[0]) for i in range(n)), Fraction(0)) for j in range(n)] or [Fraction(0)])
            ci = max([sum((abs(LA.frac(A[i][j])[0]) for j in range(n)), Fraction(0)) for i in range(n)] or [Fraction(0)])
            for name, val in (("n1", c1), ("ninf", ci)):
                got = LA.frac(LA.untok(o[name]))[0]
                den = val.denominator
                e = -(den.bit_length() - 1)
                want = rnd(val.numerator, e)
                if got != Fraction(want[0]) * Fraction(2) ** want[1]:
                    return "violates", "mnorm(A,%s) differs from the correctly rounded exact norm" % ("1" if name == "n1" else "inf")
        return "ok", None
    return {"task": task, "site": "matrices.arith", "cls": "arith", "lines": lines, "judge": judge, "nontrivial": n >= 2}


def case_matpow(g):
    r = g.r
    p = g.prec()
    n = min(g.size(), 5)
    cplx = r.random() < 0.3
    A = g.rect(n, n, r.choice(["int", "dyadic"]), p, cplx)
    k = r.randint(0, 6)
    g.note("class", "matpow")
    task = {"op": "matpow", "prec": p, "cplx": cplx, "A": toks_of(A), "k": k}

    def lines(c, res):
        o = (res or {}).get("ok")
        if o and not has_nonfinite(o["X"]):
            return {"cert": "cert_powm %d %d %d %s %s" % (n, k, p, flat(task["A"]), flat(o["X"]))}
        return {}

    def judge(c, res, ans):
        if "exc" in res:
            return "violates", "A**k raised %s" % res["exc"]
        v = ans.get("cert")
        if v == "V:ok":
            return "ok", None
        return "violates", "A**%d differs from the exact power beyond 2^(10-p)*||A||_F^k*max(1,||A||_F): %s" % (k, v)
    return {"task": task, "site": "matrices.__pow__", "cls": "matpow", "lines": lines, "judge": judge, "nontrivial": n >= 2 and k >= 2}


from fractions import Fraction  # noqa: E402

PROGRAMS = ["lu_solve", "lu_solve/over", "qr_solve", "qr_solve/over", "cholesky_solve", "inverse", "det", "lu", "LU_decomp(via lu)",
            "lu after matrix.__setitem__ (element/slice) on a factored matrix",
            "qr", "cholesky", "matrix.__add__", "__sub__", "__mul__", "__pow__", "transpose", "transpose_conj", "mnorm"]


def build_cases(g, n_cases):
    r = g.r
    mk = [
        (10, lambda: case_solve(g, "lu_solve")),
        (8, lambda: case_solve(g, "qr_solve")),
        (6, lambda: case_solve(g, "cholesky_solve")),
        (5, lambda: case_over(g, "lu_solve")),
        (5, lambda: case_over(g, "qr_solve")),
        (8, lambda: case_inverse(g)),
        (8, lambda: case_det(g)),
        (5, lambda: case_solve(g, "lu_solve", singular=True)),
        (5, lambda: case_inverse(g, singular=True)),
        (8, lambda: case_lu(g)),
        (1, lambda: case_lu(g, cache=True)),
        (8, lambda: case_qr(g)),
        (6, lambda: case_chol(g)),
        (6, lambda: case_arith(g)),
        (3, lambda: case_matpow(g)),
    ]
    tot = sum(w for w, _ in mk)
    cases = []
    for _ in range(n_cases):
        x = r.random() * tot
        for w, f in mk:
            x -= w
            if x < 0:
                cases.append(f())
                break
    return cases


def run_exact_shim(g, n_cases):
    """T1 in exact arithmetic: the real LU_decomp / L_solve / U_solve over a Fraction-backed context vs. an exact model"""
    import linalg_exact as LE
    ctx = LE.make_ctx()
    stats = {}
    failing = []
    for _ in range(n_cases):
        n = g.size()
        cls = g.r.choice(["general", "general", "upper", "lower", "singular", "symmetric", "hilbert", "defective", "diagonal",
                          "zero_rows", "repeated", "identity"])
        if cls == "hilbert":
            n = min(n, 6)
        A = g.matrix(cls, n, 53, False)
        F = [[LA.frac(x)[0] for x in row] for row in A]
        st, what = LE.run_case(ctx, F)
        stats[st] = stats.get(st, 0) + 1
        if st != "ok":
            failing.append({"site": "linalg.LU_decomp" if st == "known" else "linalg.LU_decomp[exact-shim]",
                            "what": "exact-arithmetic run of the real LU_decomp: " + what,
                            "input": {"task": {"op": "LU_decomp/Fraction-shim", "A": toks_of(A)}, "cls": cls,
                                      "tag": "singular_typeerror" if st == "known" else "exact_shim"}})
    return stats, failing


def run(ctx):
    import_repo()
    g = MGen(ctx.seed * 1000003 + 30, max_n=8 if not ctx.quick else 8)
    eng = Engine(ctx, timeout=60.0)
    n_cases = 900 if ctx.quick else 12000
    if ctx.replay:
        rp = json.load(open(ctx.replay))
        fi = (rp.get("failing_input") or {}).get("input") or {}
        if fi.get("task"):
            print("replaying recorded task on the real code:", json.dumps(LA.replay_task(fi["task"]))[:2000])
    for c in build_cases(g, n_cases):
        eng.add(c)
    # histories on one matrix object (separate PRNG stream: the cases above stay what they were)
    gh = MGen(ctx.seed * 1000003 + 3030, max_n=8)
    n_hist = 80 if ctx.quick else 1500
    for _ in range(n_hist):
        eng.add(case_lu_history(gh))
    # qr on structured families only (separate PRNG stream; these cases are cheap): the sign choice / cancellation of the real and
    # the complex Householder step only shows on graded, diagonally dominant or nearly triangular input
    gq = MGen(ctx.seed * 1000003 + 3031, max_n=8)
    for _ in range(400 if ctx.quick else 6000):
        eng.add(case_qr(gq, structured=True))
    out = eng.run()
    for k, v in gh.hist.items():
        g.hist["history:" + k] = v
    for k, v in gq.hist.items():
        g.hist["qr-structured:" + k] = v
    shim_stats, shim_fail = run_exact_shim(g, 400 if ctx.quick else 20000)
    out["failing"] += shim_fail
    cov = LA.coverage_of(out, g,
        "cases drawn from one seeded PRNG: matrix classes general/symmetric/hermitian/upper/lower/diagonal/hilbert-like(<=6)/"
        "defective/repeated-eigenvalue/identity/SPD(HPD)/exactly-singular (zero row, zero column, duplicate row, integer "
        "combination, rank one), sizes 1..8, real and complex, entries small int / big int / dyadic / decimal converted at the "
        "working precision, precisions {30,53,64,100,113,200,300} and random 30..300, overdetermined m<=8; every case runs the "
        "real routine, the output is read exactly and the property instance is decided by the Lean checker in exact arithmetic; a "
        "case is non-trivial when n>=2 and it is counted when the verdict is decided (ok/violates); plus histories on ONE matrix "
        "object at one precision: lu(A) or LU_decomp(A), then 1-2 assignments (single element, row, column, block or strided slice, "
        "with a matrix or a scalar value), optionally a second round, then lu(A), decided against the exact CURRENT contents; "
        "structured families (harness/linalg_families.py) in a share of the solve/inverse/det/lu/cholesky/qr cases and in a qr batch of "
        "their own: rows/columns graded by 2^k or 10^k (gaps from 3 bits to beyond 2*prec; geometric, one outlier, two-level, "
        "shuffled, uniformly small/big), dominant diagonal of either sign (complex: dominant real part, imaginary part or both), "
        "nearly triangular (other triangle * 2^-gap), zero columns/rows, repeated rows/columns, low rank, bidiagonal with zero/tiny "
        "entries, block triangular/diagonal, sparse, zero diagonal; graded / dominant-diagonal / block-diagonal SPD; complex "
        "variants with all-zero, tiny or single non-zero imaginary parts (real data on the complex code path)",
        len(PROGRAMS))
    cov["checker_requests"] = eng.nlines
    cov["exact_shim_LU_decomp"] = {"cases": sum(shim_stats.values()), "verdicts": shim_stats,
                                   "rule": "the real LU_decomp/L_solve/U_solve methods run over a fractions.Fraction context and are "
                                           "compared exactly with an independent exact model (pivots, singularity, P*A = L*U, "
                                           "det = sign*prod diag, A x = b)"}
    cov["evaluations"] += sum(shim_stats.values())
    cov["programs"] += 3
    return {"coverage": cov, "failing_inputs": out["failing"], "disagreements": []}
